"""Fixed effect-class tables for the C01 call-graph extractor (gen/gen_callgraph.py).

Every external callee / referenced external name is mapped to one effect class.  Anything not
listed is `Effectful` (fail closed).  The tables talk about the Python standard library and
builtins only -- never about fickling's own shapes.

Classes (coq/model/Effects.v `eff`):
  Pure           no effect outside the interpreter heap
  ReadFixed      reads fixed package data / fixed code (stdlib_list data files, a literal import)
  ReadInput      reads the stream / file the caller handed in
  Print          writes to the process's stdout / stderr
  WriteUserPath  writes to a path / handle the caller named (the JSON report)
  Effectful      anything else: code execution, import by computed name, process, network, fs
"""

PURE, READFIXED, READINPUT, PRINT, WRITEUSER, EFFECTFUL = \
    "Pure", "ReadFixed", "ReadInput", "Print", "WriteUserPath", "Effectful"
CLASSES = [PURE, READFIXED, READINPUT, PRINT, WRITEUSER, EFFECTFUL]

_PURE_BUILTINS = """
len isinstance issubclass hasattr list tuple dict set frozenset iter next enumerate zip reversed sorted
range int str bytes bytearray bool float complex repr chr ord min max any all map filter sum abs type
super id hash callable format slice staticmethod classmethod property divmod round object pow bin hex oct
ascii NotImplemented Ellipsis None True False __name__ __file__ __doc__ __debug__
BaseException Exception ValueError TypeError KeyError IndexError AttributeError StopIteration
NotImplementedError RuntimeError ImportError ModuleNotFoundError OSError IOError EOFError LookupError
AssertionError ArithmeticError OverflowError ZeroDivisionError UnicodeError UnicodeDecodeError
UnicodeEncodeError RecursionError MemoryError NameError Warning DeprecationWarning UserWarning
FileNotFoundError PermissionError KeyboardInterrupt SystemExit StopAsyncIteration GeneratorExit
""".split()

# exact dotted names
EXACT = {f"builtins.{n}": PURE for n in _PURE_BUILTINS}
EXACT.update({
    "builtins.print": PRINT,
    "logging.getLogger": PURE, "logging.debug": PRINT, "logging.info": PRINT, "logging.warning": PRINT,
    "logging.error": PRINT, "logging.exception": PRINT, "logging.critical": PRINT, "logging.log": PRINT,
    "logging.NullHandler": PURE, "logging.DEBUG": PURE, "logging.INFO": PURE, "logging.WARNING": PURE,
    "logging.ERROR": PURE, "logging.CRITICAL": PURE, "logging.Logger": PURE,
    "warnings.warn": PRINT,
    # handled specially by the extractor (argument-dependent): open getattr setattr delattr
    "builtins.eval": EFFECTFUL, "builtins.exec": EFFECTFUL, "builtins.compile": EFFECTFUL,
    "builtins.__import__": EFFECTFUL, "builtins.globals": EFFECTFUL, "builtins.locals": EFFECTFUL,
    "builtins.vars": EFFECTFUL, "builtins.input": EFFECTFUL, "builtins.breakpoint": EFFECTFUL,
    "builtins.memoryview": PURE,
    # sys: data and the two standard output handles
    "sys.version_info": PURE, "sys.builtin_module_names": PURE, "sys.stdlib_module_names": PURE,
    "sys.maxsize": PURE, "sys.byteorder": PURE, "sys.argv": PURE, "sys.platform": PURE,
    "sys.stdin": PURE, "sys.stdout": PURE, "sys.stderr": PURE,
    "sys.stdin.buffer": PURE, "sys.stdout.buffer": PURE, "sys.stderr.buffer": PURE,
    "sys.getrecursionlimit": PURE, "sys.getsizeof": PURE, "sys.intern": PURE,
    # tokeniser / package data
    "pickletools.genops": READINPUT, "pickletools.opcodes": PURE, "pickletools.OpcodeInfo": PURE,
    "pickletools.code2op": PURE, "pickletools.ArgumentDescriptor": PURE,
    "pickletools.StackObject": PURE,
    "stdlib_list.in_stdlib": READFIXED, "stdlib_list.stdlib_list": READFIXED,
    "json.dump": WRITEUSER, "json.dumps": PURE, "json.loads": PURE, "json.load": READINPUT,
    "json.JSONDecodeError": PURE, "json.JSONEncoder": PURE, "json.JSONDecoder": PURE,
    "marshal.dumps": PURE, "marshal.loads": EFFECTFUL, "marshal.load": EFFECTFUL,
    "marshal.dump": EFFECTFUL,
    "pickle.HIGHEST_PROTOCOL": PURE, "pickle.DEFAULT_PROTOCOL": PURE, "pickle.PickleError": PURE,
    "pickle.UnpicklingError": PURE, "pickle.PicklingError": PURE,
    "os.path.join": PURE, "os.path.basename": PURE, "os.path.dirname": PURE,
    "os.path.splitext": PURE, "os.path.normpath": PURE, "os.sep": PURE, "os.linesep": PURE,
    "os.fspath": PURE, "os.PathLike": PURE,
    "io.BytesIO": PURE, "io.StringIO": PURE, "io.BufferedIOBase": PURE, "io.RawIOBase": PURE,
    "io.IOBase": PURE, "io.TextIOWrapper": PURE, "io.BufferedReader": PURE, "io.SEEK_SET": PURE,
    "io.SEEK_CUR": PURE, "io.SEEK_END": PURE, "io.UnsupportedOperation": PURE,
    "argparse.ArgumentParser": PURE, "argparse.Namespace": PURE, "argparse.ArgumentError": PURE,
    "codecs.decode": PURE, "codecs.encode": PURE, "codecs.escape_decode": PURE,
    "codecs.escape_encode": PURE,
    "object.__init__": PURE, "object.__new__": PURE, "object.__init_subclass__": PURE,
    "object.__repr__": PURE, "object.__str__": PURE, "object.__eq__": PURE, "object.__hash__": PURE,
    "object.__setattr__": PURE, "object.__getattribute__": PURE,
    # reflective corners of otherwise pure modules
    "typing.get_type_hints": EFFECTFUL, "typing.ForwardRef": EFFECTFUL,
    "operator.attrgetter": EFFECTFUL, "operator.methodcaller": EFFECTFUL,
    "types.FunctionType": EFFECTFUL, "types.CodeType": EFFECTFUL, "types.ModuleType": EFFECTFUL,
    "types.LambdaType": EFFECTFUL, "functools.singledispatch": EFFECTFUL,
})

# whole modules that are pure (prefix "mod.")
PURE_MODULES = """
ast struct typing abc enum collections collections.abc re functools itertools operator math string
textwrap dataclasses copy hashlib base64 binascii numbers fractions decimal heapq bisect keyword
types contextlib warnings difflib unicodedata zlib
""".split()
# NOTE: `ast` has no evaluating entry point except literal_eval (literals only) and parse (no execution).
# `types`/`contextlib`/`warnings` carry no ambient effect; `copy` calls __reduce_ex__/__deepcopy__ of
# objects it is given, which for fickling's AST/opcode objects are the default object protocol.

# modules that are effectful whatever the attribute (documentation only: unknown => Effectful anyway)
EFFECTFUL_MODULES = """
os subprocess socket shutil ctypes importlib pickle _pickle cPickle dill cloudpickle runpy pkgutil imp
zipimport multiprocessing threading concurrent asyncio tempfile urllib http ftplib smtplib telnetlib
requests torch numpy pathlib glob fnmatch signal pty code codeop site sysconfig platform builtins
webbrowser zipfile tarfile sqlite3 shelve dbm mmap select selectors ssl
""".split()

# exception-like / ABC-like external base classes: super().<m>() on them
EXT_BASE_PURE_PREFIX = ("Exception.", "ValueError.", "TypeError.", "KeyError.", "RuntimeError.",
                        "BaseException.", "type.", "enum.Enum.", "abc.ABC.", "ast.NodeVisitor.",
                        "ast.NodeTransformer.", "collections.abc.", "typing.Generic.", "object.")

# methods invoked on a receiver whose type the extractor does not know, by bare name
_PURE_METHODS = """
append extend pop insert add update get items keys values setdefault copy clear remove discard index
count sort reverse union intersection difference symmetric_difference issubset issuperset isdisjoint
join split rsplit strip lstrip rstrip startswith endswith find rfind replace encode decode format
format_map lower upper title capitalize casefold swapcase isdigit isidentifier isalpha isalnum isspace
isupper islower isnumeric isdecimal isascii isprintable ljust rjust center zfill partition rpartition
splitlines expandtabs translate maketrans hex fromhex to_bytes from_bytes bit_length as_integer_ratio
is_integer conjugate group groups groupdict start end span match search fullmatch findall finditer sub
add_argument add_mutually_exclusive_group add_argument_group add_subparsers add_parser set_defaults
parse_args parse_known_args isatty seekable readable writable tell seek fileno close closed
visit generic_visit with_traceback __init__ __new__ __init_subclass__ __repr__ __str__ __eq__ __hash__
__len__ __iter__ __getitem__ __contains__ __lt__ __le__ __gt__ __ge__ __ne__ __format__ __sizeof__
most_common elements total popleft appendleft rotate move_to_end fromkeys mro __subclasses__
""".split()
_READ_METHODS = "read read1 readline readlines readinto readinto1 peek getvalue getbuffer".split()
_WRITE_METHODS = "write writelines flush truncate".split()
# diagnostics: argparse's own messages and the `logging` API (Logger methods; what a record does is decided
# by the APPLICATION's logging configuration, never by the content of the analysed input)
_PRINT_METHODS = ("print_help print_usage error exit "
                  "debug info warning warn critical exception log isEnabledFor getChild setLevel addHandler").split()
_EFFECTFUL_METHODS = """
load loads system popen Popen import_module exec_module load_module find_class find_spec find_module
create_module persistent_load connect connect_ex bind listen accept send sendall sendto recv urlopen
urlretrieve call check_call check_output getoutput getstatusoutput spawn spawnl spawnv spawnvp execv
execve execl execlp execvp startfile fork forkpty kill unlink rmtree rmdir mkdir makedirs rename
replace_file chmod chown symlink link dlopen LoadLibrary eval exec compile __import__ __reduce__
__reduce_ex__ __call__ __getattr__ __setstate__ __getstate__ open mkstemp mkdtemp NamedTemporaryFile
write_bytes write_text read_bytes read_text touch extract extractall
""".split()
METHODS = {}
METHODS.update({m: PURE for m in _PURE_METHODS})
METHODS.update({m: READINPUT for m in _READ_METHODS})
METHODS.update({m: WRITEUSER for m in _WRITE_METHODS})
METHODS.update({m: PRINT for m in _PRINT_METHODS})
METHODS.update({m: EFFECTFUL for m in _EFFECTFUL_METHODS})

# decorators that do not replace the function by foreign code
PURE_DECORATORS = {"builtins.property", "builtins.staticmethod", "builtins.classmethod",
                   "abc.abstractmethod", "typing.overload", "functools.wraps",
                   "functools.lru_cache", "functools.cache", "functools.cached_property",
                   "functools.total_ordering", "dataclasses.dataclass", "typing.final",
                   "abc.abstractproperty", "abc.abstractclassmethod", "abc.abstractstaticmethod"}

# external base classes and the methods of a subclass they call back (beyond dunder methods, which are
# always treated as implicitly callable).  A base not listed here => every method of the subclass is a
# possible callback target (fail closed).
def _visitor(name):
    return name.startswith("visit_") or name in ("generic_visit", "visit")


CALLBACK_BASES = {
    "ast.NodeVisitor": _visitor,
    "ast.NodeTransformer": _visitor,
    "collections.abc.MutableSequence": lambda n: n in ("insert",),
    "collections.abc.Sequence": lambda n: False,
    "collections.abc.Mapping": lambda n: False,
    "collections.abc.MutableMapping": lambda n: False,
    "collections.abc.Iterable": lambda n: False,
    "collections.abc.Iterator": lambda n: False,
    "typing.Generic": lambda n: False,
    "abc.ABC": lambda n: False,
    "abc.ABCMeta": lambda n: False,
    "enum.Enum": lambda n: n in ("_generate_next_value_", "_missing_"),
    "builtins.type": lambda n: False,
    "builtins.object": lambda n: False,
    "builtins.Exception": lambda n: False,
    "builtins.ValueError": lambda n: False,
    "builtins.TypeError": lambda n: False,
    "builtins.KeyError": lambda n: False,
    "builtins.RuntimeError": lambda n: False,
    "builtins.BaseException": lambda n: False,
}


STD_HANDLES = ("sys.stdin", "sys.stdout", "sys.stderr", "sys.__stdout__", "sys.__stderr__", "sys.__stdin__")
_PURE_BUILTIN_TYPES = ("int", "str", "bytes", "bytearray", "dict", "list", "tuple", "set", "frozenset",
                       "float", "bool", "object", "type")


def classify_ext(dotted: str) -> str:
    """effect class of an external dotted name (module attribute / builtin)."""
    if dotted in EXACT:
        return EXACT[dotted]
    for h in STD_HANDLES:
        for hh in (h + ".buffer.", h + "."):
            if dotted.startswith(hh):
                rest = dotted[len(hh):]
                if "." in rest:
                    return EFFECTFUL
                c = METHODS.get(rest, EFFECTFUL)
                return PRINT if c == WRITEUSER else c     # a write to a std handle is printing
    for t in _PURE_BUILTIN_TYPES:
        if dotted.startswith(f"builtins.{t}."):
            rest = dotted[len(f"builtins.{t}."):]
            return METHODS.get(rest, EFFECTFUL) if "." not in rest else EFFECTFUL
    for m in PURE_MODULES:
        if dotted == m or dotted.startswith(m + "."):
            # a pure module, but never its dynamic-evaluation corners
            return PURE
    for p in EXT_BASE_PURE_PREFIX:
        if dotted.startswith(p) or dotted.startswith("builtins." + p):
            return PURE
    return EFFECTFUL


def classify_method(name: str) -> str:
    return METHODS.get(name, EFFECTFUL)
