#!/venv/bin/python
"""C01: fail-closed call-graph extractor.  Walks the Python `ast` of the analysis-relevant sources of
$FICKLING_REPO/fickling and writes coq/gen/CallGraph.v (only when its content changed).

  nodes   every function / method / lambda / module-level body in scope, plus one leaf per external
          callee or referenced external name, plus three pseudo nodes:
            <implicit>        every dunder method and every base-class callback (visit_*, insert, ...):
                              reachable from EVERY body (operators, len(), str(), for, with, ...)
            <unknown-callee:M>  a call in module M whose callee is a computed value: may be ANY callable whose value
                              escapes (every class constructor, every function mentioned outside call
                              position, every external name mentioned outside call position)
  edges   body -> everything it calls or mentions.  Dynamic dispatch is over-approximated by NAME:
          `x.m(...)` with an unknown receiver goes to every in-scope method / property / setattr-bound
          function called `m` (so `opcode.run(..)` -> every `run` incl. the StackSliceOpcode wrapper,
          `analysis.analyze(..)` -> every `analyze`), and additionally to the external leaf `method:m`
          when `m` is a known stdlib method name or no in-scope `m` exists.
  effect  leaf -> Pure | ReadFixed | ReadInput | WriteUserPath | Effectful by gen/effect_tables.py;
          anything unknown is Effectful.  Internal bodies carry no effect of their own (Pure).

Nothing here matches on fickling's current shapes: the only fickling-specific inputs are the list of
source files in scope, the entry-point names and the CLI options that select a non-analysis branch.
Prints a JSON summary on stdout (stored by the Makefile as _build/gen_callgraph.json); exit status 2
(and no CallGraph.v update) if anything cannot be handled.
"""
import ast
import hashlib
import json
import os
import sys

sys.path.insert(0, os.path.dirname(os.path.abspath(__file__)))
from effect_tables import (CALLBACK_BASES, CLASSES, EFFECTFUL, PURE, PURE_DECORATORS, READFIXED,  # noqa: E402
                           READINPUT, WRITEUSER, METHODS, classify_ext, classify_method)

PYVER = tuple(sys.version_info[:3])

REPO = os.environ.get("FICKLING_REPO", "/repo")
PKG = "fickling"
OUT = os.path.normpath(os.path.join(os.path.dirname(os.path.abspath(__file__)), "..", "coq", "gen"))

# ---- the scope of the claim (the only fickling-specific configuration) ----
# module -> None (everything) | set of top-level names in scope
SCOPE = {
    "fickle": None, "analysis": None, "tracing": None, "cli": None, "exception": None,
    "ml": {"MLAllowlist"},            # FicklingMLUnpickler really unpickles: not an analysis
    "polyglot": {"check_pickle"},
}
# "mod.Class.*" = every method of the class
ENTRY_POINTS = [
    "fickle.Pickled.load", "fickle.StackedPickle.load", "fickle.Pickled.ast", "fickle.Interpreter.*",
    "fickle.Pickled.properties", "fickle.Pickled.has_import", "fickle.Pickled.has_call",
    "fickle.Pickled.has_non_setstate_call", "fickle.Pickled.unsafe_imports",
    "fickle.Pickled.non_standard_imports", "tracing.Trace.run", "analysis.check_safety",
    "analysis.is_likely_safe", "analysis.Analyzer.analyze", "analysis.AnalysisContext.analyze",
    "cli.main", "polyglot.check_pickle",
]
# CLI options whose presence selects a branch that is NOT an analysis entry point (value assumed)
ENTRY_ASSUME = {"cli.main": {"inject": None, "create": None}}

SENTINEL = "<sentinel:non-entry-that-calls-eval>"
CTOR = ("__init__", "__new__")
NOT_IMPLICIT = ("__init__", "__new__", "__init_subclass__")


class Fail(Exception):
    pass


class Module:
    def __init__(self, name, path, include, in_scope):
        self.name, self.path, self.include, self.in_scope = name, path, include, in_scope
        self.src = open(path, encoding="utf-8").read()
        self.tree = ast.parse(self.src)
        self.bind = {}      # name -> [binding]
        self.body = None    # Func of the module-level body


class Class:
    def __init__(self, qual, module, node):
        self.qual, self.module, self.node = qual, module, node
        self.members = {}   # name -> [binding]
        self.bases = []     # Class | str (external dotted) | None (unresolved => unknown external)
        self.meta = []
        self.subs = []


class Func:
    def __init__(self, qual, module, node, cls=None, parent=None, kind="function"):
        self.qual, self.module, self.node, self.cls, self.parent, self.kind = qual, module, node, cls, parent, kind
        self.params, self.defaults = [], {}
        self.assigns = {}        # local name -> [value expr | None]
        self.nested = {}         # name -> Func
        self.local_imports = {}  # name -> [binding]
        self.deco = set()
        self.vararg = False

    def __repr__(self):
        return f"<{self.qual}>"


def block_children(stmts):
    """statements of a body, flattened through compound statements but not into def/class/lambda"""
    for s in stmts:
        yield s
        if isinstance(s, (ast.FunctionDef, ast.AsyncFunctionDef, ast.ClassDef)):
            continue
        if isinstance(s, ast.If):
            v = version_test(s.test)
            if v is not None:
                yield from block_children(s.body if v else s.orelse)
                continue
        for field in ("body", "orelse", "finalbody"):
            sub = getattr(s, field, None)
            if isinstance(sub, list) and sub and isinstance(sub[0], ast.stmt):
                yield from block_children(sub)
        if isinstance(s, ast.Try) or s.__class__.__name__ == "TryStar":
            for h in s.handlers:
                yield from block_children(h.body)
        if isinstance(s, ast.Match) if hasattr(ast, "Match") else False:
            for c in s.cases:
                yield from block_children(c.body)


def version_test(t):
    """`sys.version_info <op> (a, b, ..)` decided for the interpreter that runs fickling (this one)"""
    if isinstance(t, ast.Compare) and len(t.ops) == 1 and isinstance(t.comparators[0], ast.Tuple) and \
            all(isinstance(e, ast.Constant) and isinstance(e.value, int) for e in t.comparators[0].elts):
        left = t.left
        named = (isinstance(left, ast.Attribute) and left.attr == "version_info" and
                 isinstance(left.value, ast.Name) and left.value.id == "sys") or \
                (isinstance(left, ast.Name) and left.id == "version_info")
        if not named:
            return None
        rhs = tuple(e.value for e in t.comparators[0].elts)
        op = t.ops[0]
        import operator as o
        table = {ast.Lt: o.lt, ast.LtE: o.le, ast.Gt: o.gt, ast.GtE: o.ge, ast.Eq: o.eq, ast.NotEq: o.ne}
        fn = table.get(type(op))
        return None if fn is None else bool(fn(PYVER, rhs))
    return None


def own_nodes(root_stmts_or_expr):
    """all AST nodes of a body without descending into nested def / lambda / class bodies"""
    stack = list(root_stmts_or_expr) if isinstance(root_stmts_or_expr, list) else [root_stmts_or_expr]
    while stack:
        n = stack.pop()
        yield n
        for c in ast.iter_child_nodes(n):
            if isinstance(c, (ast.FunctionDef, ast.AsyncFunctionDef, ast.Lambda, ast.ClassDef)):
                yield c  # the definition node itself, not its inside
                continue
            stack.append(c)


class Extractor:
    def __init__(self):
        self.modules = {}
        self.classes = []
        self.funcs = []            # in-scope bodies (nodes)
        self.lambda_of = {}        # id(ast.Lambda) -> Func
        self.func_of = {}          # id(ast.FunctionDef) -> Func
        self.global_attrs = {}     # attr name -> [Func] bound through setattr / attribute assignment
        self.edges = {}            # node name -> set(node name)
        self.leaf_eff = {}         # leaf name -> class
        self.escaped = set()       # node names that may be the target of an unknown callee
        self.escaped_in = {}       # node name -> set of module short names where it became a value
        self.unknown_nodes = {}    # module short name -> '<unknown-callee:module>'
        self.callsites = {}        # Func -> [(caller Func, ast.Call, skip_first)]
        self.open_calls = []       # (Func, ast.Call)
        self.pruned = []
        self.resolving = set()
        self.strip = False
        self.notes = []

    # ------------------------------------------------------------------ loading
    def load(self):
        d = os.path.join(REPO, PKG)
        if not os.path.isdir(d):
            raise Fail(f"{d} not found")
        for fn in sorted(os.listdir(d)):
            if not fn.endswith(".py"):
                continue
            short = fn[:-3]
            name = PKG if short == "__init__" else f"{PKG}.{short}"
            in_scope = short in SCOPE
            self.modules[name] = Module(name, os.path.join(d, fn), SCOPE.get(short), in_scope)
        for short in SCOPE:
            if f"{PKG}.{short}" not in self.modules:
                raise Fail(f"source in scope is missing: {PKG}/{short}.py")
        for m in self.modules.values():
            self.collect_module(m)
        for c in self.classes:
            self.link_class(c)

    def short(self, m):
        return m.name[len(PKG) + 1:] if m.name != PKG else "__init__"

    def included(self, m, name):
        return m.in_scope and (m.include is None or name in m.include)

    def collect_module(self, m):
        body = Func(f"{self.short(m)}.<module>", m, m.tree, kind="module")
        m.body = body
        if m.in_scope:
            self.funcs.append(body)
        for s in block_children(m.tree.body):
            self.collect_binding(s, m.bind, m, owner_func=body, cls=None)
        for n in own_nodes(m.tree.body):
            if isinstance(n, ast.comprehension):
                self.bind_target(n.target, None, m.bind)
            elif isinstance(n, ast.NamedExpr):
                self.bind_target(n.target, n.value, m.bind)

    def add_bind(self, table, name, b):
        table.setdefault(name, []).append(b)

    def collect_binding(self, s, table, m, owner_func, cls):
        """record what a statement binds in `table` (module / class / function level)"""
        if isinstance(s, (ast.FunctionDef, ast.AsyncFunctionDef)):
            top = owner_func.kind == "module" and cls is None
            if owner_func.kind == "module" and not self.included(m, cls.node.name if cls else s.name):
                self.add_bind(table, s.name, ("oos", f"{m.name}.{s.name}"))
                return
            prefix = cls.qual if cls else (owner_func.qual[:-len(".<module>")] if owner_func.kind == "module"
                                           else owner_func.qual + ".<locals>")
            f = Func(f"{prefix}.{s.name}", m, s, cls=cls if owner_func.kind == "module" else None,
                     parent=None if owner_func.kind == "module" else owner_func)
            # several defs of one name (property getter / setter, overloads, if/else versions) stay distinct
            n_same = sum(1 for g in self.funcs if g.qual == f.qual or g.qual.startswith(f.qual + "#"))
            if n_same:
                f.qual += f"#{n_same + 1}"
            self.setup_func(f)
            self.add_bind(table, s.name, ("func", f))
            del top
        elif isinstance(s, ast.ClassDef):
            if owner_func.kind != "module" or cls is not None:
                raise Fail(f"{m.name}:{s.lineno}: nested class definitions are not supported (fail closed)")
            if not self.included(m, s.name):
                self.add_bind(table, s.name, ("oos", f"{m.name}.{s.name}"))
                return
            c = Class(f"{self.short(m)}.{s.name}", m, s)
            self.classes.append(c)
            self.add_bind(table, s.name, ("class", c))
            for cs in block_children(s.body):
                self.collect_binding(cs, c.members, m, owner_func, c)
        elif isinstance(s, ast.Import):
            for a in s.names:
                if a.asname:
                    self.add_bind(table, a.asname, ("mod", a.name))
                else:
                    self.add_bind(table, a.name.split(".")[0], ("mod", a.name.split(".")[0]))
        elif isinstance(s, ast.ImportFrom):
            base = s.module or ""
            if s.level:
                pkg = m.name.split(".")
                if not m.path.endswith("__init__.py"):
                    pkg = pkg[:-1]
                pkg = pkg[:len(pkg) - (s.level - 1)]
                base = ".".join(pkg + ([s.module] if s.module else []))
            for a in s.names:
                if a.name == "*":
                    if m.in_scope:
                        raise Fail(f"{m.name}:{s.lineno}: star import (fail closed)")
                    continue
                self.add_bind(table, a.asname or a.name, ("from", base, a.name))
        elif isinstance(s, ast.Assign):
            for t in s.targets:
                self.bind_target(t, s.value, table)
        elif isinstance(s, ast.AnnAssign):
            if s.value is not None:
                self.bind_target(s.target, s.value, table)
        elif isinstance(s, ast.AugAssign):
            self.bind_target(s.target, None, table)
        elif isinstance(s, (ast.For, ast.AsyncFor)):
            self.bind_target(s.target, None, table)
        elif isinstance(s, (ast.With, ast.AsyncWith)):
            for it in s.items:
                if it.optional_vars is not None:
                    self.bind_target(it.optional_vars, None, table)
        elif isinstance(s, ast.Try):
            for h in s.handlers:
                if h.name:
                    self.add_bind(table, h.name, ("expr", None))

    def bind_target(self, t, value, table):
        if isinstance(t, ast.Name):
            self.add_bind(table, t.id, ("expr", value))
        elif isinstance(t, (ast.Tuple, ast.List)):
            for e in t.elts:
                self.bind_target(e, None, table)
        elif isinstance(t, ast.Starred):
            self.bind_target(t.value, None, table)

    def setup_func(self, f):
        self.funcs.append(f)
        self.func_of[id(f.node)] = f
        a = f.node.args
        allargs = list(a.posonlyargs) + list(a.args)
        f.params = [x.arg for x in allargs] + [x.arg for x in a.kwonlyargs]
        f.pos_params = [x.arg for x in allargs]
        nd = len(a.defaults)
        for x, d in zip(allargs[len(allargs) - nd:], a.defaults):
            f.defaults[x.arg] = d
        for x, d in zip(a.kwonlyargs, a.kw_defaults):
            if d is not None:
                f.defaults[x.arg] = d
        if a.vararg:
            f.params.append(a.vararg.arg)
            f.vararg = True
        if a.kwarg:
            f.params.append(a.kwarg.arg)
            f.vararg = True
        if isinstance(f.node, ast.Lambda):
            body = [f.node.body]
        else:
            body = f.node.body
            for d in f.node.decorator_list:
                if isinstance(d, ast.Name) and d.id in ("staticmethod", "classmethod", "property"):
                    f.deco.add(d.id)
                if isinstance(d, ast.Attribute) and d.attr in ("setter", "getter", "deleter"):
                    f.deco.add("property")
        # local bindings
        table = {}
        if not isinstance(f.node, ast.Lambda):
            for s in block_children(body):
                if isinstance(s, (ast.FunctionDef, ast.AsyncFunctionDef, ast.ClassDef, ast.Import, ast.ImportFrom)):
                    t2 = {}
                    self.collect_binding(s, t2, f.module, owner_func=f, cls=None)
                    for k, bs in t2.items():
                        for b in bs:
                            if b[0] == "func":
                                f.nested[k] = b[1]
                            else:
                                f.local_imports.setdefault(k, []).append(b)
                else:
                    self.collect_binding(s, table, f.module, owner_func=f, cls=None)
        for n in own_nodes(body):
            if isinstance(n, ast.Lambda):
                lf = Func(f"{f.qual}.<lambda@{n.lineno}:{n.col_offset}>", f.module, n, parent=f, kind="lambda")
                self.lambda_of[id(n)] = lf
                self.setup_func(lf)
            elif isinstance(n, ast.NamedExpr):
                self.bind_target(n.target, n.value, table)
            elif isinstance(n, ast.comprehension):
                self.bind_target(n.target, None, table)
        for k, bs in table.items():
            f.assigns[k] = [b[1] for b in bs]

    # lambdas at module / class level
    def setup_toplevel_lambdas(self):
        for m in self.modules.values():
            if not m.in_scope:
                continue
            for n in own_nodes(m.tree.body):
                if isinstance(n, ast.ClassDef):
                    if self.included(m, n.name):
                        for k in own_nodes(n.body):
                            if isinstance(k, ast.Lambda):
                                self._toplambda(m, k)
                elif isinstance(n, ast.Lambda):
                    self._toplambda(m, n)

    def _toplambda(self, m, n):
        lf = Func(f"{self.short(m)}.<lambda@{n.lineno}:{n.col_offset}>", m, n, parent=None, kind="lambda")
        self.lambda_of[id(n)] = lf
        self.setup_func(lf)

    def link_class(self, c):
        ctx = Ctx(c.module.body, None)
        self.strip = True   # Base[T] names the class Base
        try:
            self._link_class(c, ctx)
        finally:
            self.strip = False

    def _link_class(self, c, ctx):
        for b in c.node.bases:
            ts = self.resolve(b, ctx, strip_subscript=True)
            got = False
            for t in ts:
                if t[0] == "class":
                    c.bases.append(t[1])
                    t[1].subs.append(c)
                    got = True
                elif t[0] in ("ext", "xmod"):
                    c.bases.append(t[1])
                    got = True
            if not got:
                c.bases.append(None)
        for kw in c.node.keywords:
            if kw.arg == "metaclass":
                for t in self.resolve(kw.value, ctx):
                    if t[0] == "class":
                        c.meta.append(t[1])
                    else:
                        c.bases.append(None)
            else:
                c.bases.append(None)  # class keyword arguments reach __init_subclass__: unknown protocol

    # ------------------------------------------------------------------ class helpers
    def ancestors(self, c, seen=None):
        seen = seen if seen is not None else []
        for b in c.bases:
            if isinstance(b, Class) and b not in seen:
                seen.append(b)
                self.ancestors(b, seen)
        return seen

    def descendants(self, c, seen=None):
        seen = seen if seen is not None else []
        for s in c.subs:
            if s not in seen:
                seen.append(s)
                self.descendants(s, seen)
        return seen

    def ext_bases(self, c):
        out = []
        for k in [c] + self.ancestors(c):
            for b in k.bases:
                if not isinstance(b, Class):
                    out.append(b)
        return out

    def members(self, classes, name):
        """bindings of `name` in the given classes, as resolved targets"""
        out = []
        for k in classes:
            for b in k.members.get(name, []):
                out += self.resolve_binding(b, Ctx(k.module.body, k), 0)
        return out

    def ctor_targets(self, c, down=False):
        ks = [c] + self.ancestors(c)
        if down:
            for d in self.descendants(c):
                for k in [d] + self.ancestors(d):
                    if k not in ks:
                        ks.append(k)
        out = []
        for n in CTOR:
            out += [t for t in self.members(ks, n) if t[0] == "func"]
        for k in ks:
            for b in k.bases:
                if b is None:
                    out.append(("ext", "<unresolved-base-class>"))
                elif not isinstance(b, Class):
                    out.append(("ext", b))
            for mc in k.meta:
                out += [t for t in self.members([mc] + self.ancestors(mc), "__call__") if t[0] == "func"]
        return out

    # ------------------------------------------------------------------ resolution
    def resolve_binding(self, b, ctx, depth):
        kind = b[0]
        if kind == "func":
            return [("func", b[1])]
        if kind == "class":
            return [("class", b[1])]
        if kind == "oos":
            return [("oos", b[1])]
        if kind == "mod":
            return [self.module_target(b[1])]
        if kind == "from":
            return self.resolve_from(b[1], b[2], depth)
        if kind == "expr":
            if b[1] is None or depth > 6:
                return [("unk",)]
            return self.resolve(b[1], ctx, depth + 1)
        raise Fail(f"binding {b!r}")

    def module_target(self, dotted):
        if dotted == PKG or dotted.startswith(PKG + "."):
            if dotted in self.modules:
                return ("imod", self.modules[dotted])
            return ("oos", dotted)
        return ("xmod", dotted)

    def resolve_from(self, base, name, depth):
        if base == PKG or base.startswith(PKG + "."):
            sub = f"{base}.{name}"
            if sub in self.modules:
                return [("imod", self.modules[sub])]
            if base not in self.modules:
                return [("oos", sub)]
            m = self.modules[base]
            if name not in m.bind or depth > 6:
                return [("oos", sub)]
            out = []
            for b in m.bind[name]:
                out += self.resolve_binding(b, Ctx(m.body, None), depth + 1)
            return out
        return [("ext", f"{base}.{name}")]

    def resolve_name(self, name, ctx, depth):
        f = ctx.func
        while f is not None and f.kind != "module":
            if name in f.nested:
                return [("func", f.nested[name])]
            if name in f.params:
                if f.cls is not None and f.kind == "function" and "staticmethod" not in f.deco \
                        and f.pos_params and name == f.pos_params[0]:
                    is_cls = "classmethod" in f.deco or f.node.name in ("__new__", "__init_subclass__",
                                                                         "__class_getitem__")
                    return [("cls" if is_cls else "self", f.cls)]
                return [("unk",)]
            if name in f.local_imports:
                out = []
                for b in f.local_imports[name]:
                    out += self.resolve_binding(b, ctx, depth)
                return out
            if name in f.assigns:
                vals = f.assigns[name]
                key = (id(f), name)
                if any(v is None for v in vals) or depth > 6 or key in self.resolving:
                    return [("unk",)]
                self.resolving.add(key)
                try:
                    out = []
                    for v in vals:
                        out += self.resolve(v, Ctx(f, None), depth + 1)
                finally:
                    self.resolving.discard(key)
                return out
            f = f.parent
        if ctx.cls is not None and name in ctx.cls.members:
            out = []
            for b in ctx.cls.members[name]:
                out += self.resolve_binding(b, ctx, depth)
            return out
        m = ctx.func.module
        if name in m.bind:
            out = []
            for b in m.bind[name]:
                out += self.resolve_binding(b, Ctx(m.body, None), depth)
            return out
        return [("ext", f"builtins.{name}")]

    def resolve(self, e, ctx, depth=0, strip_subscript=False):
        if isinstance(e, ast.Name):
            return dedupe(self.resolve_name(e.id, ctx, depth))
        if isinstance(e, ast.Attribute):
            out = []
            for b in self.resolve(e.value, ctx, depth, strip_subscript):
                out += self.attr_of(b, e.attr, ctx, depth)
            return dedupe(out)
        if isinstance(e, ast.Constant):
            return [("data",)]
        if isinstance(e, (ast.List, ast.Tuple, ast.Dict, ast.Set, ast.JoinedStr, ast.ListComp, ast.DictComp,
                          ast.SetComp, ast.GeneratorExp, ast.Compare, ast.BinOp, ast.UnaryOp)):
            return [("data",)] if not isinstance(e, (ast.BinOp, ast.UnaryOp)) else [("unk",)]
        if isinstance(e, ast.Lambda):
            return [("func", self.lambda_of[id(e)])]
        if isinstance(e, ast.Subscript) and (strip_subscript or self.strip):
            return self.resolve(e.value, ctx, depth, strip_subscript)
        if isinstance(e, ast.Call):
            if isinstance(e.func, ast.Name) and e.func.id == "super" and \
                    self.resolve_name("super", ctx, depth) == [("ext", "builtins.super")]:
                f = ctx.func
                while f is not None and f.cls is None:
                    f = f.parent
                if f is not None:
                    return [("super", f.cls)]
            return [("unk",)]
        if isinstance(e, ast.IfExp):
            return dedupe(self.resolve(e.body, ctx, depth) + self.resolve(e.orelse, ctx, depth))
        if isinstance(e, ast.BoolOp):
            out = []
            for v in e.values:
                out += self.resolve(v, ctx, depth)
            return dedupe(out)
        if isinstance(e, ast.NamedExpr):
            return self.resolve(e.value, ctx, depth)
        return [("unk",)]

    def attr_of(self, base, attr, ctx, depth):
        k = base[0]
        if k == "imod":
            m = base[1]
            sub = f"{m.name}.{attr}"
            if sub in self.modules:
                return [("imod", self.modules[sub])]
            if attr in m.bind:
                out = []
                for b in m.bind[attr]:
                    out += self.resolve_binding(b, Ctx(m.body, None), depth + 1)
                return out
            return [("oos", sub)]
        if k in ("xmod", "ext"):
            return [("ext", f"{base[1]}.{attr}")]
        if k == "oos":
            return [("oos", f"{base[1]}.{attr}")]
        if k == "class":
            c = base[1]
            found = self.members([c] + self.ancestors(c), attr)
            for mc in c.meta:
                found += self.members([mc] + self.ancestors(mc), attr)
            if found:
                return found
            if attr in ("__name__", "__qualname__", "__module__", "__doc__", "__dict__", "__mro__", "__bases__"):
                return [("data",)]
            if self.ext_bases(c):
                return [("extmethod", attr)]
            return [("byname", attr)]
        if k in ("self", "cls"):
            c = base[1]
            if attr == "__class__":
                return [("cls", c)]
            ks = [c] + self.ancestors(c)
            for d in self.descendants(c):
                for x in [d] + self.ancestors(d):
                    if x not in ks:
                        ks.append(x)
            found = self.members(ks, attr)
            found += [("func", g) for g in self.global_attrs.get(attr, [])]
            if any(t[0] == "func" for t in found):
                # instance data of the same name may shadow: keep the by-name fallback out, methods win
                return found
            return [("byname", attr)]
        if k == "super":
            c = base[1]
            found = [t for t in self.members(self.ancestors(c), attr) if t[0] == "func"]
            if found:
                return found
            ext = [b for b in self.ext_bases(c)]
            if any(b is None for b in ext):
                return [("ext", f"<unresolved-base-class>.{attr}")]
            if ext:
                return [("ext", f"{ext[0]}.{attr}")]
            return [("ext", f"object.{attr}")]
        if k == "func":
            return [("data",)]
        return [("byname", attr)]

    def by_name(self, attr):
        out = []
        for c in self.classes:
            out += [t for t in self.members([c], attr) if t[0] == "func"]
        out += [("func", g) for g in self.global_attrs.get(attr, [])]
        return dedupe(out)

    # ------------------------------------------------------------------ edges
    def node_name(self, f):
        return f.qual

    def edge(self, src, dst):
        self.edges.setdefault(src, set()).add(dst)
        self.edges.setdefault(dst, set())

    def leaf(self, name, eff):
        old = self.leaf_eff.get(name)
        if old is not None and old != eff:
            eff = max(old, eff, key=CLASSES.index)
        self.leaf_eff[name] = eff
        self.edges.setdefault(name, set())
        return name

    def ext_leaf(self, dotted):
        return self.leaf(f"ext:{dotted}", classify_ext(dotted))

    def unk(self, f):
        """the computed-callee node of the module body f belongs to"""
        sh = self.short(f.module)
        n = f"<unknown-callee:{sh}>"
        if sh not in self.unknown_nodes:
            self.unknown_nodes[sh] = n
            self.edges.setdefault(n, set())
        return n

    def escape(self, name, f):
        self.escaped.add(name)
        self.escaped_in.setdefault(name, set()).add(self.short(f.module))

    @staticmethod
    def computed_codec(name, node):
        """`x.encode(enc)` / `x.decode(enc)` with a codec name that is not a string literal: the codec
        lookup imports `encodings.<name>` and calls every registered codec search function with it"""
        if name not in ("encode", "decode") or not isinstance(node, ast.Call):
            return False
        enc = node.args[0] if node.args else next((k.value for k in node.keywords if k.arg == "encoding"), None)
        if any(isinstance(a, ast.Starred) for a in node.args) or any(k.arg is None for k in node.keywords):
            return True
        return enc is not None and not (isinstance(enc, ast.Constant) and isinstance(enc.value, str))

    @staticmethod
    def computed_template(name, node, f):
        """`t.format(...)` / `t.format_map(...)` where the template t is not a constant of the program: the
        replacement fields of a template taken from data walk attribute and index paths of the arguments
        (`{0.__init__.__globals__[sys]...}`), i.e. resolve names the data chose.  Constant templates are
        string literals, UPPER_CASE module / class constants, and locals only ever assigned from those."""
        if name not in ("format", "format_map") or not isinstance(node, ast.Call) \
                or not isinstance(node.func, ast.Attribute):
            return False

        def const(e, depth=0):
            if isinstance(e, ast.JoinedStr) or (isinstance(e, ast.Constant) and isinstance(e.value, str)):
                return True
            if isinstance(e, ast.BinOp) and isinstance(e.op, ast.Add):
                return const(e.left, depth) and const(e.right, depth)
            if isinstance(e, ast.IfExp):
                return const(e.body, depth) and const(e.orelse, depth)
            last = e.attr if isinstance(e, ast.Attribute) else e.id if isinstance(e, ast.Name) else None
            if last is None:
                return False
            if last.upper() == last and any(c.isalpha() for c in last):
                return True
            if isinstance(e, ast.Name) and depth < 3 and getattr(f, "node", None) is not None \
                    and not isinstance(f.node, ast.Lambda):
                vals = []
                for n in ast.walk(f.node):
                    if isinstance(n, ast.Assign) and any(isinstance(t, ast.Name) and t.id == e.id for t in n.targets):
                        vals.append(n.value)
                    elif isinstance(n, ast.AnnAssign) and isinstance(n.target, ast.Name) and n.target.id == e.id \
                            and n.value is not None:
                        vals.append(n.value)
                    elif isinstance(n, (ast.For, ast.comprehension)) and any(
                            isinstance(t, ast.Name) and t.id == e.id for t in ast.walk(n.target)):
                        return False
                    elif isinstance(n, ast.arg) and n.arg == e.id:
                        return False
                return bool(vals) and all(const(v, depth + 1) for v in vals)
            return False

        return not const(node.func.value)

    def use(self, f, targets, call, node=None):
        """edges from body f for a resolved reference; call=True for call position"""
        src = f.qual
        for t in targets:
            k = t[0]
            if k == "func":
                self.edge(src, t[1].qual)
                if not call:
                    self.escape(t[1].qual, f)
                elif node is not None:
                    self.callsites.setdefault(t[1], []).append((f, node, t))
            elif k in ("class", "cls"):
                for ct in self.ctor_targets(t[1], down=(k == "cls")):
                    if ct[0] == "func":
                        self.edge(src, ct[1].qual)
                        if call and node is not None:
                            self.callsites.setdefault(ct[1], []).append((f, node, ("ctor",)))
                    else:
                        self.edge(src, self.ext_leaf(ct[1]))
            elif k == "ext":
                self.edge(src, self.ext_leaf(t[1]))
                if not call:
                    self.escape(f"ext:{t[1]}", f)
            elif k == "xmod":
                self.edge(src, self.leaf(f"module-object:{t[1]}", EFFECTFUL if not call else EFFECTFUL))
            elif k == "imod":
                if call:
                    self.edge(src, self.unk(f))
            elif k == "oos":
                m = self.oos_class(t[1])
                self.edge(src, self.leaf(f"out-of-scope:{t[1]}", m))
            elif k == "extmethod":
                self.edge(src, self.leaf(f"method:{t[1]}", classify_method(t[1])))
                if call and self.computed_codec(t[1], node):
                    self.edge(src, self.leaf(f"method:{t[1]}-with-computed-codec-name", EFFECTFUL))
                if call and self.computed_template(t[1], node, f):
                    self.edge(src, self.leaf(f"method:{t[1]}-of-a-computed-template", EFFECTFUL))
            elif k == "byname":
                internal = self.by_name(t[1])
                for it in internal:
                    self.edge(src, it[1].qual)
                    if not call:
                        self.escape(it[1].qual, f)
                    elif node is not None:
                        self.callsites.setdefault(it[1], []).append((f, node, t))
                if call:
                    if t[1] in METHODS or not internal:
                        self.edge(src, self.leaf(f"method:{t[1]}", classify_method(t[1])))
                    if self.computed_codec(t[1], node):
                        self.edge(src, self.leaf(f"method:{t[1]}-with-computed-codec-name", EFFECTFUL))
                    if self.computed_template(t[1], node, f):
                        self.edge(src, self.leaf(f"method:{t[1]}-of-a-computed-template", EFFECTFUL))
                elif METHODS.get(t[1]) == EFFECTFUL:
                    self.edge(src, self.leaf(f"method:{t[1]}", EFFECTFUL))
            elif k in ("self", "super", "data", "unk"):
                if call:
                    self.edge(src, self.unk(f))
            else:
                raise Fail(f"target {t!r}")

    def oos_class(self, dotted):
        """an internal name outside the scope: data constants are Pure, anything else Effectful"""
        parts = dotted.split(".")
        for i in range(len(parts) - 1, 0, -1):
            mn = ".".join(parts[:i])
            if mn in self.modules:
                m, rest = self.modules[mn], parts[i:]
                if len(rest) == 1 and rest[0] in m.bind:
                    bs = m.bind[rest[0]]
                    if all(b[0] == "expr" and isinstance(b[1], ast.Constant) for b in bs):
                        return PURE
                return EFFECTFUL
        return EFFECTFUL

    def walk_body(self, f):
        ctx = Ctx(f, None)
        if f.kind == "module":
            self.walk_stmts(f, f.node.body, ctx)
        elif f.kind == "lambda":
            a = f.node.args
            for d in list(a.defaults) + [d for d in a.kw_defaults if d is not None]:
                pass  # evaluated in the enclosing body (visited there)
            self.visit(f, f.node.body, ctx)
        else:
            self.walk_stmts(f, f.node.body, ctx)
            for d in f.node.decorator_list:
                self.decorator(f, d, Ctx(f.parent or f.module.body, f.cls))
        self.edge(f.qual, "<implicit>")

    def decorator(self, f, d, ctx):
        ts = self.resolve(d.func if isinstance(d, ast.Call) else d, ctx)
        ok = all((t[0] == "ext" and t[1] in PURE_DECORATORS) or t[0] == "data" for t in ts)
        if not ok:
            self.use(f, ts, call=True)
            self.edge(f.qual, self.unk(f))

    def assume(self, f):
        return ENTRY_ASSUME.get(f.qual)

    def walk_stmts(self, f, stmts, ctx):
        for s in stmts:
            self.walk_stmt(f, s, ctx)

    def walk_stmt(self, f, s, ctx):
        if isinstance(s, ast.If) and version_test(s.test) is not None:
            self.visit(f, s.test, ctx)
            self.walk_stmts(f, s.body if version_test(s.test) else s.orelse, ctx)
            return
        if isinstance(s, ast.If) and self.assume(f) is not None:
            v = peval(s.test, self.assume(f))
            self.visit(f, s.test, ctx)
            if v is True:
                if s.orelse:
                    self.pruned.append(f"{f.qual}: else-branch of line {s.lineno} (assumed {self.assume(f)})")
                self.walk_stmts(f, s.body, ctx)
                return
            if v is False:
                self.pruned.append(f"{f.qual}: then-branch of line {s.lineno} (assumed {self.assume(f)})")
                self.walk_stmts(f, s.orelse, ctx)
                return
            self.walk_stmts(f, s.body, ctx)
            self.walk_stmts(f, s.orelse, ctx)
            return
        if isinstance(s, (ast.FunctionDef, ast.AsyncFunctionDef)):
            g = self.func_of.get(id(s))
            for d in s.decorator_list:
                self.visit(f, d, ctx)
            for d in list(s.args.defaults) + [d for d in s.args.kw_defaults if d is not None]:
                self.visit(f, d, ctx)
            if g is not None and f.kind != "module":
                self.edge(f.qual, g.qual)       # a nested function is a value of its definer
                self.escape(g.qual, f)
            return
        if isinstance(s, ast.ClassDef):
            cs = [c for c in self.classes if c.node is s]
            if not cs:
                return  # out of scope
            c = cs[0]
            for b in s.bases:
                self.visit(f, b, ctx)
            for kw in s.keywords:
                self.visit(f, kw.value, ctx)
            for d in s.decorator_list:
                self.visit(f, d, ctx)
                self.use(f, self.resolve(d, ctx), call=True)
            # class creation calls every __init_subclass__ above it and the metaclass
            for t in self.members(self.ancestors(c), "__init_subclass__"):
                self.use(f, [t], call=True)
            for mc in c.meta:
                for n in CTOR:
                    for t in self.members([mc] + self.ancestors(mc), n):
                        self.use(f, [t], call=True)
            for b in self.ext_bases(c):
                self.edge(f.qual, self.ext_leaf(f"{b}.__init_subclass__" if b else "<unresolved-base-class>"))
            self.walk_stmts(f, s.body, Ctx(f, c))
            return
        if isinstance(s, (ast.Import, ast.ImportFrom)):
            if f.kind != "module":
                self.local_import(f, s)
            return
        # generic: visit expressions of this statement, recurse into blocks
        for field, val in ast.iter_fields(s):
            if isinstance(val, list):
                if val and isinstance(val[0], ast.stmt):
                    self.walk_stmts(f, val, ctx)
                else:
                    for x in val:
                        if isinstance(x, ast.excepthandler):
                            if x.type is not None:
                                self.visit(f, x.type, ctx)
                            self.walk_stmts(f, x.body, ctx)
                        elif isinstance(x, ast.AST):
                            if x.__class__.__name__ == "match_case":
                                self.visit(f, x.pattern, ctx)
                                if x.guard is not None:
                                    self.visit(f, x.guard, ctx)
                                self.walk_stmts(f, x.body, ctx)
                            else:
                                self.visit(f, x, ctx)
            elif isinstance(val, ast.AST):
                if field == "annotation" or (field == "returns"):
                    continue
                self.visit(f, val, ctx)

    def local_import(self, f, s):
        """an import statement inside a function body: loads fixed code"""
        if isinstance(s, ast.Import):
            names = [a.name for a in s.names]
        else:
            names = [s.module or "."]
        for n in names:
            if n == PKG or n.startswith(PKG + ".") or (isinstance(s, ast.ImportFrom) and s.level):
                tgt = None
                for m in self.modules.values():
                    if m.name == n and m.in_scope:
                        tgt = m
                if tgt is not None:
                    self.edge(f.qual, tgt.body.qual)
                else:
                    self.edge(f.qual, self.leaf(f"import:{n}", EFFECTFUL))
            else:
                top = n.split(".")[0]
                eff = READFIXED if top in sys.stdlib_module_names or top == "stdlib_list" else EFFECTFUL
                self.edge(f.qual, self.leaf(f"import:{n}", eff))

    def visit(self, f, e, ctx):
        """an expression evaluated in body f"""
        if e is None:
            return
        if isinstance(e, ast.Call):
            self.visit_call(f, e, ctx)
            return
        if isinstance(e, ast.Lambda):
            g = self.lambda_of[id(e)]
            self.edge(f.qual, g.qual)
            self.escape(g.qual, f)
            for d in list(e.args.defaults) + [d for d in e.args.kw_defaults if d is not None]:
                self.visit(f, d, ctx)
            return
        if isinstance(e, (ast.Name, ast.Attribute)):
            self.visit_ref(f, e, ctx, call=False)
            return
        if isinstance(e, (ast.ListComp, ast.SetComp, ast.GeneratorExp, ast.DictComp)):
            for g in e.generators:
                self.visit(f, g.iter, ctx)
                for c in g.ifs:
                    self.visit(f, c, ctx)
            if isinstance(e, ast.DictComp):
                self.visit(f, e.key, ctx)
                self.visit(f, e.value, ctx)
            else:
                self.visit(f, e.elt, ctx)
            return
        for c in ast.iter_child_nodes(e):
            if isinstance(c, (ast.expr_context, ast.operator, ast.unaryop, ast.boolop, ast.cmpop)):
                continue
            if isinstance(c, ast.comprehension):
                self.visit(f, c.iter, ctx)
                for i in c.ifs:
                    self.visit(f, i, ctx)
                continue
            if isinstance(c, ast.keyword):
                self.visit(f, c.value, ctx)
                continue
            if isinstance(c, ast.arguments):
                continue
            self.visit(f, c, ctx)

    def visit_ref(self, f, e, ctx, call, node=None):
        """a Name / Attribute chain in Load, Store or Del context"""
        if isinstance(e, ast.Name):
            if isinstance(e.ctx, ast.Load):
                self.use(f, self.resolve(e, ctx), call, node)
            return
        ts = self.resolve(e, ctx)
        static = all(t[0] in ("func", "class", "imod", "xmod", "ext", "oos", "data") for t in ts) and \
            self.is_static_chain(e.value, ctx)
        if not isinstance(e.ctx, ast.Load):
            # attribute store / delete: property setters of that name (by name), receiver is evaluated
            ts = [t for t in ts if t[0] in ("func", "byname")]
            self.use(f, ts, call=False)
            if ts and all(t[0] == "byname" for t in ts) and not self.by_name(e.attr):
                pass
            self.visit(f, e.value, ctx)
            return
        self.use(f, ts, call, node)
        if not static:
            self.visit(f, e.value, ctx)

    def is_static_chain(self, e, ctx):
        """the receiver is a module / class / external dotted name: nothing is evaluated by naming it"""
        ts = self.resolve(e, ctx)
        return bool(ts) and all(t[0] in ("imod", "xmod", "ext", "oos", "class") for t in ts) and \
            isinstance(e, (ast.Name, ast.Attribute))

    def visit_call(self, f, e, ctx):
        fn = e.func
        for a in e.args:
            self.visit(f, a.value if isinstance(a, ast.Starred) else a, ctx)
        for k in e.keywords:
            self.visit(f, k.value, ctx)
        if isinstance(fn, (ast.Name, ast.Attribute)):
            ts = self.resolve(fn, ctx)
            special = [t for t in ts if t[0] == "ext" and t[1] in SPECIAL]
            if special:
                rest = [t for t in ts if t not in special]
                for t in special:
                    SPECIAL[t[1]](self, f, e, ctx)
                if rest:
                    self.use(f, rest, call=True, node=e)
                return
            # evaluate the receiver
            if isinstance(fn, ast.Attribute):
                self.use(f, ts, call=True, node=e)
                if not self.is_static_chain(fn.value, ctx):
                    self.visit(f, fn.value, ctx)
            else:
                self.use(f, ts, call=True, node=e)
            return
        if isinstance(fn, ast.Lambda):
            self.edge(f.qual, self.lambda_of[id(fn)].qual)
            return
        # computed callee
        self.visit(f, fn, ctx)
        self.edge(f.qual, self.unk(f))

    # ---- argument-dependent builtins ----
    def sp_attr(self, which):
        def h(self, f, e, ctx):
            lit = len(e.args) >= 2 and isinstance(e.args[1], ast.Constant) and isinstance(e.args[1].value, str) \
                and not any(isinstance(a, ast.Starred) for a in e.args)
            if not lit:
                self.edge(f.qual, self.leaf(f"dyn:{which}-computed-name", EFFECTFUL))
                return
            self.edge(f.qual, self.leaf(f"ext:builtins.{which}", PURE))
            name = e.args[1].value
            if which == "setattr" and len(e.args) == 3:
                self.bind_attr(f, e.args[0], name, e.args[2], ctx)
            if which == "getattr":
                # a literal getattr is an attribute access
                fake = ast.Attribute(value=e.args[0], attr=name, ctx=ast.Load())
                ast.copy_location(fake, e)
                self.use(f, self.resolve(fake, ctx), call=False)
        return h

    def bind_attr(self, f, obj, name, value, ctx):
        """obj.name = value  /  setattr(obj, "name", value): remember functions bound that way"""
        vs = [t for t in self.resolve(value, ctx) if t[0] == "func"]
        if not vs:
            return
        os_ = self.resolve(obj, ctx)
        for v in vs:
            placed = False
            for o in os_:
                if o[0] in ("cls", "class"):
                    o[1].members.setdefault(name, []).append(("func", v[1]))
                    placed = True
            if not placed:
                self.global_attrs.setdefault(name, []).append(v[1])

    def sp_open(self, f, e, ctx):
        self.open_calls.append((f, e))

    # ------------------------------------------------------------------ open() classification
    def classify_open(self, f, e):
        if any(isinstance(a, ast.Starred) for a in e.args) or any(k.arg is None for k in e.keywords):
            return "open:computed-arguments", EFFECTFUL
        path = e.args[0] if e.args else next((k.value for k in e.keywords if k.arg == "file"), None)
        mode = e.args[1] if len(e.args) > 1 else next((k.value for k in e.keywords if k.arg == "mode"), None)
        if path is None:
            return "open:no-path", EFFECTFUL
        if mode is None:
            m = "r"
        elif isinstance(mode, ast.Constant) and isinstance(mode.value, str):
            m = mode.value
        else:
            return "open:computed-mode", EFFECTFUL
        writing = any(c in m for c in "wax+")
        kind = self.user_path(path, f, set())
        if kind == "user":
            return ("open:write-user-named-path", WRITEUSER) if writing else ("open:read-user-named-path", READINPUT)
        if kind == "lit" and not writing:
            return "open:read-literal-path", READFIXED
        if kind == "lit":
            return "open:write-literal-path", EFFECTFUL
        return ("open:write-computed-path" if writing else "open:read-computed-path"), EFFECTFUL

    def user_path(self, x, f, seen):
        """'user' = named by the caller (API parameter / parsed CLI argument), 'lit' = literal, None = computed"""
        if isinstance(x, ast.Constant) and isinstance(x.value, str):
            return "lit"
        if isinstance(x, ast.Name):
            g = f
            while g is not None and g.kind != "module":
                if x.id in g.params:
                    return self.param_ok(g, x.id, seen)
                if x.id in g.assigns:
                    vals = g.assigns[x.id]
                    if any(v is None for v in vals):
                        return None
                    return combine([self.user_path(v, g, seen) for v in vals])
                g = g.parent
            bs = f.module.bind.get(x.id, [])
            if bs and all(b[0] == "expr" and isinstance(b[1], ast.Constant) and isinstance(b[1].value, str) for b in bs):
                return "lit"
            return None
        if isinstance(x, ast.Attribute) and isinstance(x.value, ast.Name):
            return "user" if self.is_cli_namespace(x.value, f, seen) else None
        if isinstance(x, ast.BoolOp):
            return combine([self.user_path(v, f, seen) for v in x.values])
        if isinstance(x, ast.IfExp):
            return combine([self.user_path(x.body, f, seen), self.user_path(x.orelse, f, seen)])
        return None

    def is_cli_namespace(self, x, f, seen):
        """does the Name x denote the result of ArgumentParser.parse_args()?  Either it is assigned only
        from parse_args() calls in an enclosing function, or it is a parameter to which every call site
        passes such a namespace (a helper that main() hands its parsed arguments to)."""
        g = f
        while g is not None and g.kind != "module":
            if x.id in g.params:
                key = (g.qual, x.id, "ns")
                if key in seen:
                    return True
                if g.qual in self.escaped or g.kind == "lambda":
                    return False
                sites = self.callsites.get(g, [])
                if not sites:
                    return False
                for caller, call, how in sites:
                    if any(isinstance(a, ast.Starred) for a in call.args) or any(k.arg is None for k in call.keywords):
                        return False
                    arg = next((k.value for k in call.keywords if k.arg == x.id), None)
                    if arg is None:
                        pos = list(g.pos_params)
                        if g.cls is not None and "staticmethod" not in g.deco:
                            pos = pos[1:]
                        if x.id in pos and pos.index(x.id) < len(call.args):
                            arg = call.args[pos.index(x.id)]
                    if not isinstance(arg, ast.Name) or not self.is_cli_namespace(arg, caller, seen | {key}):
                        return False
                return True
            if x.id in g.assigns:
                vals = g.assigns[x.id]
                return bool(vals) and all(
                    isinstance(v, ast.Call) and isinstance(v.func, ast.Attribute) and
                    v.func.attr in ("parse_args", "parse_known_args") for v in vals)
            g = g.parent
        return False

    def param_ok(self, g, name, seen):
        if (g.qual, name) in seen:
            return "user"
        seen = seen | {(g.qual, name)}
        if g.qual in self.escaped or g.kind == "lambda":
            return None
        res = ["user"]
        for caller, call, how in self.callsites.get(g, []):
            if any(isinstance(a, ast.Starred) for a in call.args) or any(k.arg is None for k in call.keywords):
                return None
            arg = next((k.value for k in call.keywords if k.arg == name), None)
            if arg is None:
                pos = list(g.pos_params)
                if g.cls is not None and "staticmethod" not in g.deco:
                    if how[0] == "class" or (how[0] == "func" and isinstance(call.func, ast.Attribute) and
                                            "classmethod" not in g.deco and
                                            any(t[0] == "class" for t in self.resolve(call.func.value, Ctx(caller, None)))):
                        return None  # unbound call through the class: alignment unknown
                    pos = pos[1:]
                if name in pos and pos.index(name) < len(call.args):
                    arg = call.args[pos.index(name)]
            if arg is None:
                d = g.defaults.get(name)
                if d is None or not isinstance(d, ast.Constant):
                    return None
                res.append("lit")
                continue
            res.append(self.user_path(arg, caller, seen))
        return combine(res)

    # ------------------------------------------------------------------ build
    def build(self):
        self.load()
        self.setup_toplevel_lambdas()
        # pass 1: attribute bindings (setattr / x.m = f) must be known before by-name resolution
        for f in list(self.funcs):
            body = f.node.body if f.kind != "lambda" else [f.node.body]
            for n in own_nodes(body if isinstance(body, list) else [body]):
                if isinstance(n, ast.Assign):
                    for t in n.targets:
                        if isinstance(t, ast.Attribute):
                            self.bind_attr(f, t.value, t.attr, n.value, Ctx(f, None))
                elif isinstance(n, ast.Call) and isinstance(n.func, ast.Name) and n.func.id == "setattr" \
                        and len(n.args) == 3 and isinstance(n.args[1], ast.Constant) and isinstance(n.args[1].value, str):
                    self.bind_attr(f, n.args[0], n.args[1].value, n.args[2], Ctx(f, None))
        self.edges["<implicit>"] = set()
        for f in self.funcs:
            self.edges.setdefault(f.qual, set())
        for f in self.funcs:
            self.walk_body(f)
        # <implicit>: dunder methods + callbacks from external base classes
        for c in self.classes:
            ext = self.ext_bases(c)
            unknown_base = any(b is None or b not in CALLBACK_BASES and f"builtins.{b}" not in CALLBACK_BASES
                               for b in ext)
            preds = [CALLBACK_BASES.get(b) or CALLBACK_BASES.get(f"builtins.{b}") for b in ext if b]
            for name in c.members:
                for t in self.members([c], name):
                    if t[0] != "func":
                        continue
                    dunder = name.startswith("__") and name.endswith("__") and name not in NOT_IMPLICIT
                    if dunder or unknown_base or any(p(name) for p in preds if p):
                        self.edge("<implicit>", t[1].qual)
        # <unknown-callee:M> (a call in module M whose callee is a computed value): every constructor
        # (class objects are registered across modules, e.g. Analysis.ALL, OPCODES_BY_NAME), and every
        # callable that became a VALUE in a module whose values can reach M: M itself, the modules M
        # (transitively) imports, and the importers of M that hand a callable to one of M's functions as
        # a call argument.  (A lambda kept in a table of an unrelated module cannot be what M calls.)
        if any(n not in self.escaped_in for n in self.escaped):
            raise Fail("escaped callable without a recorded site")
        imports = self.module_imports()
        passers = self.callable_passers()
        for sh, node in sorted(self.unknown_nodes.items()):
            vis = {sh} | self.closure(imports, sh)
            vis |= {n for n in passers.get(sh, set())}
            for c in self.classes:
                for ct in self.ctor_targets(c):
                    self.edge(node, ct[1].qual if ct[0] == "func" else self.ext_leaf(ct[1]))
            for n in sorted(self.escaped):
                if self.escaped_in[n] & vis:
                    self.edge(node, n)
        # open() needs the finished call-site index
        for f, e in self.open_calls:
            name, eff = self.classify_open(f, e)
            self.edge(f.qual, self.leaf(name, eff))
        # a synthetic NON-entry body that evaluates its input: shows the checker can say "no"
        self.edge(SENTINEL, self.ext_leaf("builtins.eval"))

    def module_imports(self):
        """short name -> set of short names of fickling modules it imports (anywhere in the file)"""
        out = {}
        names = {m.name: self.short(m) for m in self.modules.values()}
        for m in self.modules.values():
            acc = set()
            for n in ast.walk(m.tree):
                if isinstance(n, ast.Import):
                    for a in n.names:
                        if a.name in names:
                            acc.add(names[a.name])
                        elif a.name == PKG:
                            acc.add("__init__")
                elif isinstance(n, ast.ImportFrom):
                    base = n.module or ""
                    if n.level:
                        pkg = m.name.split(".")
                        if not m.path.endswith("__init__.py"):
                            pkg = pkg[:-1]
                        pkg = pkg[:len(pkg) - (n.level - 1)]
                        base = ".".join(pkg + ([n.module] if n.module else []))
                    if base in names:
                        acc.add(names[base])
                    for a in n.names:
                        if f"{base}.{a.name}" in names:
                            acc.add(names[f"{base}.{a.name}"])
            out[self.short(m)] = acc - {self.short(m)}
        return out

    @staticmethod
    def closure(rel, start):
        seen, todo = set(), [start]
        while todo:
            x = todo.pop()
            for y in rel.get(x, ()):
                if y not in seen:
                    seen.add(y)
                    todo.append(y)
        return seen

    def callable_passers(self):
        """module M -> modules N != M containing a call to a function of M with an argument that is (or
        may evaluate to) a callable: a lambda, or a reference resolving to a function / class / external"""
        out = {}
        for g, sites in self.callsites.items():
            M = self.short(g.module)
            for caller, call, how in sites:
                N = self.short(caller.module)
                if N == M:
                    continue
                args = list(call.args) + [k.value for k in call.keywords]
                for a in args:
                    if isinstance(a, ast.Starred):
                        a = a.value
                    hit = isinstance(a, ast.Lambda)
                    if not hit and isinstance(a, (ast.Name, ast.Attribute)):
                        try:
                            ts = self.resolve(a, Ctx(caller, None))
                        except Fail:
                            ts = [("unk",)]
                        hit = any(t[0] in ("func", "class", "cls", "ext") for t in ts)
                    if hit:
                        out.setdefault(M, set()).add(N)
        return out

    def entry_nodes(self):
        quals = {f.qual: f for f in self.funcs}
        out = []
        for ep in ENTRY_POINTS:
            if ep.endswith(".*"):
                cq = ep[:-2]
                cs = [c for c in self.classes if c.qual == cq]
                if not cs:
                    raise Fail(f"entry point class {cq} not found")
                got = [f.qual for f in self.funcs if f.cls is cs[0]]
                if not got:
                    raise Fail(f"entry point class {cq} has no methods")
                out += got
            else:
                got = [q for q in quals if q == ep or q.startswith(ep + "#")]
                if not got:
                    raise Fail(f"entry point {ep} not found")
                out += got
        return sorted(set(out))


class Ctx:
    def __init__(self, func, cls):
        self.func, self.cls = func, cls


def dedupe(ts):
    out = []
    for t in ts:
        if t not in out:
            out.append(t)
    return out


def combine(rs):
    if any(r is None for r in rs) or not rs:
        return None
    return "user" if "user" in rs else "lit"


def peval(t, assume):
    """partial evaluation of an `if` test under `<anything>.<option> = value` assumptions"""
    if isinstance(t, ast.Attribute) and t.attr in assume:
        return bool(assume[t.attr])
    if isinstance(t, ast.Compare) and len(t.ops) == 1 and isinstance(t.left, ast.Attribute) \
            and t.left.attr in assume and isinstance(t.comparators[0], ast.Constant):
        a, b = assume[t.left.attr], t.comparators[0].value
        if isinstance(t.ops[0], ast.Is):
            return a is b
        if isinstance(t.ops[0], ast.IsNot):
            return a is not b
        if isinstance(t.ops[0], ast.Eq):
            return a == b
        if isinstance(t.ops[0], ast.NotEq):
            return a != b
        return None
    if isinstance(t, ast.UnaryOp) and isinstance(t.op, ast.Not):
        v = peval(t.operand, assume)
        return None if v is None else (not v)
    if isinstance(t, ast.BoolOp):
        vs = [peval(v, assume) for v in t.values]
        if isinstance(t.op, ast.And):
            if any(v is False for v in vs):
                return False
            return True if all(v is True for v in vs) else None
        if any(v is True for v in vs):
            return True
        return False if all(v is False for v in vs) else None
    return None


_X = Extractor
SPECIAL = {
    "builtins.getattr": _X.sp_attr(None, "getattr"),
    "builtins.setattr": _X.sp_attr(None, "setattr"),
    "builtins.hasattr": _X.sp_attr(None, "hasattr"),
    "builtins.delattr": _X.sp_attr(None, "delattr"),
    "builtins.open": _X.sp_open,
    "io.open": _X.sp_open,
}


# ---------------------------------------------------------------------- output
def coq_str(s):
    out = []
    for ch in s:
        if ch == '"':
            out.append('""')
        elif 32 <= ord(ch) < 127:
            out.append(ch)
        else:
            out.append("?")
    return '"' + "".join(out) + '"'


def emit(x):
    names = sorted(x.edges)
    # stable ids: bodies first, then pseudo nodes, then leaves (all sorted by name)
    bodies = sorted(f.qual for f in x.funcs)
    pseudo = ["<implicit>"] + sorted(x.unknown_nodes.values()) + [SENTINEL]
    leaves = sorted(n for n in names if n not in set(bodies) and n not in pseudo)
    for n in leaves:
        if n not in x.leaf_eff:
            raise Fail(f"leaf without effect class: {n}")
    order = bodies + pseudo + leaves
    idx = {n: i for i, n in enumerate(order)}
    if len(idx) != len(order):
        raise Fail("duplicate node names")
    eff = {n: x.leaf_eff.get(n, PURE) for n in order}
    entries = x.entry_nodes()
    lines = ["(* GENERATED by /verif/gen/gen_callgraph.py from the live /repo sources. DO NOT EDIT. *)",
             "From Coq Require Import List String.", "From Verif Require Import Effects.",
             "Import ListNotations.", "Open Scope string_scope.", "",
             "(* node id = position; successors by id *)",
             "Definition g : graph :="]
    rows = ["[" + "; ".join(str(idx[d]) for d in sorted(x.edges[n], key=idx.get)) + "]" for n in order]
    lines.append("  [" + ";\n   ".join(rows) + "].\n")
    lines.append("Definition effects : list eff :=")
    lines.append("  [" + ";\n   ".join(eff[n] for n in order) + "].\n")
    lines.append("Definition node_names : list string :=")
    lines.append("  [" + ";\n   ".join(coq_str(n) for n in order) + "].\n")
    lines.append("Definition entry_points : list nat :=")
    lines.append("  [" + "; ".join(str(idx[e]) for e in entries) + "].\n")
    lines.append("Definition n_bodies : nat := %d." % len(bodies))
    lines.append("Definition sentinel : nat := %d." % idx[SENTINEL])
    text = "\n".join(lines) + "\n"
    return text, order, idx, eff, entries


def reach(edges, start):
    parent = {s: None for s in start}
    todo = list(start)
    while todo:
        n = todo.pop(0)
        for d in sorted(edges.get(n, ())):
            if d not in parent:
                parent[d] = n
                todo.append(d)
    return parent


def path_to(parent, n):
    p = []
    while n is not None:
        p.append(n)
        n = parent[n]
    return p[::-1]


def main():
    summary = {}
    try:
        x = Extractor()
        x.build()
        text, order, idx, eff, entries = emit(x)
        os.makedirs(OUT, exist_ok=True)
        path = os.path.join(OUT, "CallGraph.v")
        old = open(path).read() if os.path.exists(path) else None
        if old != text:
            with open(path, "w") as fh:
                fh.write(text)
        parent = reach(x.edges, entries)
        bad = sorted(n for n in parent if eff[n] == EFFECTFUL)
        per_entry = {}
        for e in entries:
            p = reach(x.edges, [e])
            per_entry[e] = sorted({eff[n] for n in p}, key=CLASSES.index)
        bodies = {f.qual for f in x.funcs}
        summary = {
            "CallGraph": {"digest": hashlib.sha256(text.encode()).hexdigest()[:16]},
            "sources": {x.short(m): hashlib.sha256(m.src.encode()).hexdigest()[:16]
                        for m in x.modules.values() if m.in_scope},
            "nodes": len(order), "bodies": len(bodies), "leaves": len(order) - len(bodies) - 2 - len(x.unknown_nodes),
            "edges": sum(len(v) for v in x.edges.values()),
            "entry_points": entries,
            "reachable": len(parent), "reachable_bodies": len([n for n in parent if n in bodies]),
            "reachable_leaves": {n: eff[n] for n in sorted(parent) if n in x.leaf_eff},
            "effectful_in_graph": sorted(n for n in order if eff[n] == EFFECTFUL),
            "effectful_reaching_bodies": sorted(
                b for b in bodies if any(eff[n] == EFFECTFUL for n in reach(x.edges, [b]))),
            "python": ".".join(map(str, PYVER)),
            "effectful_reachable": [{"leaf": n, "path": path_to(parent, n)} for n in bad],
            "entry_effects": per_entry,
            "pruned_branches": x.pruned,
        }
        print(json.dumps(summary, indent=1))
        return 0
    except Fail as e:
        summary["CallGraph"] = {"error": f"extractor failed closed: {e}"}
    except Exception as e:  # any crash of the extractor is a failure to establish the claim
        import traceback
        summary["CallGraph"] = {"error": f"{type(e).__name__}: {e}", "trace": traceback.format_exc()[-1500:]}
    print(json.dumps(summary, indent=1))
    return 2


if __name__ == "__main__":
    sys.exit(main())
