print("{}")
