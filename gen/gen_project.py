#!/venv/bin/python
"""Write coq/_CoqProject listing gen/, model/ and proofs/ files (props/ are compiled per check)."""
import glob, os
root = os.path.normpath(os.path.join(os.path.dirname(os.path.abspath(__file__)), "..", "coq"))
lines = ["-Q gen Verif", "-Q model Verif", "-Q proofs Verif", "-Q props Verif", "-Q extract Verif"]
for d in ("gen", "model", "proofs"):
    lines += sorted(os.path.relpath(p, root) for p in glob.glob(os.path.join(root, d, "*.v")))
text = "\n".join(lines) + "\n"
path = os.path.join(root, "_CoqProject")
if not os.path.exists(path) or open(path).read() != text:
    open(path, "w").write(text)
