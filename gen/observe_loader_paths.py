#!/venv/bin/python
"""Observe, in THIS process (run it as a child), (1) which attributes of the pickle module the
safe ML environment replaces and (2) through which pickle-module attribute every unpickling goes
that a loader callable performs on a bare pickle / a legacy stacked PyTorch container / a zip
PyTorch container.  Prints one JSON object.  Used by gen_tables.py (LoaderPaths.v) -- nothing is
cached between runs.  All payloads are harmless (a one-element tensor, a list of ints)."""
import io
import json
import pickle
import sys
import _pickle

ATTRS = [("pickle", "load"), ("pickle", "loads"), ("_pickle", "load"), ("_pickle", "loads"),
         ("pickle", "Unpickler"), ("_pickle", "Unpickler"), ("pickle", "_Unpickler"),
         ("pickle", "_load"), ("pickle", "_loads")]
MODS = {"pickle": pickle, "_pickle": _pickle}


def hooked_attrs():
    import fickling.hook as hook
    before = {a: getattr(MODS[a[0]], a[1]) for a in ATTRS}
    hook.activate_safe_ml_environment()
    after = {a: getattr(MODS[a[0]], a[1]) for a in ATTRS}
    hook.deactivate_safe_ml_environment()
    restored = {a: getattr(MODS[a[0]], a[1]) for a in ATTRS}
    out = [f"{a[0]}.{a[1]}" for a in ATTRS if after[a] is not before[a]]
    not_restored = [f"{a[0]}.{a[1]}" for a in ATTRS if restored[a] is not before[a]]
    return out, not_restored


def main():
    hooked, not_restored = hooked_attrs()
    import torch
    import torch.storage
    t = torch.zeros(1)
    buf = io.BytesIO()
    torch.save(t, buf, _use_new_zipfile_serialization=False)
    legacy = buf.getvalue()
    buf = io.BytesIO()
    torch.save(t, buf)
    zipped = buf.getvalue()
    bare = pickle.dumps([1, 2, 3], protocol=2)
    payloads = {"bare": bare, "legacy": legacy, "zip": zipped}

    log = []

    def wrap(name, fn):
        def w(*a, **k):
            log.append(name)
            return fn(*a, **k)
        return w

    orig = {a: getattr(MODS[a[0]], a[1]) for a in ATTRS}
    for a in ATTRS[:4] + ATTRS[7:]:
        setattr(MODS[a[0]], a[1], wrap(f"{a[0]}.{a[1]}", orig[a]))

    def rec_class(name, base):
        class Rec(base):
            def __init__(self, *a, **k):
                log.append(name)
                super().__init__(*a, **k)
        Rec.__name__ = base.__name__
        return Rec

    pickle.Unpickler = rec_class("pickle.Unpickler", orig[("pickle", "Unpickler")])
    _pickle.Unpickler = rec_class("_pickle.Unpickler", orig[("_pickle", "Unpickler")])
    pickle._Unpickler = rec_class("pickle._Unpickler", orig[("pickle", "_Unpickler")])

    # the callables are looked up the way an unpickler's find_class would find them
    callables = [("pickle", "loads"), ("_pickle", "loads"), ("torch.storage", "_load_from_bytes")]
    rows = []
    for mod, name in callables:
        for cont, data in payloads.items():
            fn = getattr(sys.modules[mod], name)
            del log[:]
            try:
                fn(data)
                ok = True
                err = None
            except BaseException as e:  # noqa: BLE001
                ok = False
                err = type(e).__name__
            rows.append({"module": mod, "name": name, "container": cont, "kinds": list(log),
                         "completes": ok, "error": err})
    for a in ATTRS:
        setattr(MODS[a[0]], a[1], orig[a])
    print(json.dumps({"hooked": hooked, "not_restored": not_restored, "rows": rows,
                      "torch": torch.__version__, "python": sys.version.split()[0]}))


if __name__ == "__main__":
    main()
