"""Construction sites of findings: every way an `analyze` method of an Analysis subclass can produce an
`AnalysisResult(...)`, read from the live source by a small partial evaluator.

A site is one (severity member, message template, analysis_name, trigger) combination that reaches a
`yield` / `yield from` / `return` of `analyze`.  It is found wherever the construction is written:
directly in the yield (pinned layout); behind a local that is only ever assigned message fragments or
results (`message = f"..."` in each branch, one shared `yield AnalysisResult(sev, message, ...)`); behind
a conditional expression; or behind a helper (method of the class, function of the module) that returns
or yields results -- the helper's parameters are replaced by the caller's argument expressions and nested
f-strings are flattened, so `self._finding(shortened, f"imports {x}")` with
`_finding = lambda s, why: AnalysisResult(SEV, f"`{s}` {why}", ...)` is the same site as the inlined text.
Sites are numbered per class in source order of the yield and, within one yield, in source order of the
alternatives.  Anything the evaluator cannot resolve to an AnalysisResult(...) is reported as a raw yield
(the C19 theorem `raw_yields = []` then fails: fail closed).

Known limits (each only ever produces an alarm, never hides one): results collected in a list and
returned; message fragments computed by a helper call; a helper-local name that coincides with a caller
name shares a placeholder; reordering of branches renumbers sites."""
import ast
import copy
import inspect
import itertools
import textwrap

MAX_DEPTH = 6
MAX_ALTS = 64


class Fn:
    """one function of the live source: its AST, its expandable locals, the object that owns it"""

    def __init__(self, fobj, owner_cls, module):
        src = textwrap.dedent(inspect.getsource(fobj))
        tree = ast.parse(src)
        self.node = next(n for n in tree.body if isinstance(n, (ast.FunctionDef, ast.AsyncFunctionDef)))
        self.cls = owner_cls
        self.module = module
        self.params = [a.arg for a in self.node.args.posonlyargs + self.node.args.args + self.node.args.kwonlyargs]
        if self.node.args.vararg:
            self.params.append(self.node.args.vararg.arg)
        if self.node.args.kwarg:
            self.params.append(self.node.args.kwarg.arg)
        self.assigned = {}      # name -> [value AST] for names only ever bound by `name = <fragment>`
        self._find_expandable()

    def own_nodes(self):
        """nodes of this function, not of nested functions / lambdas / classes"""
        stack = list(self.node.body)
        while stack:
            n = stack.pop(0)
            yield n
            if isinstance(n, (ast.FunctionDef, ast.AsyncFunctionDef, ast.Lambda, ast.ClassDef)):
                continue
            stack = list(ast.iter_child_nodes(n)) + stack

    def _find_expandable(self):
        simple, other = {}, set(self.params)
        for n in self.own_nodes():
            if isinstance(n, ast.Assign) and len(n.targets) == 1 and isinstance(n.targets[0], ast.Name):
                simple.setdefault(n.targets[0].id, []).append(n)
            elif isinstance(n, ast.AnnAssign) and isinstance(n.target, ast.Name) and n.value is not None:
                simple.setdefault(n.target.id, []).append(n)
            elif isinstance(n, ast.Name) and isinstance(n.ctx, (ast.Store, ast.Del)):
                other.add(n.id)     # filtered below: stores that are not the simple assignments above
            elif isinstance(n, (ast.AugAssign,)) and isinstance(n.target, ast.Name):
                other.add(n.target.id)
        simple_targets = {}
        for name, nodes in simple.items():
            simple_targets[name] = {id(x.targets[0] if isinstance(x, ast.Assign) else x.target) for x in nodes}
        bad = set(self.params)
        for n in self.own_nodes():
            if isinstance(n, ast.Name) and isinstance(n.ctx, (ast.Store, ast.Del)):
                if id(n) not in simple_targets.get(n.id, ()):
                    bad.add(n.id)
            elif isinstance(n, ast.AugAssign) and isinstance(n.target, ast.Name):
                bad.add(n.target.id)
        for name, nodes in simple.items():
            if name in bad:
                continue
            nodes.sort(key=lambda x: (x.lineno, x.col_offset))
            vals = [x.value for x in nodes]
            if all(self.fragment(v, set(simple) - bad) for v in vals):
                self.assigned[name] = vals

    def fragment(self, v, names):
        """is v a message fragment / a result / a severity -- something worth substituting for its name"""
        if isinstance(v, ast.Constant) and isinstance(v.value, str):
            return True
        if isinstance(v, ast.JoinedStr):
            return True
        if isinstance(v, ast.BinOp) and isinstance(v.op, ast.Add):
            return self.fragment(v.left, names) and self.fragment(v.right, names)
        if isinstance(v, ast.IfExp):
            return self.fragment(v.body, names) and self.fragment(v.orelse, names)
        if isinstance(v, ast.Name):
            return v.id in names or isinstance(self.module_value(v), str)
        if isinstance(v, ast.Attribute) and isinstance(v.value, ast.Name) and v.value.id == "Severity":
            return True
        if isinstance(v, ast.Attribute) and isinstance(self.module_value(v), str):
            return True                 # self.MESSAGE / Class.MESSAGE: a class-level text
        if isinstance(v, ast.Call) and is_result_ctor(v):
            return True
        if is_format_call(v):
            return self.fragment(v.func.value, names)
        return False

    def module_value(self, node):
        """the run-time value of a module-level name or a class attribute the expression names, if any"""
        if isinstance(node, ast.Name) and node.id not in self.assigned and node.id not in self.params:
            return vars(self.module).get(node.id, _NOVALUE)
        if isinstance(node, ast.Attribute) and isinstance(node.value, ast.Name) and self.cls is not None:
            if node.value.id in ("self", "cls") or node.value.id == self.cls.__name__:
                try:
                    return inspect.getattr_static(self.cls, node.attr)
                except AttributeError:
                    return _NOVALUE
            owner = vars(self.module).get(node.value.id, _NOVALUE)
            if inspect.isclass(owner):
                try:
                    return inspect.getattr_static(owner, node.attr)
                except AttributeError:
                    return _NOVALUE
        return _NOVALUE


class _NoValue:
    def __repr__(self):
        return "<no value>"


_NOVALUE = _NoValue()


def is_format_call(v):
    return (isinstance(v, ast.Call) and isinstance(v.func, ast.Attribute) and v.func.attr == "format"
            and not any(isinstance(a, ast.Starred) for a in v.args) and all(k.arg is not None for k in v.keywords))


def is_result_ctor(call):
    return isinstance(call, ast.Call) and isinstance(call.func, ast.Name) and call.func.id == "AnalysisResult"


class Subst(ast.NodeTransformer):
    def __init__(self, mapping):
        self.mapping = mapping

    def visit_Name(self, node):
        if isinstance(node.ctx, ast.Load) and node.id in self.mapping:
            return copy.deepcopy(self.mapping[node.id])
        return node


def substitute(expr, mapping):
    return Subst(mapping).visit(copy.deepcopy(expr)) if mapping else copy.deepcopy(expr)


def free_names(expr):
    return [n.id for n in ast.walk(expr) if isinstance(n, ast.Name) and isinstance(n.ctx, ast.Load)]


def expand_conds(expr, fn, depth=0):
    """all variants of expr with every conditional expression over fragments replaced by one branch"""
    if depth > MAX_DEPTH:
        return [expr]
    nodes = list(ast.walk(expr))
    for i, n in enumerate(nodes):
        if isinstance(n, ast.IfExp) and fn.fragment(n.body, set()) and fn.fragment(n.orelse, set()):
            out = []
            for pick in (n.body, n.orelse):
                e = copy.deepcopy(expr)
                target = list(ast.walk(e))[i]
                if target is e:
                    e = copy.deepcopy(pick)
                else:
                    class Pick(ast.NodeTransformer):
                        def visit_IfExp(self, node, target=target, pick=pick):
                            return copy.deepcopy(pick) if node is target else self.generic_visit(node)
                    e = Pick().visit(e)
                out += expand_conds(e, fn, depth + 1)
            return out
    return [expr]


def env_key(env):
    return tuple(sorted((k, ast.dump(v)) for k, v in env.items()))


def merge(envs):
    seen, out = set(), []
    for e in envs:
        k = env_key(e)
        if k not in seen:
            seen.add(k)
            out.append(e)
    if len(out) > MAX_ALTS:
        raise ValueError("too many alternatives")
    return out


def flow(fn):
    """(position, kind, expression) of every yield / yield from / return-with-value, once per distinct
    binding of the expandable locals that can reach it along the structured control flow (branches fork,
    loops run to a fixpoint); the bindings are substituted into the expression.  Order: position, then
    order of discovery (the `if` branch before the `else` branch)."""
    results, seen = [], set()

    def emit(node, kind, value, envs):
        for env in envs:
            e = substitute(value, env)
            key = (node.lineno, node.col_offset, kind, ast.dump(e))
            if key not in seen:
                seen.add(key)
                results.append(((node.lineno, node.col_offset), kind, e))

    def scan(node, envs):
        """yields inside an expression / simple statement (not inside nested scopes)"""
        if node is None:
            return
        stack = [node]
        found = []
        while stack:
            n = stack.pop()
            if isinstance(n, (ast.FunctionDef, ast.AsyncFunctionDef, ast.Lambda, ast.ClassDef)):
                continue
            if isinstance(n, ast.Yield) and n.value is not None:
                found.append((n, "yield"))
            elif isinstance(n, ast.YieldFrom):
                found.append((n, "from"))
            stack += list(ast.iter_child_nodes(n))
        found.sort(key=lambda t: (t[0].lineno, t[0].col_offset))
        for n, kind in found:
            emit(n, kind, n.value, envs)

    def block(stmts, envs):
        """-> (envs falling out of the block, envs leaving by break, envs leaving by continue)"""
        brk, cont = [], []
        for st in stmts:
            if not envs:
                break
            if isinstance(st, (ast.FunctionDef, ast.AsyncFunctionDef, ast.ClassDef)):
                continue
            if isinstance(st, (ast.Assign, ast.AnnAssign)):
                scan(st.value, envs)
                tgt = st.targets[0] if isinstance(st, ast.Assign) and len(st.targets) == 1 else getattr(st, "target", None)
                if isinstance(tgt, ast.Name) and tgt.id in fn.assigned and st.value is not None:
                    envs = merge([{**env, tgt.id: substitute(st.value, env)} for env in envs])
            elif isinstance(st, ast.If):
                scan(st.test, envs)
                o1, b1, c1 = block(st.body, envs)
                o2, b2, c2 = block(st.orelse, envs)
                envs, brk, cont = merge(o1 + o2), brk + b1 + b2, cont + c1 + c2
            elif isinstance(st, (ast.For, ast.AsyncFor, ast.While)):
                scan(st.iter if not isinstance(st, ast.While) else st.test, envs)
                head, left = envs, []
                for _ in range(MAX_ALTS):
                    o, b, c = block(st.body, head)
                    left += b
                    new_head = merge(head + o + c)
                    if len(new_head) == len(head):
                        break
                    head = new_head
                o, b, c = block(st.orelse, head)
                envs, brk, cont = merge(o + left), brk + b, cont + c
            elif isinstance(st, ast.Return):
                if st.value is not None:
                    scan(st.value, envs)
                    emit(st, "return", st.value, envs)
                envs = []
            elif isinstance(st, ast.Raise):
                scan(st.exc, envs)
                envs = []
            elif isinstance(st, ast.Continue):
                cont, envs = cont + envs, []
            elif isinstance(st, ast.Break):
                brk, envs = brk + envs, []
            elif isinstance(st, (ast.With, ast.AsyncWith)):
                for it in st.items:
                    scan(it.context_expr, envs)
                envs, b, c = block(st.body, envs)
                brk, cont = brk + b, cont + c
            elif isinstance(st, ast.Try) or st.__class__.__name__ == "TryStar":
                o, b, c = block(st.body, envs)
                brk, cont = brk + b, cont + c
                outs = []
                for h in st.handlers:
                    oh, bh, ch = block(h.body, merge(envs + o))
                    outs += oh
                    brk, cont = brk + bh, cont + ch
                oe, be, ce = block(st.orelse, o)
                brk, cont = brk + be, cont + ce
                envs = merge(oe + outs)
                of, bf, cf = block(st.finalbody, envs)
                envs, brk, cont = of, brk + bf, cont + cf
            elif st.__class__.__name__ == "Match":
                scan(st.subject, envs)
                outs = []
                for case in st.cases:
                    oc, bc, cc = block(case.body, envs)
                    outs += oc
                    brk, cont = brk + bc, cont + cc
                envs = merge(outs + envs)
            else:
                scan(st, envs)
        return envs, merge(brk), merge(cont)

    block(fn.node.body, [{}])
    results.sort(key=lambda t: t[0])
    return results


def helper_of(call, fn):
    """(function object, owner class, number of leading parameters bound implicitly) of a helper call"""
    f = call.func
    if isinstance(f, ast.Name):
        obj = vars(fn.module).get(f.id)
        if inspect.isfunction(obj) and (obj.__module__ or "").startswith("fickling"):
            return obj, None, 0
        return None
    if isinstance(f, ast.Attribute) and isinstance(f.value, ast.Name):
        owner = None
        if fn.cls is not None and (f.value.id in ("self", "cls") or f.value.id == fn.cls.__name__):
            owner = fn.cls
        else:
            cand = vars(fn.module).get(f.value.id)
            if inspect.isclass(cand):
                owner = cand
        if owner is None:
            return None
        try:
            raw = inspect.getattr_static(owner, f.attr)
        except AttributeError:
            return None
        if isinstance(raw, staticmethod):
            return raw.__func__, owner, 0
        if isinstance(raw, classmethod):
            return raw.__func__, owner, 1
        if inspect.isfunction(raw):
            # Class.method(obj, ...) passes self explicitly; self.method(...) binds it
            return raw, owner, (1 if f.value.id in ("self", "cls") else 0)
    return None


def bind_args(call, hfn, skip):
    a = hfn.node.args
    pos = [x.arg for x in a.posonlyargs + a.args][skip:]
    mapping = {}
    if any(isinstance(x, ast.Starred) for x in call.args) or any(k.arg is None for k in call.keywords):
        return None
    if len(call.args) > len(pos):
        return None
    for name, arg in zip(pos, call.args):
        mapping[name] = arg
    for k in call.keywords:
        mapping[k.arg] = k.value
    all_pos = [x.arg for x in a.posonlyargs + a.args]
    for name, d in zip(all_pos[len(all_pos) - len(a.defaults):], a.defaults):
        mapping.setdefault(name, d)
    for x, d in zip(a.kwonlyargs, a.kw_defaults):
        if d is not None:
            mapping.setdefault(x.arg, d)
    need = set(pos) | {x.arg for x in a.kwonlyargs}
    if not need <= set(mapping):
        return None
    return mapping


def is_generator(fn):
    return any(isinstance(n, (ast.Yield, ast.YieldFrom)) for n in fn.own_nodes())


def resolve(expr, kind, fn, depth=0):
    """-> list of ("site", AnalysisResult call AST, fn) | ("raw", source text); `kind` is how the value is
    produced: "yield"/"return" = the value itself is one result, "from" = the value is iterated"""
    if depth > MAX_DEPTH:
        return [("raw", ast.unparse(expr))]
    out = []
    for e in expand_conds(expr, fn):
        if kind != "from" and is_result_ctor(e):
            out.append(("site", e, fn))
            continue
        if kind == "from" and isinstance(e, (ast.Tuple, ast.List)) and e.elts:
            for x in e.elts:
                out += resolve(x, "yield", fn, depth + 1)
            continue
        h = helper_of(e, fn) if isinstance(e, ast.Call) else None
        if h is None:
            out.append(("raw", ast.unparse(e)))
            continue
        fobj, owner, skip = h
        try:
            hfn = Fn(fobj, owner, inspect.getmodule(fobj) or fn.module)
        except (OSError, TypeError, SyntaxError, StopIteration):
            out.append(("raw", ast.unparse(e)))
            continue
        mapping = bind_args(e, hfn, skip)
        gen = is_generator(hfn)
        if mapping is None or (kind == "from") != gen:
            # `yield helper()` of a generator, or `yield from helper()` of a plain function
            if mapping is not None and kind == "from" and not gen:
                # plain function returning an iterable of results: only literal tuples / lists resolve
                for _, k, r in flow(hfn):
                    out += resolve(substitute(r, mapping), "from", _outer(fn, hfn), depth + 1)
                continue
            out.append(("raw", ast.unparse(e)))
            continue
        for _, k, r in flow(hfn):
            if gen and k == "return":
                continue
            out += resolve(substitute(r, mapping), k if gen else "yield", _outer(fn, hfn), depth + 1)
    return out


def _outer(fn, hfn):
    """context for an inlined helper body: the helper's class / module constants stay resolvable, the
    locals were already expanded"""
    ctx = copy.copy(hfn)
    ctx.assigned = {**hfn.assigned, **fn.assigned}
    ctx.params = list(fn.params) + list(hfn.params)
    if ctx.cls is None:
        ctx.cls = fn.cls
    return ctx


def ctor_params(analysis_mod):
    sig = inspect.signature(analysis_mod.AnalysisResult.__init__)
    return [p for p in sig.parameters if p != "self"]


def row_of(call, fn, cls, analysis_mod):
    """structured row of one resolved AnalysisResult(...) call"""
    params = ctor_params(analysis_mod)
    got = dict(zip(params, call.args))
    for kw in call.keywords:
        got[kw.arg] = kw.value
    sev = got.get("severity")
    sevname = None
    if isinstance(sev, ast.Attribute) and isinstance(sev.value, ast.Name) and sev.value.id == "Severity":
        sevname = sev.attr
    elif sev is not None:
        v = fn.module_value(sev)
        if isinstance(v, analysis_mod.Severity):
            sevname = v.name
    if sevname is None:
        sevname = "?" + (ast.unparse(sev) if sev is not None else "")
    an = got.get("analysis_name")
    aname = None
    if isinstance(an, ast.Constant) and isinstance(an.value, str):
        aname = an.value
    elif an is not None:
        v = fn.module_value(an)
        if isinstance(v, str):
            aname = v
        elif ast.unparse(an) in ("type(self).__name__", "self.__class__.__name__", "cls.__name__",
                                 cls.__name__ + ".__name__"):
            aname = cls.__name__
    slots = []
    parts = template_parts(got.get("message"), slots, fn)
    return {"cls": cls.__name__, "sev": sevname, "aname": aname, "parts": parts,
            "trigger": trigger_of(got.get("trigger"), slots, fn), "slots": slots}


def template_parts(node, slots, fn):
    """None (no message) or a list of ("lit", text) / ("var", slot index); adjacent literals merged"""
    if node is None or (isinstance(node, ast.Constant) and node.value is None):
        return None

    def slot(src):
        if src not in slots:
            slots.append(src)
        return slots.index(src)

    def text_of(n):
        """the run-time text of an expression that names a constant string, else None"""
        if isinstance(n, ast.Constant) and isinstance(n.value, str):
            return n.value
        v = fn.module_value(n)
        return v if isinstance(v, str) else None

    def inner(e):
        """one substituted value: nested templates are flattened, constants become text, the rest a placeholder"""
        if isinstance(e, ast.JoinedStr) or (isinstance(e, ast.Constant) and isinstance(e.value, str)) \
                or (isinstance(e, ast.BinOp) and isinstance(e.op, ast.Add) and fn.fragment(e, set())) \
                or (is_format_call(e) and text_of(e.func.value) is not None):
            return go(e)
        if text_of(e) is not None:
            return [("lit", text_of(e))]
        return [("var", slot(ast.unparse(e)))]

    def go(n):
        if isinstance(n, ast.Constant) and isinstance(n.value, str):
            return [("lit", n.value)]
        if is_format_call(n) and text_of(n.func.value) is not None:
            # "...{name}...{}...".format(a, name=b): same text as the f-string with the arguments in place
            import string
            out, auto = [], 0
            kws = {k.arg: k.value for k in n.keywords}
            for lit, field, spec, conv in string.Formatter().parse(text_of(n.func.value)):
                if lit:
                    out.append(("lit", lit))
                if field is None:
                    continue
                arg = None
                if not spec and not conv:
                    if field == "":
                        arg, auto = (n.args[auto] if auto < len(n.args) else None), auto + 1
                    elif field.isdigit():
                        arg = n.args[int(field)] if int(field) < len(n.args) else None
                    elif field.isidentifier():
                        arg = kws.get(field)
                out += inner(arg) if arg is not None else [("var", slot("!format:{%s!%s:%s}" % (field, conv, spec)))]
            return out
        if isinstance(n, ast.JoinedStr):
            out = []
            for v in n.values:
                if isinstance(v, ast.Constant):
                    out.append(("lit", v.value))
                elif isinstance(v, ast.FormattedValue) and v.conversion == -1 and v.format_spec is None:
                    out += inner(v.value)
                else:
                    out.append(("var", slot("!format:" + ast.unparse(v))))
            return out
        if isinstance(n, ast.BinOp) and isinstance(n.op, ast.Add) and fn.fragment(n, set()):
            return go(n.left) + go(n.right)
        if isinstance(fn.module_value(n), str):
            return [("lit", fn.module_value(n))]
        return [("var", slot(ast.unparse(n)))]

    merged = []
    for p in go(node):
        if p[0] == "lit" and p[1] == "":
            continue
        if p[0] == "lit" and merged and merged[-1][0] == "lit":
            merged[-1] = ("lit", merged[-1][1] + p[1])
        else:
            merged.append(p)
    return merged


def trigger_of(node, slots, fn):
    if node is None or (isinstance(node, ast.Constant) and node.value is None):
        return ("none",)
    if isinstance(node, ast.Tuple) and all(ast.unparse(e) in slots for e in node.elts):
        return ("tuple", [slots.index(ast.unparse(e)) for e in node.elts])
    if ast.unparse(node) in slots:
        return ("ref", slots.index(ast.unparse(node)))
    return ("other", ast.unparse(node))


def analysis_classes(mod, analysis_mod):
    out = []
    for name, obj in vars(mod).items():
        if inspect.isclass(obj) and issubclass(obj, analysis_mod.Analysis) and obj is not analysis_mod.Analysis \
                and obj.__module__ == mod.__name__ and "analyze" in vars(obj):
            try:
                line = inspect.getsourcelines(obj)[1]
            except (OSError, TypeError):
                line = 10 ** 9
            out.append((line, name, obj))
    out.sort()
    return [o for _, _, o in out]


def collect(mods, analysis_mod):
    """-> (rows, raws): rows in class / site order with their index; raws = [(class, source)]"""
    rows, raws = [], []
    for mod in mods:
        for cls in analysis_classes(mod, analysis_mod):
            fobj = vars(cls)["analyze"]
            if isinstance(fobj, (staticmethod, classmethod)):
                fobj = fobj.__func__
            try:
                fn = Fn(fobj, cls, mod)
            except (OSError, TypeError, SyntaxError, StopIteration) as e:
                raws.append((cls.__name__, f"<analyze source unavailable: {type(e).__name__}>"))
                continue
            idx = 0
            try:
                produced = flow(fn)
            except ValueError as e:
                raws.append((cls.__name__, f"<analyze: {e}>"))
                continue
            for _, kind, expr in produced:
                try:
                    res = resolve(expr, kind, fn)
                except ValueError as e:
                    res = [("raw", f"{ast.unparse(expr)} <{e}>")]
                for r in res:
                    if r[0] == "raw":
                        raws.append((cls.__name__, r[1]))
                    else:
                        row = row_of(r[1], r[2], cls, analysis_mod)
                        row["idx"] = idx
                        idx += 1
                        rows.append(row)
    return rows, raws


if __name__ == "__main__":
    import json
    import os
    import sys
    sys.path.insert(0, os.environ.get("FICKLING_REPO", "/repo"))
    from fickling import analysis
    import fickling.ml as ml
    rows, raws = collect((analysis, ml), analysis)
    for r in rows:
        print(json.dumps(r))
    print(json.dumps({"raw": raws}))
