# /verif build: Coq model + proofs (full .vo), extraction, OCaml driver.
SHELL := /bin/bash
FICKLING_REPO ?= /repo
export FICKLING_REPO
PY := PYTHONPATH=$(FICKLING_REPO) PYTHONHASHSEED=0 /venv/bin/python
COQ_TIMEOUT ?= 1800
MODEL_V := $(wildcard coq/model/*.v)
DRIVER := _build/driver/driver

.PHONY: setup gen coq model driver clean

# full build: every model, proof and property file
# the top-level targets share build products (coq and model compile the same files): never run them side by side
.NOTPARALLEL:

setup: gen coq driver props

gen:
	@mkdir -p _build coq/gen
	@# a generator that cannot extract ITS table records the error in _build/gen*.json and leaves the previous
	@# file in place; only the checks that need that table fail (harness/common.py: Check.regen_and_build)
	@$(PY) gen/gen_tables.py >_build/gen.json || (cat _build/gen.json; test -f coq/gen/SevTable.v)
	@$(PY) gen/gen_callgraph.py >_build/gen_callgraph.json || (cat _build/gen_callgraph.json; test -f coq/gen/CallGraph.v)
	@$(PY) gen/gen_project.py
	@cd coq && coq_makefile -f _CoqProject -o Makefile.coq >/dev/null

coq: gen
	cd coq && timeout $(COQ_TIMEOUT) $(MAKE) -f Makefile.coq -j16 --no-print-directory

# only the executable model (no proofs): enough for the driver
model: gen
	cd coq && timeout $(COQ_TIMEOUT) $(MAKE) -f Makefile.coq -j16 --no-print-directory $(patsubst coq/%.v,%.vo,$(MODEL_V))

props: coq
	cd coq && for f in props/*.v; do timeout 600 coqc -Q gen Verif -Q model Verif -Q proofs Verif -Q props Verif $$f >/dev/null || exit 1; done

driver: model
	@if [ ! -x $(DRIVER) ] || [ -n "$$(find coq/model coq/gen coq/extract/Extract.v ocaml/driver.ml \( -name '*.v' -o -name '*.ml' \) -newer $(DRIVER) | head -1)" ]; then \
	  set -e; cd coq/extract && timeout 600 coqc -Q ../gen Verif -Q ../model Verif Extract.v >/dev/null; cd ../..; \
	  mkdir -p _build/driver; cp coq/extract/model.ml coq/extract/model.mli ocaml/driver.ml _build/driver/; \
	  cd _build/driver && ocamlfind ocamlopt -O3 -w -a model.mli model.ml driver.ml -o driver.new 2>/dev/null && mv driver.new driver; \
	fi

clean:
	rm -f coq/Makefile.coq coq/Makefile.coq.conf coq/.Makefile.coq.d coq/gen/*.v coq/extract/model.ml coq/extract/model.mli
	find coq \( -name '*.vo' -o -name '*.vok' -o -name '*.vos' -o -name '*.glob' -o -name '.*.aux' \) -delete
	rm -rf _build
