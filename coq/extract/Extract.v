(* Extraction of the executable model for the correspondence driver.
   Directives used: exactly those of ExtrOcamlBasic and ExtrOcamlNativeString (stdlib); none of
   our own.  Z / N / positive / nat stay extracted inductives. *)
From Coq Require Extraction ExtrOcamlBasic ExtrOcamlNativeString.
From Verif Require Import Base Dispatch Main.
Extraction "model.ml" Main.handle.
