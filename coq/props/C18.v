(* C18 -- CLI on stacked pickles: injection is local, decompilation is one program whose
   per-pickle variables are disjoint.
   Only the property theorems (closed by [exact]), non-vacuity examples, observations and the
   assumptions.  Model: model/Cli.v (+ Interp.v, Codec.v); lemmas: proofs/CliProofs.v.
   All statements quantify over ALL stacks (any length), ALL pickles / opcode programs and ALL
   targets; no bound.  Whether the printed text is syntactically one Python program is the Python
   parser's business: that part is differential only (harness/c18.py: compile() + exec). *)
From Coq Require Import List String ZArith Bool Arith.
From Coq.Strings Require Import Byte.
From Verif Require Import Base Ops Interp OpTable Codec CodecProofs Cli CliProofs.
Import ListNotations.
Local Open Scope nat_scope.
Local Open Scope list_scope.

(* --inject, for EVERY pickle type, injection function, serialiser, stack and target k >= 0:
   - k < n and the injection succeeds: exactly n chunks are written, chunk k is the dump of the
     injected k-th pickle, every other chunk j is the dump of the untouched j-th pickle; status 0;
     stderr carries at most the not-STOP warning;
   - k < n and the injection raises: what was written is exactly the verbatim prefix 0..k-1 and the
     exception propagates (OBSERVATION: bytes are emitted before this failure; the property text
     only promises silence for an out-of-range target);
   - k >= n: nothing is written, stderr is written, the status is 1 (non-zero). *)
Theorem C18_inject_local : forall (P B : Type) (inject : P -> res P) (dumps : P -> B) (stop : P -> bool)
    (ps : list P) (k : nat),
  (k < List.length ps ->
     forall p, nth_error ps k = Some p ->
     (forall p', inject p = Ok p' ->
        let out := cli_inject inject dumps stop ps (Z.of_nat k) in
        o_stdout out = map dumps (firstn k ps) ++ [dumps p'] ++ map dumps (skipn (S k) ps) /\
        List.length (o_stdout out) = List.length ps /\
        nth_error (o_stdout out) k = Some (dumps p') /\
        (forall j, j <> k -> nth_error (o_stdout out) j = option_map dumps (nth_error ps j)) /\
        o_status out = Exit 0 /\ o_stderr out = negb (stop p)) /\
     (forall e, inject p = Err e ->
        let out := cli_inject inject dumps stop ps (Z.of_nat k) in
        o_stdout out = map dumps (firstn k ps) /\ o_status out = Raised e /\ o_stderr out = true)) /\
  (List.length ps <= k ->
     let out := cli_inject inject dumps stop ps (Z.of_nat k) in
     o_stdout out = [] /\ o_status out = Exit 1 /\ status_ok (o_status out) = false /\
     o_stderr out = true).
Proof. exact inject_local. Qed.

(* ... composed with C06's partition theorem: when the input stack is what StackedPickle.load returns
   for n complete pickles b_0..b_{n-1} and the injected pickle serialises to a complete pickle b',
   the bytes written re-parse (StackedPickle.load) to exactly n pickles whose dumps are
   b_0 .. b_{k-1}, b', b_{k+1} .. b_{n-1}. *)
Theorem C18_inject_reparse : forall (inject : list opc -> res (list opc)) stop items k p' b' q',
  Forall (fun bp => complete (fst bp) (snd bp)) items ->
  k < List.length items ->
  (forall p, nth_error (shift_parts 0 items) k = Some p -> inject p = Ok p') ->
  Codec.dumps p' = Ok b' -> complete b' q' ->
  let out := cli_inject inject dumps_bytes stop (shift_parts 0 items) (Z.of_nat k) in
  let items' := firstn k items ++ (b', q') :: skipn (S k) items in
  o_status out = Exit 0 /\
  o_stdout out = map fst items' /\
  stacked_load KBytes (List.concat (o_stdout out)) 0
    = LOk (shift_parts 0 items', List.length (List.concat (o_stdout out))) /\
  List.length (shift_parts 0 items') = List.length items /\
  Forall2 (fun part bp => Codec.dumps part = Ok (fst bp)) (shift_parts 0 items') items'.
Proof. exact inject_reparse. Qed.

(* decompile / --trace, for EVERY stack of opcode programs none of which imports a global under a
   spelling fickling reserves for itself (_var<digits>, result<digits>):
   - segment i is numbered i and its interpreter starts at the variable counter where segment i-1
     stopped (0 for the first);
   - per segment ([seg_scoped]): the _var indices it assigns are exactly first, first+1, ..., next-1,
     once each, in that order; every _var mentioned in a statement's own expression tree was assigned
     by an EARLIER statement of the SAME segment; every _var mentioned anywhere (statements and the
     final contents of the list/set/dict displays) lies in [first, next); the only reserved
     spellings it binds are those variables and result<i>; the only reserved spellings it reads are
     those variables;
   - across segments: the ranges are increasing and disjoint (next_i <= first_j for i < j) and any
     name that occurs (bound or read) in two different segments is NOT a reserved spelling -- no
     variable or result name of one pickle is reused by another;
   - either every program decompiled (status 0, one segment per pickle), or pickle number
     |segments| raised and exactly the earlier segments were printed. *)
Theorem C18_decompile_disjoint : forall ps segs st,
  Forall (fun p => reserved_free p = true) ps ->
  cli_decompile ps = (segs, st) ->
  seg_chain 0 0 segs /\
  (forall g, In g segs -> seg_scoped g) /\
  (forall l1 g1 l2 g2 l3, segs = l1 ++ g1 :: l2 ++ g2 :: l3 ->
     sg_next g1 <= sg_first g2 /\ sg_index g1 < sg_index g2 /\
     forall x, In x (seg_binds g1 ++ seg_reads g1) -> In x (seg_binds g2 ++ seg_reads g2) ->
               is_reserved x = false) /\
  (st = Exit 0 /\ List.length segs = List.length ps /\
     Forall2 (fun g p => run_from p (fk_init (sg_first g)) = Ok (sg_state g)) segs ps
   \/ exists e, st = Raised e /\ List.length segs < List.length ps /\
        Forall2 (fun g p => run_from p (fk_init (sg_first g)) = Ok (sg_state g))
                segs (firstn (List.length segs) ps)).
Proof. exact decompile_disjoint. Qed.

(* each pickle's value is bound to its own result name: a program ending in STOP (every parsed
   pickle does, C06_stacked_sound) that decompiles ends with `result<i> = ...` *)
Theorem C18_result_bound : forall ps segs st,
  cli_decompile ps = (segs, st) ->
  Forall (fun p => exists q, p = q ++ [OStop]) ps ->
  forall g, In g segs ->
    (exists e r, seg_body g = r ++ [SResult e]) /\ In (result_name (sg_index g)) (seg_binds g).
Proof. exact decompile_result_bound. Qed.

(* the reserved spellings are what the theorem says they are *)
Theorem C18_names : forall i j,
  is_reserved (var_name i) = true /\ is_reserved (result_name i) = true /\
  (var_name i = var_name j -> i = j) /\ (result_name i = result_name j -> i = j) /\
  var_name i <> result_name j.
Proof.
  intros i j.
  exact (conj (var_name_reserved i) (conj (result_name_reserved i)
        (conj (var_name_inj i j) (conj (result_name_inj i j) (var_not_result i j))))).
Qed.

(* ---------------- non-vacuity ---------------- *)
Definition g_ (m n : string) := OGlobal m n.
(* two pickles that each make calls: os.getcwd() twice / a STACK_GLOBAL call with a list argument *)
Definition ex_p0 : list op :=
  [g_ "os" "getcwd"; OEmptyTuple; OReduce; g_ "os" "getcwd"; OEmptyTuple; OReduce; OTuple2; OStop].
Definition ex_p1 : list op :=
  [OConst (CStr "verif_sink"); OConst (CStr "record"); OStackGlobal; OEmptyList; OConst (CInt 1);
   OAppend; OTuple1; OReduce; OStop].

Example C18_nonvacuous_decompile :
  forallb reserved_free [ex_p0; ex_p1; ex_p0] = true /\
  exists g0 g1 g2, cli_decompile [ex_p0; ex_p1; ex_p0] = ([g0; g1; g2], Exit 0) /\
    (sg_first g0, sg_next g0, sg_first g1, sg_next g1, sg_first g2, sg_next g2) = (0, 2, 2, 3, 3, 5) /\
    seg_assigns g2 = [3; 4] /\
    seg_binds g1 = ["record"; var_name 2; result_name 1]%string.
Proof.
  split; [vm_compute; reflexivity|]. eexists. eexists. eexists.
  split; [vm_compute; reflexivity|]. vm_compute. repeat split.
Qed.

(* a program outside the hypothesis: it imports a global spelled _var0 *)
Example C18_reserved_free_is_a_restriction :
  reserved_free [g_ "m" "_var0"; OStop] = false /\ reserved_free [g_ "m" "result1"; OStop] = false /\
  reserved_free [g_ "numpy" "result_type"; OConst (CStr "result0"); OStop] = true /\
  reserved_free [OConst (CStr "m"); OConst (CStr "result0"); OStackGlobal; OStop] = false.
Proof. vm_compute. repeat split. Qed.

Definition ex_b : list byte :=
  [x80; x02; x5d; x71; x00; x28; x4b; x01; x58; x01; x00; x00; x00; x61; x65; x2e].
Definition ex_none : list byte := [x4e; x2e].

Example C18_nonvacuous_reparse :
  exists pb pn p' b' q',
    let items := [(ex_b, pb); (ex_none, pn); (ex_b, pb)] in
    Forall (fun bp => complete (fst bp) (snd bp)) items /\
    (forall p, nth_error (shift_parts 0 items) 1 = Some p -> (fun x => Ok x) p = Ok p') /\
    Codec.dumps p' = Ok b' /\ complete b' q'.
Proof.
  eexists. eexists. eexists. eexists. eexists. cbv zeta.
  split.
  { repeat constructor; unfold complete; cbn [fst snd]; vm_compute; reflexivity. }
  split; [intros p H; vm_compute in H; inversion H; reflexivity|].
  split; [vm_compute; reflexivity|]. unfold complete. vm_compute. reflexivity.
Qed.

(* ---------------- observations (outside the property's quantifier; not alarms) ---------------- *)
(* a NEGATIVE --inject-target is not range-checked.  Python's slicing then makes -1 special:
   stack[:-1], the injected stack[-1], then stack[0:] -- the whole stack again, with the element
   that was just mutated in place: 2n pickles are written.  Target -2 happens to be correct;
   a target below -n raises IndexError after writing nothing. *)
Example C18_negative_target_observation :
  let inj := fun p : nat => Ok (100 + p) in
  let run := cli_inject inj (fun p => p) (fun _ => true) [10; 11; 12] in
  o_stdout (run (-1)%Z) = [10; 11; 112; 10; 11; 112] /\ o_status (run (-1)%Z) = Exit 0 /\
  o_stdout (run (-2)%Z) = [10; 111; 12] /\
  o_stdout (run (-3)%Z) = [110; 11; 12] /\
  o_stdout (run (-4)%Z) = [] /\ o_status (run (-4)%Z) = Raised EIndex.
Proof. vm_compute. repeat split. Qed.

(* "assigned earlier" is about a statement's own expression tree.  A list display captured by an
   earlier statement and extended later is printed with its final contents (finding D15 of
   C03/C05, a different property): here `_var0 = f([_var1])` precedes `_var1 = f()`.  The variable
   still belongs to the same segment, which is what C18 is about. *)
Example C18_display_mutated_after_capture_observation :
  let p := [OEmptyList; OPut 0; g_ "m" "f"; OGet 0; OTuple1; OReduce; OPop;
            g_ "m" "f"; OEmptyTuple; OReduce; OAppend; OStop] in
  reserved_free p = true /\
  exists s, run_from p (fk_init 0) = Ok s /\
    List.rev (body s) = [SImport "m" "f"; SAssignV 0 (ECall (EName "f") [ENode 0] None);
                         SImport "m" "f"; SAssignV 1 (ECall (EName "f") [] None);
                         SResult (ENode 0)]%string /\
    nodes s = [NList [EVar 1]].
Proof. split; [vm_compute; reflexivity|]. eexists. split; [vm_compute; reflexivity|]. vm_compute. split; reflexivity. Qed.

Print Assumptions C18_inject_local.
Print Assumptions C18_inject_reparse.
Print Assumptions C18_decompile_disjoint.
Print Assumptions C18_result_bound.
Print Assumptions C18_names.
