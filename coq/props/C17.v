(* C17 -- Format identification follows the documented table and is read-only.
   Only the property theorems (closed by [exact]), non-vacuity examples, observations and
   their assumptions.  Model: model/Poly.v (fickling/polyglot.py with notes/fix_polyglot_cleanup.patch);
   specification written by hand from the documentation: model/PolySpec.v. *)
From Coq Require Import List String Bool.
From Verif Require Import Base PolyTable Poly PolySpec PolyProofs.
Import ListNotations.
Open Scope string_scope.

(* For every properties record -- all 32 subsets of the five marker members and all values of the six
   other inputs, 2048 records, evaluated exhaustively against the REGENERATED format_conditions --
   identification succeeds and the reported list
   (1) is ordered by the documented precedence (TorchScript v1.4, v1.3, v1.0, v1.1, PyTorch v1.3, then
       tar / stacked pickle / model archive), without duplicates and without undocumented names;
   (2) contains a zip format only for a zip at offset 0 that has every member the documentation lists;
   (3) contains every zip format whose documented members are present (for TorchScript v1.0 see (4));
   (4) contains TorchScript v1.0 exactly when model.json AND constants.pkl are present;
   (5) contains PyTorch v1.3 whenever data.pkl is present;
   (6) contains the three non-zip formats exactly under their conditions. *)
Theorem C17_table : forall p : props, exists fs, identify p = Ok fs /\
  fs = filter (fun f => mem_str f fs) precedence /\
  (forall f ms, In (f, ms) doc_zip_table -> In f fs ->
     is_torch_zip p = true /\ forall m, In m ms -> marker p m = true) /\
  (forall f ms, In (f, ms) doc_zip_table -> f <> "TorchScript v1.0" -> is_torch_zip p = true ->
     (forall m, In m ms -> marker p m = true) -> In f fs) /\
  (In "TorchScript v1.0" fs <->
     is_torch_zip p = true /\ has_model_json p = true /\ has_constants_pkl p = true) /\
  (is_torch_zip p = true -> has_data_pkl p = true -> In "PyTorch v1.3" fs) /\
  (In "PyTorch v0.1.1" fs <-> is_tar p = true /\ legacy_ok p = true) /\
  (In "PyTorch v0.1.10" fs <-> is_valid_pickle p = true) /\
  (In "PyTorch model archive format" fs <-> is_standard_zip p = true /\ mar_ok p = true).
Proof. exact table_holds. Qed.

(* The suffix test torch applies ("<archive>/data.pkl" is a member) implies the substring test fickling
   applies ("data.pkl" in name), for names of any length. *)
Theorem C17_suffix_implies_substring : forall x s n,
  ends_with (x ++ s) n = true -> contains s n = true.
Proof. exact ends_with_contains. Qed.

(* [contains] and [ends_with] are Python's `in` and `endswith` *)
Theorem C17_string_tests_meaning : forall s n,
  (contains s n = true <-> exists a b, n = a ++ s ++ b) /\
  (ends_with s n = true <-> exists a, n = a ++ s).
Proof. intros s n. exact (conj (contains_spec s n) (ends_with_spec s n)). Qed.

(* Any file torch's zip loader accepts (zip magic at offset 0, records "<archive>/version" and "<archive>/data.pkl") is
   discovered as is_torch_zip and has_data_pkl, hence reported at least as PyTorch v1.3 -- for every
   name list and all values of the other discovered properties. *)
Theorem C17_torch_accepts_implies_v13 : forall tz tar pkl std legacy names,
  torch_accepts tz names = true ->
  is_torch_zip (props_of_names tz tar pkl std legacy names) = true /\
  has_data_pkl (props_of_names tz tar pkl std legacy names) = true /\
  exists fs, identify (props_of_names tz tar pkl std legacy names) = Ok fs /\ In "PyTorch v1.3" fs.
Proof. exact torch_accepts_implies_v13. Qed.

(* Identification is a function of exactly the discovered properties it consults (markers only for a
   zip at offset 0, the legacy-tar answer only for a tar, the model-archive answer only for a standard
   zip); and identifying the file at a path depends on the file's bytes only and leaves the file system
   as it was. *)
Theorem C17_deterministic :
  (forall p q,
     is_torch_zip p = is_torch_zip q -> is_tar p = is_tar q ->
     is_valid_pickle p = is_valid_pickle q -> is_standard_zip p = is_standard_zip q ->
     (is_torch_zip p = true ->
        has_data_pkl p = has_data_pkl q /\ has_constants_pkl p = has_constants_pkl q /\
        has_version p = has_version q /\ has_model_json p = has_model_json q /\
        has_attributes_pkl p = has_attributes_pkl q) ->
     (is_tar p = true -> legacy_ok p = legacy_ok q) ->
     (is_standard_zip p = true -> mar_ok p = mar_ok q) ->
     identify p = identify q) /\
  (forall ident fs fs' p p', file_at fs p = file_at fs' p' ->
     fst (identify_path ident fs p) = fst (identify_path ident fs' p') /\
     snd (identify_path ident fs p) = fs).
Proof.
  split; [exact identify_consults|].
  intros ident fs fs' p p' H. unfold identify_path. simpl. rewrite H. split; reflexivity.
Qed.

(* create_polyglot (with the cleanup fix) over the abstract file system: for EVERY file system, pair of
   input paths, requested output name, identification answers and zip name lists -- hence at every crash
   point (missing input, identification raising, no recognised format for either file, TorchScript file
   without constants.pkl / version) and on every normal return -- provided the scratch names temp_<a>,
   temp_<b>, temp/ are not taken and the output name is neither an input nor a scratch name:
   both inputs are unchanged; when no polyglot is produced (exception or False) every path is exactly as
   before; when one is produced, exactly one path differs -- the output, holding one input appended to the
   other or one input's zip extended with the other's constants.pkl and version. *)
Theorem C17_polyglot_clean : forall ident znames fs first second out,
  fresh fs first second out = true ->
  let r := create_polyglot ident znames fs first second out in
  lookup (snd r) first = lookup fs first /\
  lookup (snd r) second = lookup fs second /\
  match fst r with
  | Returned true =>
      exists name c, In name (candidates out) /\ lookup (snd r) name = Some (File c) /\
        polyglot_from (fun x => file_at fs first = Some x \/ file_at fs second = Some x) znames c /\
        forall p, p <> name -> lookup (snd r) p = lookup fs p
  | _ => forall p, lookup (snd r) p = lookup fs p
  end.
Proof. exact polyglot_clean. Qed.

(* The PyTorch v1.3 / TorchScript v1.4 construction at the level of name lists: a zip at offset 0 whose
   members are those of any archive with a data.pkl plus "constants.pkl" and "version" is identified as
   both formats the construction combines. *)
Theorem C17_polyglot_identified : forall tar pkl std legacy names,
  has_sub "data.pkl" names = true ->
  exists fs, identify (props_of_names true tar pkl std legacy (names ++ ["constants.pkl"; "version"])) = Ok fs /\
             In "TorchScript v1.4" fs /\ In "PyTorch v1.3" fs.
Proof. exact polyglot_identified. Qed.

(* ---------- non-vacuity ---------- *)
Definition ex_fs : fsys :=
  [("in/a.pt", File (Raw "A")); ("in/b.pt", File (Raw "B")); ("keep.txt", File (Raw "K")); ("in", Dir)].
Definition ex_ident (a b : res (list string)) (c : content) : res (list string) :=
  match c with Raw "A" => a | Raw "B" => b | _ => Err EUnmodelled end.
Definition ex_znames (l : list string) (c : content) : list string :=
  match c with Raw "B" => l | _ => [] end.

Example C17_fresh_nonvacuous :
  fresh ex_fs "in/a.pt" "in/b.pt" None = true /\ fresh ex_fs "in/a.pt" "in/b.pt" (Some "out.pt") = true /\
  fresh ex_fs "in/a.pt" "in/a.pt" None = true.
Proof. vm_compute. auto. Qed.

(* every crash point is reachable, and so is each constructor *)
Example C17_crash_points_reachable :
  fst (create_polyglot (ex_ident (Ok []) (Ok [])) (ex_znames []) ex_fs "in/none" "in/b.pt" None)
    = Raised CopyFirst /\
  fst (create_polyglot (ex_ident (Ok []) (Ok [])) (ex_znames []) ex_fs "in/a.pt" "in/none" None)
    = Raised CopySecond /\
  fst (create_polyglot (ex_ident (Ok []) (Ok ["PyTorch v1.3"])) (ex_znames []) ex_fs "in/a.pt" "in/b.pt" None)
    = Raised NoFormatFirst /\
  fst (create_polyglot (ex_ident (Ok ["PyTorch v1.3"]) (Ok [])) (ex_znames []) ex_fs "in/a.pt" "in/b.pt" None)
    = Raised NoFormatSecond /\
  fst (create_polyglot (ex_ident (Err EValue) (Ok [])) (ex_znames []) ex_fs "in/a.pt" "in/b.pt" None)
    = Raised (IdentFirst EValue) /\
  fst (create_polyglot (ex_ident (Ok ["PyTorch v1.3"]) (Ok ["TorchScript v1.4"]))
         (ex_znames ["m/data.pkl"; "m/constants.pklx"; "m/version"]) ex_fs "in/a.pt" "in/b.pt" None)
    = Returned false /\
  fst (create_polyglot (ex_ident (Ok ["PyTorch v1.3"]) (Ok ["PyTorch v1.3"])) (ex_znames []) ex_fs
         "in/a.pt" "in/b.pt" None)
    = Returned false.
Proof. vm_compute. repeat split. Qed.

Example C17_constructors_reachable :
  create_polyglot (ex_ident (Ok ["PyTorch v1.3"]) (Ok ["TorchScript v1.4"; "TorchScript v1.3"; "PyTorch v1.3"]))
      (ex_znames ["m/data.pkl"; "m/constants.pkl"; "m/version"]) ex_fs "in/a.pt" "in/b.pt" None
    = (Returned true,
       ("polyglot.pt", File (ZipAdd (Raw "A") [("constants.pkl", Member (Raw "B") "m/constants.pkl");
                                               ("version", Member (Raw "B") "m/version")])) :: ex_fs) /\
  create_polyglot (ex_ident (Ok ["PyTorch v0.1.10"]) (Ok ["PyTorch model archive format"]))
      (ex_znames []) ex_fs "in/a.pt" "in/b.pt" (Some "out.bin")
    = (Returned true, ("out.bin", File (Cat (Raw "A") (Raw "B"))) :: ex_fs) /\
  create_polyglot (ex_ident (Ok ["PyTorch model archive format"]) (Ok ["PyTorch v0.1.1"]))
      (ex_znames []) ex_fs "in/a.pt" "in/b.pt" None
    = (Returned true, ("polyglot.mar.tar", File (Cat (Raw "B") (Raw "A"))) :: ex_fs).
Proof. vm_compute. repeat split. Qed.

Example C17_torch_accepts_nonvacuous :
  torch_accepts true ["archive/data.pkl"; "archive/version"; "archive/data/0"] = true /\
  torch_accepts true ["data.pkl"; "version"] = false /\
  torch_accepts false ["archive/data.pkl"; "archive/version"] = false.
Proof. vm_compute. auto. Qed.

(* ---------- observations (reproduced by the model, not alarms) ---------- *)
(* The documentation lists TorchScript v1.0 as "ZIP file with model.json"; the code additionally asks for
   constants.pkl (and calls a model.json without attributes.pkl / constants.pkl corrupted). *)
Example C17_observation_v10_needs_constants :
  let p := mkProps true false false true false false false true false false false in
  marker p "model.json" = true /\ identify p = Ok [] /\ corrupted p = true.
Proof. vm_compute. auto. Qed.

(* Without the freshness hypothesis an input can be lost: the working copy of "x" is called "temp_x". *)
Example C17_observation_scratch_name_collision :
  let fs := [("x", File (Raw "A")); ("temp_x", File (Raw "B"))] in
  let r := create_polyglot (ex_ident (Ok ["PyTorch v1.3"]) (Ok ["PyTorch v1.3"])) (ex_znames []) fs "x" "temp_x" None in
  fresh fs "x" "temp_x" None = false /\ lookup fs "temp_x" = Some (File (Raw "B")) /\ lookup (snd r) "temp_x" = None.
Proof. vm_compute. auto. Qed.

Print Assumptions C17_table.
Print Assumptions C17_suffix_implies_substring.
Print Assumptions C17_string_tests_meaning.
Print Assumptions C17_torch_accepts_implies_v13.
Print Assumptions C17_deterministic.
Print Assumptions C17_polyglot_clean.
Print Assumptions C17_polyglot_identified.
