From Verif Require Import ConstProofs.
Theorem C15_stub : True. Proof. exact I. Qed.
