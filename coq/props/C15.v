(* C15 -- injected constants and constructed opcodes mean what was asked, or are refused.
   Model: coq/model/Const.v (encoders of fickling/fickle.py as written on the tree with D7 and D13
   repaired; readers of CPython 3.12 pickletools and the stock unpickler on the emitted fragment).  Tables: coq/gen/ConstTable.v, OpTable.v. *)
From Coq Require Import List String ZArith NArith Bool.
From Coq.Strings Require Import Byte.
From Verif Require Import Base OpTable ConstTable Codec Const ConstProofs.
Import ListNotations.
Local Open Scope Z_scope.

(* ---- first sentence ----
   For EVERY argument value a Python process can hold (pv_wf: str/bytes lengths <= sys.maxsize, float
   bit patterns < 2^64; ints unbounded, containers of any size and nesting depth): either building
   the argument part of the injected call fails (ConstantOpcode.new / _encode_python_obj raise, or
   an opcode's encode() raises in dumps), or the stock unpickler, run on the produced bytes, returns
   exactly that value (same constructor = same kind; floats bitwise; dict items in order). *)
Theorem C15_arg_arrives_or_refused :
  forall v, pv_wf v ->
  match build v with
  | CErr _ => True
  | COk bs => loads (bs ++ [stop_byte]) = COk v
  end.
Proof. exact arrives_or_refused. Qed.

(* non-vacuity: values of every kind are built (not refused) and come back *)
Definition demo : pv :=
  PList [PInt 0; PInt 255; PInt 256; PInt 65536; PInt (-7); PInt (2 ^ 70);
         PStr (bytes_of_str "123"); PStr [xc3; xa9]; PBytes (bytes_of_str "12"); PList []; PDict [];
         PDict [(PStr (bytes_of_str "k"), PList [PInt 1; PDict [(PInt 2, PBytes [])]])]].
Example C15_demo_wf : pv_wf demo.
Proof. cbn. unfold blen, ssize_max. cbn. repeat split; try exact I; discriminate. Qed.
Definition demo_built : cres (list byte) := Eval vm_compute in build demo.
Example C15_demo_built :
  build demo = demo_built /\
  match demo_built with COk bs => loads (bs ++ [stop_byte]) = COk demo | CErr _ => False end.
Proof. split; vm_compute; reflexivity. Qed.
(* refusals exist too: bool (after the repair), unsupported types, a non-constant dict key *)
Example C15_refused_bool : build (PBool true) = CErr XValue. Proof. vm_compute. reflexivity. Qed.
Example C15_refused_other : build (PList [POther]) = CErr XValue. Proof. vm_compute. reflexivity. Qed.
Example C15_numeric_text_stays_text :
  exists c, const_new (PStr (bytes_of_str "123")) = COk (c, PBytes (bytes_of_str "123")) /\ c_cls c = "ShortBinUnicode"%string.
Proof. eexists. split; vm_compute; reflexivity. Qed.

(* text with lone surrogates (its surrogatepass UTF-8 bytes) is an ordinary text value *)
Example C15_surrogate_text_arrives :
  build (PStr [xed; xa0; x80]) = COk [x8c; x03; xed; xa0; x80] /\
  loads ([x8c; x03; xed; xa0; x80] ++ [stop_byte]) = COk (PStr [xed; xa0; x80]).
Proof. split; vm_compute; reflexivity. Qed.

(* ---- second sentence ----
   For every class in sound_names and EVERY argument of the type its opcode carries (all integers, all
   64-bit patterns, all byte strings, all texts -- for UNICODE every argument its encoder accepts, i.e.
   every valid (surrogatepass) UTF-8 byte string; for STRING / SHORT_BINSTRING / BINSTRING every text
   the encoder does not refuse, BINSTRING below 2^31 bytes): if encode() returns bytes,
   pickletools.genops reads exactly one token from them, it is that opcode, its argument is the
   argument the object was built with, and nothing is left over. *)
Theorem C15_opcode_decodes_back :
  forall n c a bs, find_class n = Some c -> type_appropriate n a -> encode c a = COk bs -> reads_back c a bs.
Proof. exact opcode_decodes_back. Qed.

(* argument-less opcodes (any record of the live table; whatever argument is passed is ignored) *)
Theorem C15_noarg_opcode_decodes_back :
  forall c arg, In c opcode_classes -> plain_noarg c = true ->
  encode c arg = COk [class_code c] /\ genops1 [class_code c] = COk ((c_op c, GNone), []).
Proof. exact noarg_decodes_back. Qed.

(* classes without an encoder refuse (an error, never bytes), for ANY class record and argument *)
Theorem C15_refusals_are_errors :
  forall c arg, no_encoder c = true -> exists e, encode c arg = CErr e.
Proof. exact no_encoder_refuses. Qed.

(* every Opcode subclass of the live module is in one of the groups: argument-less / refuses /
   proved sound above / Global (differential only) *)
Theorem C15_every_class_accounted_for :
  forallb (fun c => negb (String.eqb (classify c) "unclassified")) opcode_classes = true.
Proof. exact all_classified. Qed.

(* the building blocks of the repaired encoders, for all inputs *)
Theorem C15_encode_long_roundtrip : forall z, decode_long (encode_long z) = z.
Proof. exact decode_encode_long. Qed.
Theorem C15_utf8_decode_inverts : forall s cps, utf8_decode s = Some cps -> flat_map utf8_cp cps = s.
Proof. intros s cps H. exact (proj1 (utf8_decode_inv s cps H)). Qed.
Theorem C15_raw_unicode_escape_roundtrip :
  forall cps rest, Forall (fun n => (n <= 1114111)%N) cps ->
  genops1 (x56 :: raw_unicode_escape cps ++ rest) = COk (("UNICODE"%string, GText (flat_map utf8_cp cps)), rest).
Proof. exact tok_unicode. Qed.
Theorem C15_repr_roundtrip : forall s, unescape (flat_map (repr_byte (repr_quote s)) s) = COk s.
Proof. intros s. apply unescape_repr. apply repr_quote_cases. Qed.

(* non-vacuity on the live table *)
Example C15_groups_nonempty :
  existsb plain_noarg opcode_classes = true /\ existsb no_encoder opcode_classes = true /\
  forallb (fun n => match find_class n with Some c => String.eqb (classify c) "sound" || String.eqb (classify c) "refuses" | None => false end) sound_names = true.
Proof. repeat split; vm_compute; reflexivity. Qed.
Example C15_binput_refuses : exists c, find_class "BinPut" = Some c /\ no_encoder c = true.
Proof. eexists. split; vm_compute; reflexivity. Qed.
Example C15_decodes_back_nonvacuous :
  reads_backb "BinInt2" (PInt 65535) = true /\ reads_backb "Int" (PInt (-(2 ^ 64))) = true /\
  reads_backb "BinUnicode" (PStr [xc3; xa9]) = true /\ reads_backb "Get" (PBytes (bytes_of_str "5" ++ [nl])%list) = true /\
  reads_backb "Unicode" (PBytes (bytes_of_str "1+1")) = true.
Proof. repeat split; vm_compute; reflexivity. Qed.

(* the former D13 witnesses (…_refuted before the repair) now read back, with bytes as the stock
   pickler would write them *)
Example C15_String_now_reads_back :
  (exists c, find_class "String" = Some c /\ encode c (PStr (bytes_of_str "abc")) = COk ((bytes_of_str "S'abc'" ++ [nl])%list))
  /\ reads_backb "String" (PStr (bytes_of_str "it's a" ++ [x09; x5c])%list) = true.
Proof. split; [eexists; split |]; vm_compute; reflexivity. Qed.
Example C15_BinStrings_now_read_back :
  reads_backb "ShortBinString" (PStr (bytes_of_str "abc")) = true /\
  reads_backb "BinString" (PStr [xc3; xa9; xc3; xbf]) = true /\
  (exists c, find_class "ShortBinString" = Some c /\ encode c (PStr [xe2; x82; xac]) = CErr XValue).
Proof. repeat split; try (eexists; split); vm_compute; reflexivity. Qed.
Example C15_Longs_now_read_back :
  reads_backb "Long1" (PInt 5) = true /\ reads_backb "Long4" (PInt 1) = true /\
  reads_backb "Long1" (PInt (-129)) = true /\ reads_backb "Long4" (PInt (2 ^ 70)) = true /\
  (exists c, find_class "Long1" = Some c /\ encode c (PInt 5) = COk [x8a; x01; x05]).
Proof. repeat split; try (eexists; split); vm_compute; reflexivity. Qed.
Example C15_Unicode_now_reads_back :
  reads_backb "Unicode" (PBytes [xc3; xa9]) = true /\                       (* e-acute *)
  reads_backb "Unicode" (PBytes [x61; x0a; x62]) = true /\                  (* a newline b *)
  reads_backb "Unicode" (PBytes [x5c; x75; x30; x30; x34; x31]) = true /\    (* backslash u 0 0 4 1 *)
  reads_backb "Unicode" (PBytes [xf0; x9f; x98; x80; xed; xa0; x80]) = true /\ (* astral, lone surrogate *)
  (exists c, find_class "Unicode" = Some c /\ encode c (PBytes [xff]) = CErr XValue).
Proof. repeat split; try (eexists; split); vm_compute; reflexivity. Qed.

(* BinInt, Long1, Long4 are still never picked by ConstantOpcode.new for an integer
   (min_value > max_value in their signed ranges) -- harmless *)
Theorem C15_long_never_chosen :
  forall z c a, const_new (PInt z) = COk (c, a) -> c_cls c <> "Long1"%string /\ c_cls c <> "Long4"%string /\ c_cls c <> "BinInt"%string.
Proof. exact long_never_chosen. Qed.

Print Assumptions C15_arg_arrives_or_refused.
Print Assumptions C15_opcode_decodes_back.
Print Assumptions C15_noarg_opcode_decodes_back.
Print Assumptions C15_refusals_are_errors.
Print Assumptions C15_every_class_accounted_for.
Print Assumptions C15_encode_long_roundtrip.
Print Assumptions C15_utf8_decode_inverts.
Print Assumptions C15_raw_unicode_escape_roundtrip.
Print Assumptions C15_repr_roundtrip.
Print Assumptions C15_long_never_chosen.
