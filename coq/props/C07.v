(* C07 -- Safe ML environment mediates every global, including in nested unpicklings.
   Model: model/MLNest.v (a load is a tree of unpicklings); lemmas: proofs/MLNestProofs.v;
   generated tables: gen/LoaderPaths.v (observed from the installed torch and from
   activate_safe_ml_environment on every run), gen/MLTable.v. *)
From Coq Require Import List String Bool Arith.
From Verif Require Import Base Allowlist LoaderPaths MLNest MLNestProofs.
Import ListNotations.
Local Open Scope string_scope.
Local Open Scope list_scope.

(* If every unpickling in the tree is entered through a replaced attribute then -- for trees of
   ANY depth and shape, any additions -- the load behaves as the stock load cut at the first
   global outside BASE + additions: everything resolved is permitted; that first global aborts
   the whole load with the unsafe-file error, is itself not resolved, and nothing after it is;
   if there is none the load is exactly the stock one. *)
Theorem C07_mediated_tree : forall a n,
  all_mediated n = true ->
  run_ml a n = restrict a (run_stock n) /\
  Forall (fun g => spec_permits a g = true) (fst (run_ml a n)) /\
  (forall g, first_refused a (fst (run_stock n)) = Some g ->
     snd (run_ml a n) = Unsafe g /\ spec_permits a g = false /\
     (exists rest, fst (run_stock n) = fst (run_ml a n) ++ g :: rest) /\
     ~ In g (fst (run_ml a n))) /\
  (first_refused a (fst (run_stock n)) = None -> run_ml a n = run_stock n).
Proof. exact mediated_tree. Qed.

(* The generated table (observed on every run from activate_safe_ml_environment and the installed
   torch): the four entry points are replaced, and EVERY (loader callable, container) pair performs all
   of its unpicklings through replaced attributes -- including the payload object of a legacy / zip
   container, which torch unpickles with its own subclass of pickle.Unpickler (the environment replaces
   that attribute too since the repair of D11).  Any unmediated pair appearing in the regenerated table
   makes this theorem fail. *)
Theorem C07_paths_mediated :
  forallb mediated entry_points = true /\
  forall row, In row loader_paths -> pair_mediated row = true.
Proof. exact (conj entry_points_mediated paths_mediated_all). Qed.

(* Together: a load through any of the four entry points whose nested calls follow the table is
   fully mediated, at every depth, in every container format. *)
Theorem C07_safe_conforming : forall a n,
  In (kind_of n) entry_points -> conforms n = true ->
  run_ml a n = restrict a (run_stock n).
Proof. exact safe_conforming. Qed.

(* ---- non-vacuity: a conforming tree three levels deep ---- *)
Definition sink : gname := ("verif_sink", "record").
Definition ploads : gname := ("pickle", "loads").
Definition cloads : gname := ("_pickle", "loads").
Definition np_dtype : gname := ("numpy", "dtype").

Definition deep_tree : node :=
  Node "pickle.load"
    [EGlob np_dtype;
     ECall ploads Bare true
       [Node "pickle.loads"
          [ECall cloads Bare true
             [Node "_pickle.loads"
                [ECall lfb Bare false [Node "pickle.load" [EGlob np_dtype; EGlob sink; EGlob np_dtype]]]]]];
     EGlob np_dtype].

Example C07_nonvacuous :
  In (kind_of deep_tree) entry_points /\ conforms deep_tree = true /\ uses d11 deep_tree = false /\
  all_mediated deep_tree = true /\
  run_stock deep_tree = ([np_dtype; ploads; cloads; lfb; np_dtype; sink; np_dtype], OtherError) /\
  run_ml [ploads; cloads] deep_tree = ([np_dtype; ploads; cloads; lfb; np_dtype], Unsafe sink) /\
  run_ml [] deep_tree = ([np_dtype], Unsafe ploads).
Proof. vm_compute. repeat split. left. reflexivity. Qed.

(* ---- D11 (repaired): the two paths that were unmediated on the pinned tree ---- *)
Definition legacy_tree : node :=
  Node "pickle.loads"
    [ECall lfb Legacy true
       [Node "pickle.load" []; Node "pickle.load" []; Node "pickle.load" [];
        Node "pickle.Unpickler" [EGlob sink];
        Node "pickle.load" []]].

Definition zip_tree : node :=
  Node "pickle.loads" [ECall lfb Zip true [Node "pickle.Unpickler" [EGlob sink]]].

(* regression witnesses of D11 (repaired): torch.load reads the payload object of a legacy / zip
   container with a subclass of pickle.Unpickler; the environment now replaces that attribute, so a
   global outside the allowlist inside the payload aborts the load before it is resolved *)
Lemma C07_d11_legacy_now_mediated :
  conforms legacy_tree = true /\ In (kind_of legacy_tree) entry_points /\
  in_base lfb = true /\ spec_permits [] sink = false /\
  all_mediated legacy_tree = true /\
  run_ml [] legacy_tree = ([lfb], Unsafe sink).
Proof. vm_compute. repeat split. right. left. reflexivity. Qed.

Lemma C07_d11_zip_now_mediated :
  conforms zip_tree = true /\ In (kind_of zip_tree) entry_points /\
  spec_permits [] sink = false /\
  all_mediated zip_tree = true /\
  run_ml [] zip_tree = ([lfb], Unsafe sink).
Proof. vm_compute. repeat split. right. left. reflexivity. Qed.

(* a bare payload handed to _load_from_bytes IS mediated (it is read as the container's first
   header pickle through the hooked pickle.load) -- the one shape the test suite has *)
Lemma C07_bare_payload_mediated_observation :
  run_ml [] (Node "pickle.loads" [ECall lfb Bare false [Node "pickle.load" [EGlob sink]]]) =
  ([lfb], Unsafe sink).
Proof. vm_compute. reflexivity. Qed.

Print Assumptions C07_mediated_tree.
Print Assumptions C07_paths_mediated.
Print Assumptions C07_safe_conforming.
