(* C13 -- Answers depend only on the bytes: deterministic, repeatable, no observer effect.
   Only property theorems (closed by [exact] over lemmas of proofs/CacheProofs.v), non-vacuity
   examples, the refutation witness of the unrepaired `properties` cache, one stated observation,
   and the assumptions.  Model: model/Cache.v.

   The first three theorems are about the GENERIC machine: they hold for every interpreter
   [interpret], visitor [props_of], answer function and opcode encoding -- query sequences of
   any length, any order, any repetition. *)
From Coq Require Import List String ZArith Bool Arith Permutation.
From Coq.Strings Require Import Byte.
From Verif Require Import Base Ops Interp Unparse Severity Analysis Cache CacheProofs.
From Verif Require Codec CodecProofs.
Import ListNotations.
Local Open Scope list_scope.

Section Generic.
Variables X A P R B VA VP VF : Type.
Variable interpret : list X -> res A.
Variable props_of : A -> res P.
Variable ast_view : VA -> A -> R.
Variable props_view : VP -> P -> R.
Variable safety_view : list X -> P -> R.
Variable fresh_view : VF -> list X -> R.
Variable err_ans : err -> R.
Variable data : X -> res (list B).
Notation RQ := (run_query interpret props_of ast_view props_view safety_view fresh_view err_ans).
Notation RQS := (run_queries interpret props_of ast_view props_view safety_view fresh_view err_ans).
Notation SPEC := (spec_answer interpret props_of ast_view props_view safety_view fresh_view err_ans).

(* Asking again -- after ANY sequence [qs] of other read-only questions (decompile, dump, import /
   call summaries, check_safety, trace, dumps), in any order, with any repetition -- gives the answer
   the just-constructed object gives, which is a pure function [SPEC] of the opcode list; the
   opcode list and the serialised bytes are unchanged by the questions. *)
Theorem C13_queries_idempotent : forall (s0 : pk X A P), cache_ok interpret props_of s0 ->
  forall qs q,
  fst (RQ q (RQS qs s0)) = fst (RQ q s0) /\
  fst (RQ q s0) = SPEC q (opcodes s0) /\
  opcodes (RQS qs s0) = opcodes s0 /\
  dumps data (RQS qs s0) = dumps data s0.
Proof.
  exact (queries_idempotent X A P R B VA VP VF interpret props_of ast_view props_view safety_view
           fresh_view err_ans data).
Qed.

(* the hypothesis holds for every freshly constructed / loaded object *)
Theorem C13_fresh_object : forall l qs q,
  fst (RQ q (RQS qs (fresh l))) = fst (RQ q (fresh l)) /\
  fst (RQ q (fresh l)) = SPEC q l /\
  opcodes (RQS qs (fresh l)) = l /\
  dumps data (RQS qs (fresh l)) = dumps data (fresh l : pk X A P).
Proof.
  intros l. exact (queries_idempotent X A P R B VA VP VF interpret props_of ast_view props_view
                     safety_view fresh_view err_ans data (fresh l) (fresh_ok X A P interpret props_of l)).
Qed.

(* two different histories of questions agree on every later answer; two objects with the same
   opcode list (a copy, a re-parsed copy) agree whatever each was asked before *)
Theorem C13_order_irrelevant : forall (s0 : pk X A P), cache_ok interpret props_of s0 ->
  (forall qs1 qs2 q, fst (RQ q (RQS qs1 s0)) = fst (RQ q (RQS qs2 s0))) /\
  (forall s1, cache_ok interpret props_of s1 -> opcodes s0 = opcodes s1 ->
              forall q, fst (RQ q s0) = fst (RQ q s1)).
Proof.
  intros s0 OK.
  split; [apply queries_order_irrelevant; exact OK
         | intros s1 OK1 E; apply same_opcodes_same_answers; assumption].
Qed.
End Generic.

(* Re-parsed copy (uses the C06 codec theorems and the truncation invariance of the token loop,
   proofs/CodecTruncProofs.v).  For EVERY successful Pickled.load -- a bytes object, a seekable stream at
   any offset with anything before and after the pickle, a non-seekable stream -- with parse [r]:
   dumps() of the parse succeeds with bytes [d]; Pickled.load(d) succeeds, consumes exactly [d],
   re-serialises to [d] again (the `dumps` question itself), and has the same opcode classes and
   encodings ([strip]: everything but the stream position).  Hence, for EVERY machine over those
   (every interpreter / analysis that does not look at stream positions), every question [q] gets the
   same answer from the re-parsed copy and from the original, whatever either was asked before.
   No hypothesis beyond "the load succeeded". *)
Theorem C13_reparse_same :
  forall (A P R VA VP VF : Type)
         (interpret : list (Codec.oprow * option (list byte)) -> res A) (props_of : A -> res P)
         (ast_view : VA -> A -> R) (props_view : VP -> P -> R)
         (safety_view : list (Codec.oprow * option (list byte)) -> P -> R)
         (fresh_view : VF -> list (Codec.oprow * option (list byte)) -> R) (err_ans : err -> R),
  forall k bs off r, Codec.load_model k bs off = Codec.LOk r ->
  exists d r',
    Codec.dumps (Codec.l_ops r) = Ok d /\
    Codec.load_model Codec.KBytes d 0 = Codec.LOk r' /\
    Codec.l_end r' = List.length d /\
    map strip (Codec.l_ops r') = map strip (Codec.l_ops r) /\
    Codec.dumps (Codec.l_ops r') = Ok d /\
    forall qs1 qs2 q,
      fst (run_query interpret props_of ast_view props_view safety_view fresh_view err_ans q
             (run_queries interpret props_of ast_view props_view safety_view fresh_view err_ans qs1
                (fresh (map strip (Codec.l_ops r'))))) =
      fst (run_query interpret props_of ast_view props_view safety_view fresh_view err_ans q
             (run_queries interpret props_of ast_view props_view safety_view fresh_view err_ans qs2
                (fresh (map strip (Codec.l_ops r))))).
Proof.
  intros A P R VA VP VF interpret props_of ast_view props_view safety_view fresh_view err_ans
         k bs off r H.
  destruct (reparse_strip k bs off r H) as (d & r' & D & L & E & S & D').
  exists d, r'. repeat (split; [assumption|]). rewrite S.
  apply queries_order_irrelevant. apply fresh_ok.
Qed.

(* non-vacuity: pickle.dumps([1, 'a'], 2) loaded from offset 2 of a seekable stream that has another
   pickle before it and a truncated opcode after it; and the same through a non-seekable reader *)
Definition ex_b : list byte :=
  [x80; x02; x5d; x71; x00; x28; x4b; x01; x58; x01; x00; x00; x00; x61; x65; x2e].
Example C13_nonvacuous_reparse :
  exists r r' r2,
    Codec.load_model Codec.KSeekable ([x4e; x2e] ++ ex_b ++ [x4b]) 2 = Codec.LOk r /\
    List.length (Codec.l_ops r) = 8 /\ Codec.dumps (Codec.l_ops r) = Ok ex_b /\
    Codec.load_model Codec.KBytes ex_b 0 = Codec.LOk r' /\ Codec.l_end r' = 16 /\
    map strip (Codec.l_ops r') = map strip (Codec.l_ops r) /\ Codec.l_ops r' <> Codec.l_ops r /\
    Codec.load_model Codec.KNonSeekable ([x4e; x2e] ++ ex_b ++ [x4b]) 2 = Codec.LOk r2.
Proof.
  eexists. eexists. eexists. split; [vm_compute; reflexivity|]. split; [reflexivity|].
  split; [vm_compute; reflexivity|]. split; [vm_compute; reflexivity|]. split; [reflexivity|].
  split; [vm_compute; reflexivity|]. split; [vm_compute; discriminate|]. vm_compute. reflexivity.
Qed.

(* Hash seed.  The iteration order of the Python set `defined - used` in
   Interpreter.unused_assignments is the parameter [pi] -- ANY permutation.  On the instance built
   from the executable models (Interp, Unparse, Analysis): after any questions, under any [pi], the
   decompiled text, every import / call summary, the trace and dumps are EQUAL to those of a fresh
   object under the reference order; check_safety gives the same verdict and the same SET of
   findings (the lists are permutations of each other). *)
Theorem C13_hashseed_independent : forall crepr std pi, (forall l, Permutation (pi l) l) ->
  forall l qs q,
  let a := fst (inst_run_query crepr std pi q (inst_run_queries crepr std pi qs (fresh l))) in
  let b := fst (inst_run_query crepr std pi_id q (fresh l)) in
  ans_equiv a b /\
  (forall v, q = QAst v -> a = b) /\
  (forall v, q = QProps v -> a = b) /\
  (forall v, q = QFresh v -> a = b) /\
  (forall f1 f2, a = ASafety (Some f1) -> b = ASafety (Some f2) ->
     verdict f1 = verdict f2 /\ forall f, In f f1 <-> In f f2).
Proof. exact hashseed_independent. Qed.

(* with the reference order and one interpretation, check_safety of the machine is exactly
   Analysis.analyze, the function C04 / C19 are proved about *)
Theorem C13_safety_is_analyze : forall crepr std names protos s d,
  run_all2 crepr std pi_id names protos s s d = run_all crepr std names protos s d.
Proof. exact run_all2_id. Qed.

(* ---- witnesses ---- *)
Definition X0 (i : nat) (o : op) : xop := mkX i o (Ok [EmptyString]) None.
(* cos\ngetcwd\n)R0 cos\ngetpid\n)R0 N. : two unused variables *)
Definition two_unused : list xop :=
  [X0 0 (OGlobal "os" "getcwd"); X0 1 OEmptyTuple; X0 2 OReduce; X0 3 OPop;
   X0 4 (OGlobal "os" "getpid"); X0 5 OEmptyTuple; X0 6 OReduce; X0 7 OPop;
   X0 8 (OConst CNone); X0 9 OStop].
Definition crepr0 (c : const) : string := "None"%string.
Definition std0 (m : string) : bool := true.

(* non-vacuity: a permutation other than the identity, a program with findings, a non-trivial
   history of questions; the verdict is SUSPICIOUS-or-worse and there are >= 2 findings *)
Example C13_nonvacuous :
  (forall l : list (nat * expr), Permutation (rev l) l) /\
  exists fs,
    fst (inst_run_query crepr0 std0 (@rev _) QSafety
           (inst_run_queries crepr0 std0 (@rev _) [QAst VUnparse; QProps VHasCall; QSafety; QFresh VTrace]
              (fresh two_unused))) = ASafety (Some fs) /\
    2 <= List.length fs /\ 2 <= verdict fs.
Proof.
  split; [intros l; apply Permutation_sym, Permutation_rev|].
  eexists. split; [vm_compute; reflexivity|]. vm_compute. split; repeat constructor.
Qed.

(* OBSERVATION (stated, not claimed otherwise): the ORDER of the findings list -- and hence
   detailed_results()["UnusedVariables"], a dict keyed by analysis name -- does depend on [pi] *)
Example C13_finding_order_depends_on_seed_observation :
  fst (inst_run_query crepr0 std0 (@rev _) QSafety (fresh two_unused)) <>
  fst (inst_run_query crepr0 std0 pi_id QSafety (fresh two_unused)).
Proof. vm_compute. intros H. discriminate H. Qed.

(* DEFECT of the unrepaired tree (repaired by notes/fix_properties_cache.patch): `properties` caches
   an empty ASTProperties before the decompilation that raises.  Pickle `0.` (POP on the empty
   stack; accepted by Pickled.load): has_import raises IndexError the first time and answers False
   the second time. *)
Example C13_refuted_unrepaired_properties_cache :
  exists l s1,
    unrepaired_props_query std0 VHasImport (fresh l) = (AErr EIndex, s1) /\
    fst (unrepaired_props_query std0 VHasImport s1) = ABool false.
Proof.
  exists [X0 0 OPop; X0 1 OStop]. eexists. split; [vm_compute; reflexivity|]. vm_compute. reflexivity.
Qed.

Print Assumptions C13_queries_idempotent.
Print Assumptions C13_fresh_object.
Print Assumptions C13_order_irrelevant.
Print Assumptions C13_reparse_same.
Print Assumptions C13_hashseed_independent.
Print Assumptions C13_safety_is_analyze.
Print Assumptions C13_refuted_unrepaired_properties_cache.
