(* C06 -- Parse / re-serialise is byte-exact; stacked pickles partition the input.
   Only the property theorems (closed by [exact]), non-vacuity examples, the regression example of
   the repaired finding D12, and the assumptions.  Model: model/Codec.v; lemmas: proofs/CodecProofs.v.
   All statements quantify over ALL byte lists and ALL start offsets; no length bound. *)
From Coq Require Import List String ZArith NArith Bool Arith.
From Coq.Strings Require Import Byte.
From Verif Require Import Base OpTable Codec CodecProofs.
Import ListNotations.
Local Open Scope nat_scope.
Local Open Scope list_scope.

(* The facts about the regenerated opcode table the theorems rest on (re-checked by computation
   against the live pickletools / fickling tables on every run): every reader is one the model
   knows; the opcode genops stops at is the argument-less STOP; a positive arg.n -- the number of
   bytes Pickled.load reads at once -- is exactly what that opcode's reader consumes. *)
Theorem C06_table_obligations : forallb row_ok op_table = true.
Proof. exact table_ok. Qed.

(* The tokeniser: tokens are contiguous from the start offset, the last one is the one-byte STOP, no
   earlier one is, everything lies inside the data; the fuel never runs out. *)
Theorem C06_tokenize_sound : forall bs pos ts,
  tokenize bs pos = Ok ts ->
  chain bs pos ts /\
  (exists ts' tl, ts = ts' ++ [tl] /\ row_name (t_row tl) = "STOP"%string /\ t_len tl = 1 /\
                  forallb (fun t => negb (is_stop t)) ts' = true) /\
  pos < sum_len ts + pos <= List.length bs.
Proof. exact tokenize_sound. Qed.

Theorem C06_no_fuel : forall bs pos,
  tokenize bs pos <> Err EFuel /\ stacked_stream bs pos <> LErr (LOther EFuel).
Proof. intros bs pos. exact (conj (tokenize_no_fuel bs pos) (stacked_no_fuel bs pos)). Qed.

(* The success domain of the parse: Pickled.load succeeds exactly on the streams on which the stock
   token loop reaches STOP and every opcode has a fickling class (one opcode per token, at the token's
   position); an opcode without a class is refused with NotImplementedError; a tokeniser ValueError
   becomes EmptyPickleError / PickleDecodeError (or NotImplementedError if an unsupported opcode came
   first).  So the hypothesis of the theorems below holds for EVERY stream that begins with a complete
   pickle over supported opcodes. *)
Theorem C06_accepts_complete : forall bs o ts,
  tokenize bs o = Ok ts ->
  (forallb (fun t => row_has_class (t_row t)) ts = true ->
     exists r, load_model KSeekable bs o = LOk r /\
               map o_row (l_ops r) = map t_row ts /\ map o_pos (l_ops r) = map t_pos ts) /\
  (forallb (fun t => row_has_class (t_row t)) ts = false -> load_model KSeekable bs o = LErr LNotImpl).
Proof. exact load_accepts. Qed.

Theorem C06_rejects_incomplete : forall bs o e,
  tokenize bs o = Err e ->
  exists x, load_model KSeekable bs o = LErr x /\
            (e = EValue -> x = LEmpty \/ x = LDecode \/ x = LNotImpl).
Proof. exact load_rejects. Qed.

(* Seekable stream at ANY offset o: whenever Pickled.load succeeds, dumps() is exactly the bytes
   bs[o, e); the parse starts at o and ends in a STOP whose end is e; the stream is left at e; what
   the caller can still read is exactly bs[e:]; nothing is lost: bs = bs[:o] ++ dumps ++ bs[e:]. *)
Theorem C06_dumps_exact : forall bs o r,
  load_model KSeekable bs o = LOk r ->
  dumps (l_ops r) = Ok (firstn (l_end r - o) (skipn o bs)) /\
  ends_in_stop (l_ops r) (l_end r) /\ starts_at (l_ops r) o /\
  o < l_end r <= List.length bs /\
  l_caller r = Some (l_end r) /\
  caller_rest bs r = Some (skipn (l_end r) bs) /\
  bs = firstn o bs ++ firstn (l_end r - o) (skipn o bs) ++ skipn (l_end r) bs.
Proof. exact seekable_exact. Qed.

(* bytes / bytearray *)
Theorem C06_dumps_exact_bytes : forall bs o r,
  load_model KBytes bs o = LOk r ->
  dumps (l_ops r) = Ok (firstn (l_end r) bs) /\
  ends_in_stop (l_ops r) (l_end r) /\ starts_at (l_ops r) 0 /\
  0 < l_end r <= List.length bs /\ l_caller r = None.
Proof. exact bytes_exact. Qed.

(* What follows a complete pickle does not influence its tokens or its parse, and what precedes
   it only shifts positions. *)
Theorem C06_prefix_determinism : forall pre b rest,
  (forall ts, tokenize b 0 = Ok ts ->
     tokenize (b ++ rest) 0 = Ok ts /\
     tokenize (pre ++ b ++ rest) (List.length pre) = Ok (map (shift_tok (List.length pre)) ts)) /\
  (forall r, load_model KSeekable b 0 = LOk r ->
     load_model KSeekable (pre ++ b ++ rest) (List.length pre) = LOk (shift_loaded (List.length pre) r) /\
     dumps (l_ops (shift_loaded (List.length pre) r)) = dumps (l_ops r)) /\
  (forall r o o', load_model KBytes b o = LOk r -> load_model KBytes (b ++ rest) o' = LOk r).
Proof.
  intros pre b rest.
  exact (conj (fun ts H => conj (tokenize_rest_irrelevant b rest ts H) (tokenize_prefix pre b rest ts H))
        (conj (fun r H => conj (seekable_prefix pre b rest r H) (dumps_shift (List.length pre) (l_ops r)))
              (fun r o o' H => bytes_rest_irrelevant b rest r o o' H))).
Qed.

(* Stacked pickles: for ANY number of complete pickles b_1..b_k (each accepted by load exactly, with
   parse p_i), the stack parsed from their concatenation has exactly k elements, element i is p_i
   shifted to where b_i starts, and re-serialises to b_i. *)
Theorem C06_stacked_partition : forall items,
  items <> [] ->
  Forall (fun bp => complete (fst bp) (snd bp)) items ->
  stacked_load KBytes (List.concat (map fst items)) 0
    = LOk (shift_parts 0 items, List.length (List.concat (map fst items))) /\
  List.length (shift_parts 0 items) = List.length items /\
  Forall2 (fun part bp => dumps part = Ok (fst bp)) (shift_parts 0 items) items.
Proof. exact stacked_bytes_partition. Qed.

(* ... also on a seekable stream at an offset, followed by anything that does not start a pickle *)
Theorem C06_stacked_partition_seekable : forall items pre tail,
  items <> [] ->
  Forall (fun bp => complete (fst bp) (snd bp)) items ->
  load_stream (pre ++ List.concat (map fst items) ++ tail)
              (List.length pre + List.length (List.concat (map fst items))) = LErr LEmpty ->
  stacked_load KSeekable (pre ++ List.concat (map fst items) ++ tail) (List.length pre)
    = LOk (shift_parts (List.length pre) items, List.length pre + List.length (List.concat (map fst items))) /\
  List.length (shift_parts (List.length pre) items) = List.length items /\
  Forall2 (fun part bp => dumps part = Ok (fst bp)) (shift_parts (List.length pre) items) items.
Proof. exact stacked_seekable_partition. Qed.

(* ... and for ANY input whatsoever: if the stacked parse returns, its elements concatenated
   re-serialise to exactly the bytes from the start to the end of the last accepted pickle, there is
   at least one element, and each ends in STOP. *)
Theorem C06_stacked_sound : forall buf start parts e,
  stacked_stream buf start = LOk (parts, e) ->
  dumps (List.concat parts) = Ok (firstn (e - start) (skipn start buf)) /\
  start <= e /\ parts <> [] /\ Forall (fun p => exists q, ends_in_stop p q) parts.
Proof. exact stacked_stream_sound. Qed.

(* ... and on a non-seekable stream that has already handed out [pre]: the reader is shared by the
   loop's Pickled.load calls, positions count from the first pickle *)
Theorem C06_stacked_partition_nonseekable : forall items pre tail,
  items <> [] ->
  Forall (fun bp => complete (fst bp) (snd bp)) items ->
  load_stream (List.concat (map fst items) ++ tail) (List.length (List.concat (map fst items))) = LErr LEmpty ->
  stacked_load KNonSeekable (pre ++ List.concat (map fst items) ++ tail) (List.length pre)
    = LOk (shift_parts 0 items, List.length (List.concat (map fst items))) /\
  List.length (shift_parts 0 items) = List.length items /\
  Forall2 (fun part bp => dumps part = Ok (fst bp)) (shift_parts 0 items) items.
Proof. exact stacked_nonseekable_partition. Qed.

(* Non-seekable stream that has already handed out off bytes (fickle._RecordingReader): whenever
   Pickled.load succeeds, dumps() is exactly the e bytes of the first pickle, bs[off, off+e); the parse
   ends in a STOP whose end is e (the reader's coordinates start at 0); the CALLER's stream has handed out
   exactly those e bytes -- it stands at off+e --, what it can still deliver is exactly bs[off+e:], and
   nothing is lost: bs = bs[:off] ++ dumps ++ bs[off+e:]. *)
Theorem C06_nonseekable : forall bs off r,
  load_model KNonSeekable bs off = LOk r ->
  dumps (l_ops r) = Ok (firstn (l_end r) (skipn off bs)) /\
  ends_in_stop (l_ops r) (l_end r) /\ starts_at (l_ops r) 0 /\
  0 < l_end r /\ off + l_end r <= List.length bs /\
  l_caller r = Some (off + l_end r) /\
  caller_rest bs r = Some (skipn (off + l_end r) bs) /\
  bs = firstn off bs ++ firstn (l_end r) (skipn off bs) ++ skipn (off + l_end r) bs.
Proof. exact nonseekable_exact. Qed.

(* Why the recording reader is enough.  At the loop iteration for token t the reader holds the bytes
   genops has taken so far, [recorded buf t] = the first t_pos+t_len bytes; the back-fill of the previous
   opcode and the data of the new one computed from THOSE bytes alone are what a random-access stream
   over the whole input gives -- for every buffer, every well-formed token, every opcode list -- hence
   the whole load is the load over a buffer. *)
Theorem C06_reads_within_recorded : forall buf t acc,
  tok_ok buf t ->
  backfill (recorded buf t) acc (t_pos t) = backfill buf acc (t_pos t) /\
  immediate_data (recorded buf t) t = immediate_data buf t.
Proof. exact loop_step_from_recorded. Qed.

Theorem C06_recording_reader_transparent : forall buf start,
  load_stream_rec buf start = load_stream buf start.
Proof. exact load_stream_rec_eq. Qed.

(* ---- witnesses / non-vacuity ---- *)
(* pickle.dumps([1, 'a'], 2) = \x80\x02]q\x00(K\x01X\x01\x00\x00\x00ae. *)
Definition ex_b : list byte :=
  [x80; x02; x5d; x71; x00; x28; x4b; x01; x58; x01; x00; x00; x00; x61; x65; x2e].
Definition ex_none : list byte := [x4e; x2e].    (* N. *)

(* REGRESSION of the repaired finding D12: "N.N." through a non-seekable reader -- the parse is exact,
   the second pickle is still in the caller's stream, a second Pickled.load on the same stream (which has
   by then handed out 2 bytes) returns it, and StackedPickle.load yields both. *)
Example C06_nonseekable_tail_kept :
  exists r r2, load_model KNonSeekable (ex_none ++ ex_none) 0 = LOk r /\
               dumps (l_ops r) = Ok ex_none /\ l_end r = 2 /\ l_caller r = Some 2 /\
               caller_rest (ex_none ++ ex_none) r = Some ex_none /\
               load_model KNonSeekable (ex_none ++ ex_none) 2 = LOk r2 /\
               dumps (l_ops r2) = Ok ex_none /\ caller_rest (ex_none ++ ex_none) r2 = Some [] /\
               exists ps, stacked_load KNonSeekable (ex_none ++ ex_none) 0 = LOk (ps, 4) /\ List.length ps = 2.
Proof.
  eexists. eexists. split; [vm_compute; reflexivity|].
  do 4 (split; [vm_compute; reflexivity|]).
  split; [vm_compute; reflexivity|].
  do 2 (split; [vm_compute; reflexivity|]).
  eexists. split; [vm_compute; reflexivity|]. reflexivity.
Qed.

Example C06_nonvacuous_nonseekable :
  exists r, load_model KNonSeekable (ex_none ++ ex_b ++ [x4b]) 2 = LOk r /\
            l_end r = 16 /\ l_caller r = Some 18 /\ dumps (l_ops r) = Ok ex_b /\
            caller_rest (ex_none ++ ex_b ++ [x4b]) r = Some [x4b].
Proof. eexists. split; [vm_compute; reflexivity|]. vm_compute. repeat split. Qed.

Example C06_nonvacuous_recorded :
  exists r, lookup x58 = Some r /\ tok_ok ex_b (mkTok r 8 6) /\
            recorded ex_b (mkTok r 8 6) = firstn 14 ex_b.
Proof.
  eexists. split; [vm_compute; reflexivity|]. split; [unfold tok_ok; vm_compute; reflexivity|]. reflexivity.
Qed.

Example C06_nonvacuous_load :
  exists r, load_model KSeekable (ex_none ++ ex_b ++ [x4b]) 2 = LOk r /\
            l_end r = 18 /\ List.length (l_ops r) = 8 /\ dumps (l_ops r) = Ok ex_b.
Proof. eexists. split; [vm_compute; reflexivity|]. vm_compute. repeat split. Qed.

Example C06_nonvacuous_complete : exists p q, complete ex_b p /\ complete ex_none q /\
  tokenize ex_b 0 <> Err EValue.
Proof.
  eexists. eexists. split; [unfold complete; vm_compute; reflexivity|].
  split; [unfold complete; vm_compute; reflexivity|]. vm_compute. discriminate.
Qed.

Example C06_nonvacuous_stacked :
  exists ps, stacked_load KBytes (ex_b ++ ex_none ++ ex_b) 0 = LOk (ps, 34) /\ List.length ps = 3.
Proof. eexists. split; [vm_compute; reflexivity|]. reflexivity. Qed.

(* refusals are values, not exceptions of the model: truncated / unknown opcode / no class *)
Example C06_refusals :
  load_model KBytes [x4b] 0 = LErr LEmpty /\                      (* BININT1 without its byte *)
  load_model KBytes [x4e; x4b] 0 = LErr LDecode /\                (* NONE, then truncated *)
  load_model KBytes [xff] 0 = LErr LEmpty /\                      (* unknown opcode *)
  load_model KBytes [x46; x31; x0a; x2e] 0 = LErr LNotImpl.       (* FLOAT: no class *)
Proof. vm_compute. repeat split. Qed.

Print Assumptions C06_table_obligations.
Print Assumptions C06_tokenize_sound.
Print Assumptions C06_no_fuel.
Print Assumptions C06_accepts_complete.
Print Assumptions C06_rejects_incomplete.
Print Assumptions C06_dumps_exact.
Print Assumptions C06_dumps_exact_bytes.
Print Assumptions C06_prefix_determinism.
Print Assumptions C06_stacked_partition.
Print Assumptions C06_stacked_partition_seekable.
Print Assumptions C06_stacked_sound.
Print Assumptions C06_stacked_partition_nonseekable.
Print Assumptions C06_nonseekable.
Print Assumptions C06_reads_within_recorded.
Print Assumptions C06_recording_reader_transparent.
Print Assumptions C06_nonseekable_tail_kept.
