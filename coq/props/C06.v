From Verif Require Import Base Codec CodecProofs.
