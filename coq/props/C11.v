(* C11 -- User allowlist additions do not outlive or leak beyond their activation.
   Model: model/Allowlist.v (heap of inner dicts, so that sharing is representable);
   lemmas: proofs/AllowlistProofs.v.  The theorems are about [copy_deep], the behaviour of
   FicklingMLUnpickler.__init__ WITH the proposed fix notes/fix_allowlist_copy.patch (the
   differential check decides which variant the code under test implements); the pinned tree's
   [copy_shallow] is refuted below (defect D4). *)
From Coq Require Import List String Bool Arith.
From Verif Require Import Base MLTable Allowlist AllowlistProofs AddSplit AddSplitProofs.
Import ListNotations.
Local Open Scope list_scope.
Local Open Scope string_scope.

(* After ANY history of activate / deactivate / construct-unpickler / probe operations (any
   length, any additions), a probe load resolves g iff g is in the built-in table or in the
   additions of the activation currently in force -- nothing from earlier activations, other
   instances or deactivated environments; with no environment active the load is unmediated. *)
Theorem C11_permitted_exact : forall h g,
  observe copy_deep (run copy_deep init h) (Probe g) =
  Some (match current_adds None h with
        | Some a => of_bool (spec_permits a g)
        | None => Unmediated
        end).
Proof. exact permitted_exact. Qed.

(* Using the feature never alters the module-level table (the one the MLAllowlist analysis
   reads): a deep snapshot after any history equals the initial one, which is the generated
   table with built-in messages only. *)
Theorem C11_base_unchanged : forall h,
  table_view (run copy_deep init h) = table_view init /\
  table_view init = map (fun mn => (fst mn, map base_item (snd mn))) ml_allowlist.
Proof. exact (fun h => conj (base_unchanged h) table_is_base). Qed.

(* An unpickler constructed directly keeps exactly BASE + its own additions, whatever is
   activated, constructed or probed afterwards (additions do not travel between instances). *)
Theorem C11_instance_exact : forall h i g,
  observe copy_deep (run copy_deep init h) (ProbeInst i g) =
  Some (match nth_error (constructed h) i with
        | Some a => of_bool (spec_permits a g)
        | None => NoSuchInstance
        end).
Proof. exact instance_exact. Qed.

(* The additions as the caller writes them -- STRINGS, cut by rsplit(".", 1) in FicklingMLUnpickler.__init__
   (model/AddSplit.v): when every addition contains a dot the constructor succeeds and the pair (m, n) is
   permitted iff it is in the built-in table, or the text m.n was passed AND n has no dot.  So an addition
   permits exactly one pair: not the same text cut at another dot, not its name in another module. *)
Theorem C11_addition_strings_exact : forall adds m n,
  (forall s, In s adds -> nodot s = false) ->
  exists b, permits_strings adds (m, n) = Some b /\
            (b = true <-> (in_base (m, n) = true \/ (In (m ++ "." ++ n) adds /\ nodot n = true))).
Proof. exact permits_strings_exact. Qed.

(* an addition without a dot: the constructor raises, nothing is permitted through it *)
Theorem C11_addition_without_dot_raises : forall adds s g,
  In s adds -> nodot s = true -> permits_strings adds g = None.
Proof. exact no_dot_raises. Qed.

Theorem C11_split_exact : forall s m n,
  rsplit_dot s = Some (m, n) <-> (s = m ++ "." ++ n /\ nodot n = true).
Proof. exact rsplit_exact. Qed.

(* non-vacuity, and the two shapes of seeded changes C07 r4a / r4b: a two-dot addition permits
   (collections.abc, Mapping) and not (collections, abc.Mapping), although both read "collections.abc.Mapping";
   two additions in two unknown modules do not permit each other's names *)
Example C11_addition_strings_nonvacuous :
  permits_strings ["collections.abc.Mapping"] ("collections.abc", "Mapping") = Some true /\
  permits_strings ["collections.abc.Mapping"] ("collections", "abc.Mapping") = Some false /\
  permits_strings ["fractions.Fraction"; "decimal.Decimal"] ("fractions", "Fraction") = Some true /\
  permits_strings ["fractions.Fraction"; "decimal.Decimal"] ("fractions", "Decimal") = Some false /\
  permits_strings ["fractions.Fraction"; "decimal.Decimal"] ("decimal", "Fraction") = Some false /\
  permits_strings ["fractions.Fraction"; "nodot"] ("fractions", "Fraction") = None /\
  rsplit_dot "a." = Some ("a", "") /\ rsplit_dot ".a" = Some ("", "a") /\ rsplit_dot "" = None.
Proof. vm_compute. repeat split. Qed.

(* ---- non-vacuity: histories in which the additions matter ---- *)
Definition np_zeros : gname := ("numpy", "zeros").
Definition np_dtype : gname := ("numpy", "dtype").
Definition od : gname := ("fractions", "Fraction").            (* a module NOT in the table *)
Definition counter : gname := ("collections", "Counter").     (* new member of an allow-listed module *)

Example C11_nonvacuous :
  let h := [Activate [np_zeros; od]; Probe np_zeros; Construct [od]; Deactivate; Activate []] in
  current_adds None h = Some [] /\
  observe copy_deep (run copy_deep init h) (Probe np_zeros) = Some Blocked /\
  observe copy_deep (run copy_deep init h) (Probe np_dtype) = Some Allowed /\
  observe copy_deep (run copy_deep init [Activate [np_zeros; od]]) (Probe np_zeros) = Some Allowed /\
  observe copy_deep (run copy_deep init h) (ProbeInst 0 od) = Some Allowed /\
  observe copy_deep (run copy_deep init h) (ProbeInst 0 np_zeros) = Some Blocked /\
  in_base np_dtype = true /\ in_base np_zeros = false /\ in_base od = false /\
  in_base counter = false /\ in_base ("collections", "OrderedDict") = true.
Proof. vm_compute. repeat split. Qed.

(* ---- the pinned tree (shallow copy), defect D4 ---- *)

(* An addition that names a new member of an allow-listed module is written into the shared
   inner dict by the first load: it stays permitted after deactivation and re-activation with
   no additions ... *)
Lemma C11_refuted_member_persists :
  let h := [Activate [np_zeros]; Probe np_zeros; Deactivate; Activate []] in
  current_adds None h = Some [] /\ spec_permits [] np_zeros = false /\
  observe copy_shallow (run copy_shallow init h) (Probe np_zeros) = Some Allowed.
Proof. vm_compute. repeat split. Qed.

(* ... the module-level table itself is altered ... *)
Lemma C11_refuted_base_altered :
  let h := [Activate [np_zeros]; Probe np_dtype] in
  table_delta (run copy_shallow init h) = [("numpy", ["zeros"])] /\
  view_eqb (table_view (run copy_shallow init h)) (table_view init) = false.
Proof. vm_compute. repeat split. Qed.

(* ... and the addition of one directly constructed instance leaks into every other one. *)
Lemma C11_refuted_instance_leak :
  let h := [Construct [counter]; Construct []] in
  nth_error (constructed h) 1 = Some [] /\
  observe copy_shallow (run copy_shallow init h) (ProbeInst 1 counter) = Some Allowed.
Proof. vm_compute. repeat split. Qed.

(* Additions naming NEW modules do not leak even with the shallow copy, which is why the test
   suite (whose only addition set names pickle / _pickle) cannot see D4. *)
Lemma C11_new_module_ok_observation :
  let h := [Activate [od]; Probe od; Deactivate; Activate []] in
  observe copy_shallow (run copy_shallow init h) (Probe od) = Some Blocked /\
  view_eqb (table_view (run copy_shallow init h)) (table_view init) = true.
Proof. vm_compute. repeat split. Qed.

Print Assumptions C11_permitted_exact.
Print Assumptions C11_base_unchanged.
Print Assumptions C11_instance_exact.
Print Assumptions C11_addition_strings_exact.
Print Assumptions C11_addition_without_dot_raises.
Print Assumptions C11_split_exact.
