(* C09 -- Stepping and tracing mirror the real pickle VM opcode by opcode. *)
From Coq Require Import List String ZArith Bool Arith.
From Verif Require Import Base Ops Interp RefVM Shape ShapeProofs.
Import ListNotations.
Local Open Scope nat_scope.

(* Both machines follow the same abstract shape machine, one opcode at a time. *)
Theorem C09_interp_follows_shape : forall o s s',
  step o s = Ok s' -> sh_step o (shape_fk s) = Some (shape_fk s').
Proof. exact fk_follows_shape. Qed.

Theorem C09_refvm_follows_shape : forall o s s',
  vstep o s = Ok s' -> sh_step o (shape_vm s) = Some (shape_vm s').
Proof. exact vm_follows_shape. Qed.

(* For every program (any length) and every prefix length i: if both machines accept the first
   i+1 opcodes, then after them the symbolic stack has the same depth and mark positions and the
   memo the same keys as the reference VM (and both have, or have not, reached STOP). *)
Theorem C09_shape_lockstep : forall p first_var i s' v',
  nth_error (trace_from p (fk_init first_var)) i = Some (Ok s') ->
  nth_error (vtrace_from p vm_init) i = Some (Ok v') ->
  shape_fk s' = shape_vm v'.
Proof.
  intros p n. exact (shape_lockstep_from p (fk_init n) vm_init (init_shapes n)).
Qed.

(* Tracing is passive: it reports exactly the executed prefix -- every opcode once, in order, up to
   and including the first STOP -- and ends in the state untraced interpretation ends in. *)
Theorem C09_trace_passive : forall p s l s2,
  traced_from p s = Ok (l, s2) ->
  run_from p s = Ok s2 /\ exists rest, p = (l ++ rest)%list /\ (rest = [] \/ stopped s2 = true).
Proof. exact traced_is_run. Qed.

Theorem C09_trace_total : forall p s s2,
  run_from p s = Ok s2 -> exists l, traced_from p s = Ok (l, s2).
Proof. exact run_is_traced. Qed.

(* non-vacuity: a protocol-4 set {1} built with ADDITEMS, memoised, followed by opcodes that need
   the set; both machines accept all 9 opcodes and agree after each *)
Definition demo : list op :=
  [ONoop; OEmptySet; OMemoize; OMark; OConst (CInt 1); OAddItems; ODup; OTuple2; OStop].
Example C09_nonvacuous :
  List.length (trace_from demo (fk_init 0)) = 9 /\
  List.length (vtrace_from demo vm_init) = 9 /\
  forallb (fun r => match r with Ok _ => true | Err _ => false end) (trace_from demo (fk_init 0)) = true /\
  forallb (fun r => match r with Ok _ => true | Err _ => false end) (vtrace_from demo vm_init) = true.
Proof. vm_compute. auto. Qed.

Print Assumptions C09_interp_follows_shape.
Print Assumptions C09_refvm_follows_shape.
Print Assumptions C09_shape_lockstep.
Print Assumptions C09_trace_passive.
Print Assumptions C09_trace_total.
