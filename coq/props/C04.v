(* C04 -- Detection floor: dangerous imports and calls are never rated LIKELY_SAFE. *)
From Coq Require Import List String Ascii ZArith Bool Arith Lia.
From Verif Require Import Base Ops Interp RefVM Unparse Severity SeverityProofs AnalysisTable
  Analysis AnalysisProofs FloorProofs SimRel SimProofs.
Import ListNotations.
Local Open Scope nat_scope.

Section C04.
(* Python's repr of constants and stdlib membership are arbitrary parameters: the floors hold for
   every such function (the real ones are ast.unparse's constant printer and stdlib_list) *)
Variable crepr : const -> string.
Variable std : string -> bool.

(* documented lists of the property vs. the regenerated tables *)
Definition documented_dangerous : list string :=
  ["os"; "posix"; "nt"; "subprocess"; "sys"; "socket"; "shutil"; "urllib"; "torch.hub"; "dill"; "code"].
Definition documented_bad_calls : list string := ["eval"; "exec"; "compile"; "open"].

Theorem C04_tables_cover_documentation :
  forallb (fun m => mem_str m unsafe_modules) documented_dangerous = true /\
  forallb (fun f => mem_str f bad_calls) documented_bad_calls = true.
Proof. split; vm_compute; reflexivity. Qed.

Lemma mem_str_In x l : mem_str x l = true -> In x l.
Proof.
  induction l as [|y r IH]; cbn; [discriminate|].
  destruct (String.eqb_spec x y) as [->|_]; [left; reflexivity | right; auto].
Qed.

Lemma In_mem_str x l : In x l -> mem_str x l = true.
Proof.
  induction l as [|y r IH]; cbn; [tauto|]. intros [->|H].
  - rewrite String.eqb_refl. reflexivity.
  - destruct (String.eqb x y); auto.
Qed.

Lemma builtins_not_dangerous : forall b, In b builtins_modules ->
  forall d, In d documented_dangerous -> ~ In d (dotted_prefixes b).
Proof.
  assert (forallb (fun b => forallb (fun d => negb (mem_str d (dotted_prefixes b)))
                                    documented_dangerous) builtins_modules = true) as T
      by (vm_compute; reflexivity).
  intros b Hb d Hd Hin. rewrite forallb_forall in T. specialize (T b Hb).
  rewrite forallb_forall in T. specialize (T d Hd). apply In_mem_str in Hin. rewrite Hin in T. discriminate.
Qed.

(* (1) a global resolved from a module outside the standard library => at least LIKELY_UNSAFE,
   for every program both machines accept, whatever else the program does *)
Theorem C04_nonstd_import : forall p first_var s v protos fs m n,
  run_from p (fk_init first_var) = Ok s -> vrun_from p vm_init = Ok v ->
  analyze crepr std protos s = Some fs ->
  In (EvResolve m n) (log v) -> is_builtins m = false -> std m = false ->
  3 <= doc_rank (verdict fs).
Proof.
  intros p fv s v protos fs m n Hs Hv HA Hin Hb Hstd.
  destruct (run_lockstep p _ _ _ _ _ (R_init fv) Hs Hv) as (al & _ & [Rs Rm Rh Re Rc Rv Rp]).
  eapply body_floor_nonstd; eauto. eapply events_imports_covered; eauto.
Qed.

(* (2) a global from a documented dangerous module or a submodule of one (p ranges over the dotted
   prefixes of m, m itself included) => at least LIKELY_OVERTLY_MALICIOUS *)
Theorem C04_dangerous_module : forall p first_var s v protos fs m n d,
  run_from p (fk_init first_var) = Ok s -> vrun_from p vm_init = Ok v ->
  analyze crepr std protos s = Some fs ->
  In (EvResolve m n) (log v) -> In d (dotted_prefixes m) -> In d documented_dangerous ->
  4 <= doc_rank (verdict fs).
Proof.
  intros p fv s v protos fs m n d Hs Hv HA Hin Hd Hdoc.
  destruct (run_lockstep p _ _ _ _ _ (R_init fv) Hs Hv) as (al & _ & [Rs Rm Rh Re Rc Rv Rp]).
  assert (mem_str d unsafe_modules = true) as Hm.
  { destruct C04_tables_cover_documentation as [T _]. rewrite forallb_forall in T. apply T. exact Hdoc. }
  assert (is_builtins m = false) as Hb.
  { (* a documented dangerous name is never a dotted prefix of a builtins module name *)
    destruct (is_builtins m) eqn:B; [|reflexivity]. exfalso.
    apply mem_str_In in B. apply (builtins_not_dangerous m B d); [exact Hdoc | exact Hd]. }
  eapply body_floor_dangerous; eauto. eapply events_imports_covered; eauto.
Qed.

(* (3) a call of builtins eval / exec / compile / open made by ANY call-making opcode, whatever
   happens to its value: OVERTLY_MALICIOUS -- unless the callee was reached through a variable fickling
   itself introduced for it (BUILD / SETITEM applied to the global first): known finding D18 *)
Theorem C04_bad_call : forall p first_var s v protos fs b f args kw k,
  run_from p (fk_init first_var) = Ok s -> vrun_from p vm_init = Ok v ->
  analyze crepr std protos s = Some fs ->
  In (EvCall (VGlobal b f) args kw k) (log v) -> In f documented_bad_calls ->
  doc_rank (verdict fs) = 5 \/
  (exists i j es kwe, In (SAssignV i (ECall (EVar j) es kwe)) (body s)).
Proof.
  intros p fv s v protos fs b f args kw k Hs Hv HA Hin Hdoc.
  destruct (run_lockstep p _ _ _ _ _ (R_init fv) Hs Hv) as (al & _ & [Rs Rm Rh Re Rc Rv Rp]).
  destruct (events_calls_covered _ _ _ Re _ _ _ _ Hin) as (i & fe & es & kwe & Hst & Hf & _).
  inversion Hf; subst.
  - left. eapply body_floor_bad_call; eauto.
    destruct C04_tables_cover_documentation as [_ T]. rewrite forallb_forall in T.
    apply mem_str_In. exact (T f Hdoc).
  - right. eauto.
Qed.

(* the alias escape is real on the current tree: eval made a variable by BUILD, then called *)
Definition alias_escape : list op :=
  [OGlobal "builtins" "eval"; OConst CNone; OBuild; OMark; OConst (CStr "1"); OTuple; OReduce; OStop].
Example C04_refuted_alias_escape :
  match run alias_escape with
  | Ok s => match analyze (fun _ => "'1'"%string) (fun _ => true) [] s with
            | Some fs => doc_rank (verdict fs) = 3
            | None => False
            end
  | Err _ => False
  end.
Proof. vm_compute. reflexivity. Qed.

(* non-vacuity: OBJ-made exec call, popped; non-stdlib global only memoised *)
Example C04_nonvacuous :
  match run [OMark; OGlobal "__builtin__" "exec"; OConst (CStr "x"); OObj; OPop;
             OGlobal "evil.mod" "f"; OPut 0; OPop; OConst CNone; OStop] with
  | Ok s => match analyze (fun _ => "'x'"%string) (fun m => negb (String.eqb m "evil.mod")) [] s with
            | Some fs => doc_rank (verdict fs) = 5 /\ List.length fs = 4
            | None => False
            end
  | Err _ => False
  end.
Proof. vm_compute. auto. Qed.

End C04.

Print Assumptions C04_tables_cover_documentation.
Print Assumptions C04_nonstd_import.
Print Assumptions C04_dangerous_module.
Print Assumptions C04_bad_call.
