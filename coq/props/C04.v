(* C04 -- Detection floor: dangerous imports and calls are never rated LIKELY_SAFE. *)
From Coq Require Import List String Ascii ZArith Bool Arith Lia.
From Verif Require Import Base Ops Interp RefVM Unparse Severity SeverityProofs AnalysisTable
  Analysis AnalysisProofs FloorProofs OtherCallProofs SimRel SimProofs.
Import ListNotations.
Local Open Scope nat_scope.

Section C04.
(* Python's repr of constants and stdlib membership are arbitrary parameters: the floors hold for
   every such function (the real ones are ast.unparse's constant printer and stdlib_list) *)
Variable crepr : const -> string.
Variable std : string -> bool.

(* documented lists of the property vs. the regenerated tables *)
Definition documented_dangerous : list string :=
  ["os"; "posix"; "nt"; "subprocess"; "sys"; "socket"; "shutil"; "urllib"; "torch.hub"; "dill"; "code"].
Definition documented_bad_calls : list string := ["eval"; "exec"; "compile"; "open"].

Theorem C04_tables_cover_documentation :
  forallb (fun m => mem_str m unsafe_modules) documented_dangerous = true /\
  forallb (fun f => mem_str f bad_calls) documented_bad_calls = true.
Proof. split; vm_compute; reflexivity. Qed.

Lemma builtins_not_dangerous : forall b, In b builtins_modules ->
  forall d, In d documented_dangerous -> ~ In d (dotted_prefixes b).
Proof.
  assert (forallb (fun b => forallb (fun d => negb (mem_str d (dotted_prefixes b)))
                                    documented_dangerous) builtins_modules = true) as T
      by (vm_compute; reflexivity).
  intros b Hb d Hd Hin. rewrite forallb_forall in T. specialize (T b Hb).
  rewrite forallb_forall in T. specialize (T d Hd). apply In_mem_str in Hin. rewrite Hin in T. discriminate.
Qed.

(* either no stdlib import of the name [nm] is in the body, or one is (std is a decidable oracle) *)
Lemma classic_shadow b nm :
  (forall m', In (SImport m' nm) b -> std m' = false) \/ (exists m', In (SImport m' nm) b /\ std m' = true).
Proof.
  induction b as [|st r [IH|(m' & Hin & Hs)]].
  - left. intros m' [].
  - destruct st as [m n| | | |]; try (left; intros m' [H|H]; [discriminate | eauto]).
    destruct (String.eqb_spec n nm) as [->|Hne].
    + destruct (std m) eqn:S; [right; exists m; split; [left; reflexivity | exact S]|].
      left. intros m' [H|H]; [inversion H; subst; exact S | eauto].
    + left. intros m' [H|H]; [inversion H; subst; congruence | eauto].
  - right. exists m'. split; [right; exact Hin | exact Hs].
Qed.

(* (1) a global resolved from a module outside the standard library => at least LIKELY_UNSAFE,
   for every program both machines accept, whatever else the program does *)
Theorem C04_nonstd_import : forall p first_var s v protos fs m n,
  run_from p (fk_init first_var) = Ok s -> vrun_from p vm_init = Ok v ->
  analyze crepr std protos s = Some fs ->
  In (EvResolve m n) (log v) -> is_builtins m = false -> std m = false ->
  3 <= doc_rank (verdict fs).
Proof.
  intros p fv s v protos fs m n Hs Hv HA Hin Hb Hstd.
  destruct (run_lockstep p _ _ _ _ _ (R_init fv) Hs Hv) as (al & _ & [Rs Rm Rh Re Rc Rv Rp]).
  eapply body_floor_nonstd; eauto. eapply events_imports_covered; eauto.
Qed.

(* (2) a global from a documented dangerous module or a submodule of one (p ranges over the dotted
   prefixes of m, m itself included) => at least LIKELY_OVERTLY_MALICIOUS *)
Theorem C04_dangerous_module : forall p first_var s v protos fs m n d,
  run_from p (fk_init first_var) = Ok s -> vrun_from p vm_init = Ok v ->
  analyze crepr std protos s = Some fs ->
  In (EvResolve m n) (log v) -> In d (dotted_prefixes m) -> In d documented_dangerous ->
  4 <= doc_rank (verdict fs).
Proof.
  intros p fv s v protos fs m n d Hs Hv HA Hin Hd Hdoc.
  destruct (run_lockstep p _ _ _ _ _ (R_init fv) Hs Hv) as (al & _ & [Rs Rm Rh Re Rc Rv Rp]).
  assert (mem_str d unsafe_modules = true) as Hm.
  { destruct C04_tables_cover_documentation as [T _]. rewrite forallb_forall in T. apply T. exact Hdoc. }
  assert (is_builtins m = false) as Hb.
  { (* a documented dangerous name is never a dotted prefix of a builtins module name *)
    destruct (is_builtins m) eqn:B; [|reflexivity]. exfalso.
    apply mem_str_In in B. apply (builtins_not_dangerous m B d); [exact Hdoc | exact Hd]. }
  eapply body_floor_dangerous; eauto. eapply events_imports_covered; eauto.
Qed.

(* (3) a call of builtins eval / exec / compile / open made by ANY call-making opcode, whatever
   happens to its value: OVERTLY_MALICIOUS -- unless the callee was reached through a variable fickling
   itself introduced for it (BUILD / SETITEM applied to the global first): known finding D18 *)
Theorem C04_bad_call : forall p first_var s v protos fs b f args kw k,
  run_from p (fk_init first_var) = Ok s -> vrun_from p vm_init = Ok v ->
  analyze crepr std protos s = Some fs ->
  In (EvCall (VGlobal b f) args kw k) (log v) -> In f documented_bad_calls ->
  doc_rank (verdict fs) = 5 \/
  (exists i j es kwe, In (SAssignV i (ECall (EVar j) es kwe)) (body s)).
Proof.
  intros p fv s v protos fs b f args kw k Hs Hv HA Hin Hdoc.
  destruct (run_lockstep p _ _ _ _ _ (R_init fv) Hs Hv) as (al & _ & [Rs Rm Rh Re Rc Rv Rp]).
  destruct (events_calls_covered _ _ _ Re _ _ _ _ Hin) as (i & fe & es & kwe & Hst & Hf & _).
  inversion Hf; subst.
  - left. eapply body_floor_bad_call; eauto.
    destruct C04_tables_cover_documentation as [_ T]. rewrite forallb_forall in T.
    apply mem_str_In. exact (T f Hdoc).
  - right. eauto.
Qed.

(* the alias escape is real on the current tree: eval made a variable by BUILD, then called *)
Definition alias_escape : list op :=
  [OGlobal "builtins" "eval"; OConst CNone; OBuild; OMark; OConst (CStr "1"); OTuple; OReduce; OStop].
Example C04_refuted_alias_escape :
  match run alias_escape with
  | Ok s => match analyze (fun _ => "'1'"%string) (fun _ => true) [] s with
            | Some fs => doc_rank (verdict fs) = 3
            | None => False
            end
  | Err _ => False
  end.
Proof. vm_compute. reflexivity. Qed.

(* (4) any OTHER call -- (i) a builtin that is not one of the bad four, (ii) a global from a module outside
   the standard library, (iii) a computed callee (the result of an earlier call / persistent load) --
   made by any call-making opcode, whatever happens to its value: at least LIKELY_UNSAFE, for identifier-like
   names (no blank in the callee's name, no parenthesis in resolved module / attribute names).
   The shared de-duplication set cannot hide the call (proved through the Analysis.ALL order: when
   OvertlyBadEvals runs the set holds only import texts and texts BadCalls reported as OVERTLY_MALICIOUS).
   The one escape is OvertlyBadEvals' "likely safe" exemption, which goes by NAME only: some stdlib module's
   attribute with the name fickling prints for the callee -- the global's attribute name, or the _var<j>
   fickling introduced -- is resolved somewhere in the pickle (known finding D20-stdlib-name-shadow). *)
Definition other_callee (c : val) : Prop :=
  match c with
  | VGlobal m n => has_space n = false /\
                   ((is_builtins m = true /\ ~ In n documented_bad_calls) \/ (is_builtins m = false /\ std m = false))
  | VObj _ => True
  | _ => False
  end.

Definition shadowed (l : list event) (c : val) : Prop :=
  exists m' nm, In (EvResolve m' nm) l /\ is_builtins m' = false /\ std m' = true /\
                ((exists m, c = VGlobal m nm) \/ (exists j, nm = var_name j)).

Theorem C04_other_call : forall p first_var s v protos fs c args kw k,
  run_from p (fk_init first_var) = Ok s -> vrun_from p vm_init = Ok v ->
  analyze crepr std protos s = Some fs ->
  In (EvCall c args kw k) (log v) -> other_callee c ->
  (forall m n, In (EvResolve m n) (log v) -> has_paren m = false /\ has_paren n = false) ->
  3 <= doc_rank (verdict fs) \/ shadowed (log v) c.
Proof.
  intros p fv s v protos fs c args kw k Hs Hv HA Hin Hc Hident.
  destruct (run_lockstep p _ _ _ _ _ (R_init fv) Hs Hv) as (al & _ & [Rs Rm Rh Re Rc Rv Rp]).
  destruct (events_calls_covered _ _ _ Re _ _ _ _ Hin) as (i & fe & es & kwe & Hst & Hf & _).
  assert (exists nm, callee_name fe = Some nm /\ has_space nm = false /\
                     ((exists m, c = VGlobal m nm) \/ (exists j, nm = var_name j))) as (nm & Hnm & Hsp & Hkind).
  { inversion Hf; subst; cbn in Hc; try contradiction.
    - destruct Hc as [Hsp _]. exists n. split; [reflexivity|]. split; [exact Hsp | left; eauto].
    - eexists. split; [reflexivity|]. split; [apply var_name_nospace | right; eauto]. }
  destruct (classic_shadow (body s) nm) as [Hno|(m' & Hin' & Hstd)].
  - left. eapply body_floor_other_call; eauto.
    intros m n Hi. destruct (events_imports_sound _ _ _ Re m n Hi) as [Hr _]. exact (Hident m n Hr).
  - right. destruct (events_imports_sound _ _ _ Re m' nm Hin') as [Hr Hb].
    exists m', nm. repeat split; assumption.
Qed.

(* the escape is real on the current tree: math.pow resolved and dropped, builtins.pow called *)
Definition shadow_escape : list op :=
  [OGlobal "math" "pow"; OPop; OGlobal "builtins" "pow"; OMark; OConst (CInt 2); OConst (CInt 3); OTuple;
   OReduce; OStop].
Example C04_other_call_refuted_shadow :
  match run shadow_escape, vrun shadow_escape with
  | Ok s, Ok v =>
      match analyze (fun _ => "2"%string) (fun m => String.eqb m "math") [] s with
      | Some fs => doc_rank (verdict fs) = 2 /\
                   In (EvCall (VGlobal "builtins" "pow") [VConst (CInt 2); VConst (CInt 3)] None 0) (log v)
      | None => False
      end
  | _, _ => False
  end.
Proof. vm_compute. split; [reflexivity | left; reflexivity]. Qed.

(* ... and with BUILD applied to the result nothing at all is reported: LIKELY_SAFE *)
Example C04_never_likely_safe_refuted_shadow :
  match run [OGlobal "math" "pow"; OPop; OGlobal "builtins" "pow"; OMark; OConst (CInt 2); OConst (CInt 3);
             OTuple; OReduce; OConst CNone; OBuild; OStop] with
  | Ok s => match analyze (fun _ => "2"%string) (fun m => String.eqb m "math") [] s with
            | Some fs => fs = [] /\ doc_rank (verdict fs) = 0
            | None => False
            end
  | Err _ => False
  end.
Proof. vm_compute. auto. Qed.

(* Corollary: never LIKELY_SAFE.  Whatever the opcode choice, protocol framing, memo use, surrounding
   data or fate of the values: a pickle that resolves a non-stdlib or documented-dangerous global is not
   rated LIKELY_SAFE; one that makes ANY call (bad four included: the alias escape D18 still yields
   LIKELY_UNSAFE) is not rated LIKELY_SAFE unless the callee's printed name is shadowed by a stdlib import. *)
Corollary C04_never_likely_safe : forall p first_var s v protos fs,
  run_from p (fk_init first_var) = Ok s -> vrun_from p vm_init = Ok v ->
  analyze crepr std protos s = Some fs ->
  (forall m n, In (EvResolve m n) (log v) -> has_paren m = false /\ has_paren n = false) ->
  (* imports *)
  (forall m n, In (EvResolve m n) (log v) -> is_builtins m = false ->
     std m = false \/ (exists d, In d (dotted_prefixes m) /\ In d documented_dangerous) ->
     1 <= doc_rank (verdict fs)) /\
  (* calls *)
  (forall c args kw k, In (EvCall c args kw k) (log v) ->
     match c with VGlobal _ n => has_space n = false | VObj _ => True | _ => False end ->
     1 <= doc_rank (verdict fs) \/ shadowed (log v) c).
Proof.
  intros p fv s v protos fs Hs Hv HA Hident. split.
  - intros m n Hin Hb [Hstd|(d & Hd & Hdoc)].
    + pose proof (C04_nonstd_import p fv s v protos fs m n Hs Hv HA Hin Hb Hstd). lia.
    + pose proof (C04_dangerous_module p fv s v protos fs m n d Hs Hv HA Hin Hd Hdoc). lia.
  - intros c args kw k Hin Hc.
    destruct (run_lockstep p _ _ _ _ _ (R_init fv) Hs Hv) as (al & _ & [Rs Rm Rh Re Rc Rv Rp]).
    destruct (events_calls_covered _ _ _ Re _ _ _ _ Hin) as (i & fe & es & kwe & Hst & Hf & _).
    assert (exists nm, callee_name fe = Some nm /\ has_space nm = false /\
                       ((exists m, c = VGlobal m nm) \/ (exists j, nm = var_name j))) as (nm & Hnm & Hsp & Hkind).
    { inversion Hf; subst; cbn in Hc; try contradiction.
      - exists n. split; [reflexivity|]. split; [exact Hc | left; eauto].
      - eexists. split; [reflexivity|]. split; [apply var_name_nospace | right; eauto]. }
    destruct (classic_shadow (body s) nm) as [Hno|(m' & Hin' & Hstd)].
    + left. assert (3 <= doc_rank (verdict fs)); [|lia]. eapply body_floor_other_call; eauto.
      intros m n Hi. destruct (events_imports_sound _ _ _ Re m n Hi) as [Hr _]. exact (Hident m n Hr).
    + right. destruct (events_imports_sound _ _ _ Re m' nm Hin') as [Hr Hb].
      exists m', nm. repeat split; assumption.
Qed.

(* non-vacuity of (4): a computed callee (getattr's result called, value BUILD-ed), and a non-stdlib
   global called through NEWOBJ with the value popped *)
Example C04_other_call_nonvacuous :
  match run [OGlobal "builtins" "getattr"; OMark; OConst (CStr "a"); OConst (CStr "b"); OTuple; OReduce;
             OMark; OConst (CStr "c"); OTuple; OReduce; OConst CNone; OBuild; OStop],
        run [OGlobal "evil.mod" "f"; OEmptyTuple; ONewObj; OPop; OConst CNone; OStop] with
  | Ok s1, Ok s2 =>
      match analyze (fun _ => "'x'"%string) (fun _ => false) [] s1,
            analyze (fun _ => "'x'"%string) (fun _ => false) [] s2 with
      | Some f1, Some f2 => doc_rank (verdict f1) = 3 /\ doc_rank (verdict f2) = 3
      | _, _ => False
      end
  | _, _ => False
  end.
Proof. vm_compute. auto. Qed.

(* non-vacuity: OBJ-made exec call, popped; non-stdlib global only memoised *)
Example C04_nonvacuous :
  match run [OMark; OGlobal "__builtin__" "exec"; OConst (CStr "x"); OObj; OPop;
             OGlobal "evil.mod" "f"; OPut 0; OPop; OConst CNone; OStop] with
  | Ok s => match analyze (fun _ => "'x'"%string) (fun m => negb (String.eqb m "evil.mod")) [] s with
            | Some fs => doc_rank (verdict fs) = 5 /\ List.length fs = 4
            | None => False
            end
  | Err _ => False
  end.
Proof. vm_compute. auto. Qed.

End C04.

Print Assumptions C04_tables_cover_documentation.
Print Assumptions C04_nonstd_import.
Print Assumptions C04_dangerous_module.
Print Assumptions C04_bad_call.
Print Assumptions C04_other_call.
Print Assumptions C04_never_likely_safe.
