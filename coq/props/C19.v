(* C19 -- Safety analysis is total on every pickle that decompiles. *)
From Coq Require Import List String Ascii ZArith Bool Arith Lia Permutation.
From Verif Require Import Base Ops Interp Unparse Severity SeverityProofs AnalysisTable ReportTable
  Analysis AnalysisProofs FloorProofs ReportProofs.
Import ListNotations.
Local Open Scope nat_scope.

(* For EVERY decompiled module (any interpreter state), any constant printer, any stdlib oracle and
   any PROTO layout: running the analyses of the regenerated Analysis.ALL, in that order, returns a
   list of findings -- every analysis in the list is one the model knows, none of them has a
   branch that yields anything but a finding (cf. the `yield node` of the pinned UnsafeImportsML) --
   and the verdict computed from them is a member of the Severity enum. *)
Theorem C19_total : forall crepr std protos s,
  exists fs, analyze crepr std protos s = Some fs /\ wf (verdict fs) /\
             Forall (fun f => wf (finding_sev f)) fs.
Proof.
  intros crepr std protos s. rewrite analyze_eq. cbv zeta. eexists. split; [reflexivity|].
  split; [apply verdict_wf | apply Forall_forall; intros f _; apply finding_sev_wf].
Qed.

(* the verdict is LIKELY_SAFE only when nothing ranks above it *)
Theorem C19_verdict_is_max : forall fs f, In f fs -> doc_rank (finding_sev f) <= doc_rank (verdict fs).
Proof. exact verdict_ge. Qed.

(* The rest of the property, again for ALL interpreter states: every finding
   - names a member of the Severity enum,
   - carries a message that is not None and not empty (its template in the live source has literal text),
   - has a trigger that is a string, an int or a tuple of those (placeholders of the message at its live
     construction site, which the model binds; any other expression, e.g. an ast node, would be TOpaque),
   - agrees in severity and analysis_name with its AnalysisResult(...) construction site in the
     regenerated ReportTable;
   the report to_dict() is JSON-serialisable; what check_safety writes to json_output_path is that report;
   and whenever loader.load refuses (any threshold), UnsafeFileError.info is that same report. *)
Theorem C19_report_wellformed : forall crepr std protos s,
  exists fs, analyze crepr std protos s = Some fs /\
    (* in whatever order the findings come out (the UnusedVariables ones follow the iteration order of
       a Python set) *)
    forall fs', Permutation fs fs' ->
      Forall finding_good fs' /\
      json_ok (to_dict default_verbosity fs') = true /\
      json_file fs' = to_dict default_verbosity fs' /\
      (forall thr info, loader thr fs' = Unsafe info ->
                        info = to_dict default_verbosity fs' /\ json_ok info = true).
Proof.
  intros crepr std protos s. destruct (analyze_good crepr std protos s) as (fs & HA & HG0).
  exists fs. split; [exact HA|]. intros fs' HP.
  assert (Forall finding_good fs') as HG by (eapply Permutation_Forall; eauto).
  split; [exact HG|].
  split; [apply report_json_ok; exact HG|]. split; [reflexivity|].
  intros thr info H. destruct (loader_same_report thr fs' info H) as [-> _].
  split; [reflexivity | apply report_json_ok; exact HG].
Qed.

(* the report at EVERY verbosity (the `verbosity` argument of check_safety / to_dict only filters the text of
   the findings): JSON-serialisable, and its severity entry is the verdict whatever the verbosity *)
Theorem C19_report_every_verbosity : forall crepr std protos s,
  exists fs, analyze crepr std protos s = Some fs /\
    forall v, json_ok (to_dict v fs) = true /\
              exists a d, to_dict v fs = JDict [("severity", JStr (sev_name (verdict fs))); ("analysis", JStr a);
                                                ("detailed_results", d)]%string.
Proof.
  intros crepr std protos s. destruct (analyze_good crepr std protos s) as (fs & HA & HG).
  exists fs. split; [exact HA|]. intros v. split; [apply report_json_ok; exact HG|].
  unfold to_dict. eexists. eexists. reflexivity.
Qed.

(* a verdict above the threshold is refused with the report (the loader's comparison is Severity.__le__) *)
Theorem C19_loader_refuses : forall thr fs,
  sev_le (verdict fs) thr = false -> loader thr fs = Unsafe (to_dict default_verbosity fs).
Proof. exact loader_refuses. Qed.

(* side conditions on the regenerated table: no analyze method yields / returns anything but an
   AnalysisResult(...), and the construction sites are exactly the ones the model implements *)
Theorem C19_no_raw_yield : raw_yields = [].
Proof. reflexivity. Qed.

Theorem C19_sites_modelled :
  map fst report_sites =
  [("DuplicateProtoAnalysis", 0); ("DuplicateProtoAnalysis", 1); ("MisplacedProtoAnalysis", 0);
   ("NonStandardImports", 0); ("UnsafeImportsML", 0); ("UnsafeImportsML", 1); ("UnsafeImportsML", 2);
   ("BadCalls", 0); ("OvertlyBadEvals", 0); ("OvertlyBadEvals", 1); ("UnsafeImports", 0);
   ("UnusedVariables", 0); ("MLAllowlist", 0); ("MLAllowlist", 1)]%string.
Proof. reflexivity. Qed.

(* regression witness for the pinned defect: `from foo import eval` (module outside the per-name
   denylist) is answered with a LIKELY_OVERTLY_MALICIOUS finding instead of crashing *)
Example C19_import_eval :
  match run [OGlobal "foo" "eval"; OStop] with
  | Ok s => match analyze (fun _ => ""%string) (fun _ => false) [] s with
            | Some fs => doc_rank (verdict fs) = 4 /\
                         existsb (fun f => String.eqb (f_analysis f) "UnsafeImportsML") fs = true /\
                         loader LIKELY_SAFE fs = Unsafe (to_dict default_verbosity fs)
            | None => False
            end
  | Err _ => False
  end.
Proof. vm_compute. auto. Qed.

(* non-vacuity of the loader clause and of the trigger shapes: an unused call result (tuple trigger),
   a duplicate PROTO (int trigger) and an import (string trigger) in one report *)
Example C19_nonvacuous :
  match run [OGlobal "os" "getcwd"; OEmptyTuple; OReduce; OPop; OConst CNone; OStop] with
  | Ok s => match analyze (fun _ => "None"%string) (fun _ => true) [(0, 2%Z); (3, 2%Z)] s with
            | Some fs => List.length fs = 5 /\ json_ok (to_dict default_verbosity fs) = true /\
                         (exists info, loader LIKELY_SAFE fs = Unsafe info) /\
                         existsb (fun f => match f_trig f with TTuple _ => true | _ => false end) fs = true /\
                         existsb (fun f => match f_trig f with TVal (BInt _) => true | _ => false end) fs = true
            | None => False
            end
  | Err _ => False
  end.
Proof. vm_compute. repeat split; eauto. Qed.

Print Assumptions C19_total.
Print Assumptions C19_verdict_is_max.
Print Assumptions C19_report_wellformed.
Print Assumptions C19_loader_refuses.
Print Assumptions C19_no_raw_yield.
Print Assumptions C19_sites_modelled.
Print Assumptions C19_report_every_verbosity.
