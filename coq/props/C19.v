(* C19 -- Safety analysis is total on every pickle that decompiles. *)
From Coq Require Import List String Ascii ZArith Bool Arith Lia.
From Verif Require Import Base Ops Interp Unparse Severity SeverityProofs AnalysisTable
  Analysis AnalysisProofs FloorProofs.
Import ListNotations.
Local Open Scope nat_scope.

(* For EVERY decompiled module (any interpreter state), any constant printer, any stdlib oracle and
   any PROTO layout: running the analyses of the regenerated Analysis.ALL, in that order, returns a
   list of findings -- every analysis in the list is one the model knows, none of them has a
   branch that yields anything but a finding (cf. the `yield node` of the pinned UnsafeImportsML) --
   and the verdict computed from them is a member of the Severity enum. *)
Theorem C19_total : forall crepr std protos s,
  exists fs, analyze crepr std protos s = Some fs /\ wf (verdict fs) /\
             Forall (fun f => wf (finding_sev f)) fs.
Proof.
  intros crepr std protos s. rewrite analyze_eq. cbv zeta. eexists. split; [reflexivity|].
  split; [apply verdict_wf | apply Forall_forall; intros f _; apply finding_sev_wf].
Qed.

(* the verdict is LIKELY_SAFE only when nothing ranks above it *)
Theorem C19_verdict_is_max : forall fs f, In f fs -> doc_rank (finding_sev f) <= doc_rank (verdict fs).
Proof. exact verdict_ge. Qed.

(* regression witness for the pinned defect: `from foo import eval` (module outside the per-name
   denylist) is answered with a LIKELY_OVERTLY_MALICIOUS finding instead of crashing *)
Example C19_import_eval :
  match run [OGlobal "foo" "eval"; OStop] with
  | Ok s => match analyze (fun _ => ""%string) (fun _ => false) [] s with
            | Some fs => doc_rank (verdict fs) = 4 /\
                         existsb (fun f => String.eqb (f_analysis f) "UnsafeImportsML") fs = true
            | None => False
            end
  | Err _ => False
  end.
Proof. vm_compute. auto. Qed.

Print Assumptions C19_total.
Print Assumptions C19_verdict_is_max.
