(* C10 -- All faces of the safety check agree on the same per-pickle severity.
   This file holds only the property theorems (closed by [exact]) and their assumptions. *)
From Coq Require Import List String ZArith Bool Arith.
From Verif Require Import Base SevTable Severity SeverityProofs.
Import ListNotations.
Local Open Scope nat_scope.

(* Severity is a strict total order identical to its documented ranking under every comparison
   operator as implemented -- for all 36 ordered pairs of members of the live enum. *)
Theorem C10_total_order : forall a b, wf a -> wf b ->
  sev_lt a b = (doc_rank a <? doc_rank b) /\
  sev_le a b = (doc_rank a <=? doc_rank b) /\
  sev_eq a b = (doc_rank a =? doc_rank b) /\
  sev_ne a b = negb (doc_rank a =? doc_rank b) /\
  sev_gt a b = (doc_rank b <? doc_rank a) /\
  sev_ge a b = (doc_rank b <=? doc_rank a) /\
  (doc_rank a = doc_rank b -> a = b) /\ doc_rank a < 6 /\ nsev = 6.
Proof.
  intros a b Ha Hb.
  exact (conj (lt_spec a b Ha Hb) (conj (le_spec a b Ha Hb) (conj (eq_spec a b Ha Hb)
        (conj (ne_spec a b Ha Hb) (conj (gt_spec a b Ha Hb) (conj (ge_spec a b Ha Hb)
        (conj (rank_inj a b Ha Hb) (conj (doc_rank_lt6 a Ha) nsev_6)))))))).
Qed.

(* The per-pickle severity is the maximum severity among the reported findings (any number of
   findings), and LIKELY_SAFE exactly when there are none. *)
Theorem C10_severity_is_max : forall rs, Forall wf rs ->
  wf (severity rs) /\
  (forall x, In x rs -> doc_rank x <= doc_rank (severity rs)) /\
  (rs <> [] -> In (severity rs) rs) /\
  ((forall x, In x rs -> x <> LIKELY_SAFE) -> (severity rs = LIKELY_SAFE <-> rs = [])).
Proof.
  intros rs H.
  exact (conj (severity_wf rs H) (conj (severity_upper rs H) (conj (severity_member rs H)
        (severity_safe_iff_nil rs H)))).
Qed.

(* Every face is a function of the same per-pickle rank [rank_of]. *)
Theorem C10_faces_agree : forall thr ps first, wf thr -> Forall (Forall wf) ps -> Forall wf first ->
  face_is_likely_safe first = (rank_of first =? 0) /\
  face_bool first = (rank_of first =? 0) /\
  face_loader_raises thr first = (doc_rank thr <? rank_of first) /\
  (face_cli_exit ps = 0 <-> forall p, In p ps -> rank_of p = 0) /\
  (face_cli_exit ps = 0 \/ face_cli_exit ps = 1) /\
  face_json ps = map (fun p => sev_name (severity p)) ps.
Proof.
  intros thr ps first Ht Hps Hf.
  exact (conj (face_ils_spec first Hf) (conj (face_bool_spec first Hf) (conj (face_loader_spec thr first Ht Hf)
        (conj (proj1 (face_cli_spec ps Hps)) (conj (proj2 (face_cli_spec ps Hps))
        (face_json_spec ps)))))).
Qed.

(* non-vacuity: the hypotheses are met by concrete, non-trivial findings *)
Example C10_nonvacuous :
  Forall wf [3; 5; 2] /\ severity [3; 5; 2] = 5 /\ face_cli_exit [[]; [3; 5; 2]] = 1 /\
  face_loader_raises 3 [2; 3] = false /\ face_loader_raises 2 [2; 3] = true.
Proof. vm_compute. repeat split; repeat constructor. Qed.

Print Assumptions C10_total_order.
Print Assumptions C10_severity_is_max.
Print Assumptions C10_faces_agree.
