(* C12 -- Hook lifecycle: protection holds while armed and is restored exactly on exit.
   Only the property theorems (closed by [exact]), non-vacuity examples, refutation witnesses
   and Print Assumptions.  Model: model/Hooks.v; lemmas: proofs/HooksProofs.v. *)
From Coq Require Import List String Bool Arith.
From Verif Require Import Base Allowlist Hooks HooksProofs.
Import ListNotations.
Local Open Scope list_scope.
Local Open Scope nat_scope.

(* After ANY history (any length, any nesting, well formed or not), a load through an entry point
   whose binding is the checked loader returns only for a pickle the analysis did not flag, and
   refuses a flagged one before anything is resolved; if the ML environment is active underneath
   (the checked loader re-enters through pickle.loads) its allowlist applies on top.  A load
   through an entry point bound to the ML environment with additions a resolves exactly the
   longest prefix of the pickle's globals inside BASE + a; the first global outside aborts the
   load with the unsafe-file error and is not resolved.  The checked loader never reaches itself. *)
Theorem C12_probe_protected : forall h e p,
  let s := hrun h_init h in
  fst (probe s e p) <> RecursionErr /\
  (binding_of s e = Checked ->
     (flagged p = true -> probe s e p = (UnsafeAnalysis, [])) /\
     (fst (probe s e p) = Returned -> flagged p = false) /\
     (forall a, pls s = ML a -> flagged p = false -> probe s e p = ml_resolve a (globals p))) /\
  (forall a, binding_of s e = ML a ->
     probe s e p = (ml_result a (globals p), take_ok a (globals p)) /\
     Forall (fun g => spec_permits a g = true) (snd (probe s e p)) /\
     (forall g, first_bad a (globals p) = Some g ->
        fst (probe s e p) = UnsafeML g /\ spec_permits a g = false /\ ~ In g (snd (probe s e p)))).
Proof. exact probe_protected. Qed.

(* Which entry points are protected, in terms of what the user switched on (all histories):
   pickle.loads, _pickle.load and _pickle.loads are the ML environment's iff one was activated
   since the last removal (with exactly its additions), else the originals -- contexts and the
   global check never touch them. *)
Theorem C12_ml_covers_all_four : forall h,
  let s := hrun h_init h in
  let g := grun g_init h in
  pls s = ml_binding (g_ml g) /\ cl s = ml_binding (g_ml g) /\ cls s = ml_binding (g_ml g).
Proof. exact others_reachable. Qed.

(* "While any protection is in force" for pickle.load, stated against the mechanisms the user
   switched on rather than against the binding.
   (a) If the global check or the ML environment was switched on and not removed since, then
       pickle.load is a protection, and so is everything the open contexts will restore on exit.
       Hypothesis [on_outside]: nothing is switched ON while a context is open (removals may
       happen anywhere).  It cannot be dropped: the two refutation witnesses below are recorded
       as known findings of the pinned tree.
   (b) If moreover nothing is REMOVED while a context is open ([disciplined]), an open context
       means pickle.load is protected too, and the model's context stack has the expected depth.
       (Removal inside an open context is the case the property itself sets aside: "after
       removal with no context open"; see C12_remove_with_open_context_observation.) *)
Theorem C12_switched_on_protected : forall h,
  on_outside 0 h = true ->
  let s := hrun h_init h in
  let g := grun g_init h in
  mech_on g -> pl s <> Orig /\ Forall (fun b => b <> Orig) (ctxs s).
Proof. exact switched_on_protected. Qed.

Theorem C12_armed_protected : forall h,
  disciplined 0 h = true ->
  let s := hrun h_init h in
  let g := grun g_init h in
  (mech_on g \/ 0 < g_depth g -> pl s <> Orig) /\
  List.length (ctxs s) = g_depth g.
Proof. exact armed_protected. Qed.

(* Leaving a context (either way), after a well-bracketed body of any length and nesting depth,
   from ANY state s0: pickle.load and the stack of enclosing contexts are exactly what they were
   immediately before the matching enter; neither the enter nor the leave touches the other
   three bindings; and if the body did not activate / remove hooks, the complete four-binding
   state is the one in force on entry. *)
Theorem C12_leave_restores_entry : forall s0 seg lv,
  balanced seg = true -> is_leave lv = true ->
  let s1 := hrun s0 (HEnter :: seg) in
  let s2 := hstep s1 lv in
  pl s2 = pl s0 /\ ctxs s2 = ctxs s0 /\
  others (hstep s0 HEnter) = others s0 /\ others s2 = others s1 /\
  (quiet seg = true -> others s2 = others s0).
Proof. exact leave_restores. Qed.

(* After a removal with no context open all four bindings are the originals, and they stay so
   for as long as nothing is switched on again. *)
Theorem C12_remove_restores_all : forall h rest,
  let s := hrun h_init (h ++ [HRemove]) in
  ctxs s = [] -> forallb inert rest = true ->
  all_orig s /\ all_orig (hrun s rest).
Proof. exact remove_restores_all. Qed.

(* Leaving by exception is leaving normally. *)
Theorem C12_exception_exit_same : forall h s, hrun s (map norm_exc h) = hrun s h.
Proof. exact exception_exit_same. Qed.

(* ---- non-vacuity ---- *)
Definition sink : gname := ("verif_sink", "record").
Definition od : gname := ("fractions", "Fraction").

Example C12_nonvacuous_nesting :
  let body := [HEnter; HProbe PLoad (mkP true [sink]); HEnter; HLeaveExc; HLeave; HArm] in
  balanced body = true /\ quiet body = true /\
  let s0 := hrun h_init [HActivate [od]] in
  pl s0 = ML [od] /\
  pl (hrun s0 (HEnter :: body)) = Checked /\
  pl (hstep (hrun s0 (HEnter :: body)) HLeaveExc) = ML [od] /\
  probe (hrun s0 (HEnter :: body)) PLoad (mkP false [od; sink]) = (UnsafeML sink, [od]).
Proof. vm_compute. repeat split. Qed.

Example C12_nonvacuous_disciplined :
  let h := [HArm; HEnter; HEnter; HLeave; HLeaveExc; HRemove; HActivate [od]; HEnter] in
  disciplined 0 h = true /\ g_depth (grun g_init h) = 1 /\ g_ml (grun g_init h) = Some [od] /\
  pl (hrun h_init h) = Checked /\ ctxs (hrun h_init h) = [ML [od]].
Proof. vm_compute. repeat split. Qed.

Example C12_nonvacuous_on_outside :
  let h := [HArm; HEnter; HRemove; HLeave; HActivate [od]; HEnter; HEnter; HRemove; HLeaveExc] in
  on_outside 0 h = true /\ disciplined 0 h = false /\
  pl (hrun h_init [HArm; HEnter; HRemove; HLeave]) = Checked.
Proof. vm_compute. repeat split. Qed.

Example C12_nonvacuous_remove :
  let s := hrun h_init ([HArm; HEnter; HActivate []; HLeave] ++ [HRemove]) in
  ctxs s = [] /\ forallb inert [HProbe PLoads (mkP true [sink]); HRemove; HLeave] = true.
Proof. vm_compute. repeat split. Qed.

(* ---- witnesses: what does NOT hold on the pinned tree ---- *)

(* The ML environment activated inside an open context is torn by the leave: pickle.load goes
   back to the (unprotected) binding saved on entry while the other three entry points stay
   protected; the environment was never deactivated, yet a pickle over a non-allow-listed global
   runs through pickle.load.  (KNOWN_FINDINGS C12-activate-inside-context.) *)
Lemma C12_armed_protected_refuted_activate_in_ctx :
  let h := [HEnter; HActivate []; HLeave] in
  on_outside 0 h = false /\
  g_ml (grun g_init h) = Some [] /\
  pl (hrun h_init h) = Orig /\ pls (hrun h_init h) = ML [] /\
  probe (hrun h_init h) PLoad (mkP true [sink]) = (Returned, [sink]) /\
  probe (hrun h_init h) PLoads (mkP true [sink]) = (UnsafeML sink, []).
Proof. vm_compute. repeat split. Qed.

(* The global check switched on inside an open context is dropped by the leave.
   (KNOWN_FINDINGS C12-arm-inside-context.) *)
Lemma C12_armed_protected_refuted_arm_in_ctx :
  let h := [HEnter; HArm; HLeave] in
  on_outside 0 h = false /\
  g_armed (grun g_init h) = true /\
  pl (hrun h_init h) = Orig /\
  probe (hrun h_init h) PLoad (mkP true [sink]) = (Returned, [sink]).
Proof. vm_compute. repeat split. Qed.

(* [quiet] cannot be dropped from the whole-state clause: same history. *)
Lemma C12_whole_state_restore_refuted :
  let seg := [HActivate []] in
  balanced seg = true /\ quiet seg = false /\
  others (hstep (hrun h_init (HEnter :: seg)) HLeave) <> others h_init.
Proof. vm_compute. repeat split. discriminate. Qed.

(* Why "with no context open" is part of the property: a removal while a context is open is
   undone for pickle.load by the later leave (the leave restores what was in force on entry). *)
Lemma C12_remove_with_open_context_observation :
  let h := [HArm; HEnter; HRemove] in
  all_orig (hrun h_init h) /\ ctxs (hrun h_init h) <> [] /\
  pl (hrun h_init (h ++ [HLeave])) = Checked.
Proof. vm_compute. repeat split. discriminate. Qed.

(* The global check and the contexts cover pickle.load only (documented coverage). *)
Lemma C12_global_check_covers_load_only_observation :
  probe (hrun h_init [HArm]) PLoad (mkP true [sink]) = (UnsafeAnalysis, []) /\
  probe (hrun h_init [HArm]) PLoads (mkP true [sink]) = (Returned, [sink]).
Proof. vm_compute. repeat split. Qed.

Print Assumptions C12_probe_protected.
Print Assumptions C12_ml_covers_all_four.
Print Assumptions C12_switched_on_protected.
Print Assumptions C12_armed_protected.
Print Assumptions C12_leave_restores_entry.
Print Assumptions C12_remove_restores_all.
Print Assumptions C12_exception_exit_same.
