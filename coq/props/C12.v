(* C12 -- Hook lifecycle: protection holds while armed and is restored exactly on exit.
   Only the property theorems (closed by [exact]), non-vacuity examples, refutation witnesses
   and Print Assumptions.  Model: model/Hooks.v; lemmas: proofs/HooksProofs.v. *)
From Coq Require Import List String Bool Arith.
From Verif Require Import Base Allowlist Hooks HooksProofs.
Import ListNotations.
Local Open Scope list_scope.
Local Open Scope nat_scope.

(* After ANY history (any length, any nesting, well formed or not), a load through an entry point
   whose binding is the checked loader returns only for a pickle the analysis did not flag, and
   refuses a flagged one before anything is resolved; if the ML environment is active underneath
   (the checked loader re-enters through pickle.loads) its allowlist applies on top.  A load
   through an entry point bound to the ML environment with additions a resolves exactly the
   longest prefix of the pickle's globals inside BASE + a; the first global outside aborts the
   load with the unsafe-file error and is not resolved.  The checked loader never reaches itself. *)
Theorem C12_probe_protected : forall h e p,
  let s := hrun h_init h in
  fst (probe s e p) <> RecursionErr /\
  (binding_of s e = Checked ->
     (flagged p = true -> probe s e p = (UnsafeAnalysis, [])) /\
     (fst (probe s e p) = Returned -> flagged p = false) /\
     (forall a, pls s = ML a -> flagged p = false -> probe s e p = ml_resolve a (globals p))) /\
  (forall a, binding_of s e = ML a ->
     probe s e p = (ml_result a (globals p), take_ok a (globals p)) /\
     Forall (fun g => spec_permits a g = true) (snd (probe s e p)) /\
     (forall g, first_bad a (globals p) = Some g ->
        fst (probe s e p) = UnsafeML g /\ spec_permits a g = false /\ ~ In g (snd (probe s e p)))).
Proof. exact probe_protected. Qed.

(* Which entry points are protected, in terms of the mechanisms in force (ALL histories):
   pickle.loads, _pickle.load, _pickle.loads and pickle.Unpickler are the ML environment's iff one
   is in force (with exactly its additions), else the originals -- the global check never touches
   them, and a context gives them back on exit exactly as it found them on entry.  ("In force" is
   scoped, see [Hooks.ghost]: what is switched on or off inside a context ends with it.) *)
Theorem C12_ml_covers_all_four : forall h,
  let s := hrun h_init h in
  let g := grun g_init h in
  pls s = ml_binding (g_ml g) /\ cl s = ml_binding (g_ml g) /\ cls s = ml_binding (g_ml g) /\
  pu s = ml_binding (g_ml g).
Proof. exact others_reachable. Qed.

(* "While any protection is in force" for pickle.load, stated against the mechanisms rather than
   against the binding.
   (a) ALL histories, no side condition: pickle.load is the checked loader or follows the ML
       environment in force; if the global check or the ML environment is in force, pickle.load is
       a protection.  (Before the repair of context.py this needed "nothing is switched on inside
       a context": the former counterexamples are the regression Examples below.)
   (b) If hooks are REMOVED only while no context is open ([rm_outside]), an open context means
       pickle.load is protected too.  (Removal inside an open context is the case the property
       itself sets aside: "after removal with no context open"; see
       C12_remove_with_open_context_observation.) *)
Theorem C12_switched_on_protected : forall h,
  let s := hrun h_init h in
  let g := grun g_init h in
  (pl s = Checked \/ pl s = ml_binding (g_ml g)) /\
  (mech_on g -> pl s <> Orig) /\
  List.length (ctxs s) = g_depth g.
Proof. exact switched_on_protected. Qed.

Theorem C12_armed_protected : forall h,
  rm_outside 0 h = true ->
  let s := hrun h_init h in
  let g := grun g_init h in
  (mech_on g \/ 0 < g_depth g -> pl s <> Orig) /\
  List.length (ctxs s) = g_depth g.
Proof. exact armed_protected. Qed.

(* Leaving a context (either way), after a well-bracketed body of any length and nesting depth
   that may arm, activate, remove, enter and leave whatever it likes, from ANY state s0: the
   complete state -- every one of the five bindings and the stack of enclosing contexts -- is
   exactly what it was immediately before the matching enter.  Nothing in force on entry is
   dropped, nothing switched on inside is left behind, no half-restored state exists. *)
Theorem C12_leave_restores_entry : forall s0 seg lv,
  balanced seg = true -> is_leave lv = true ->
  let s2 := hstep (hrun s0 (HEnter :: seg)) lv in
  s2 = s0 /\ (forall e, binding_of s2 e = binding_of s0 e) /\ ctxs s2 = ctxs s0.
Proof. exact leave_restores_bindings. Qed.

(* ... hence inside any history a completed context leaves no trace *)
Theorem C12_completed_context_no_trace : forall pre seg lv rest,
  balanced seg = true -> is_leave lv = true ->
  hrun h_init (pre ++ HEnter :: seg ++ lv :: rest) = hrun h_init (pre ++ rest).
Proof. exact leave_restores_history. Qed.

(* After a removal with no context open all five bindings are the originals, and they stay so
   for as long as nothing is switched on again. *)
Theorem C12_remove_restores_all : forall h rest,
  let s := hrun h_init (h ++ [HRemove]) in
  ctxs s = [] -> forallb inert rest = true ->
  all_orig s /\ all_orig (hrun s rest).
Proof. exact remove_restores_all. Qed.

(* Leaving by exception is leaving normally. *)
Theorem C12_exception_exit_same : forall h s, hrun s (map norm_exc h) = hrun s h.
Proof. exact exception_exit_same. Qed.

(* ---- non-vacuity ---- *)
Definition sink : gname := ("verif_sink", "record").
Definition od : gname := ("fractions", "Fraction").

Example C12_nonvacuous_nesting :
  let body := [HEnter; HProbe PLoad (mkP true [sink]); HActivate []; HEnter; HRemove; HLeaveExc; HLeave;
               HArm; HMake] in
  balanced body = true /\
  let s0 := hrun h_init [HActivate [od]] in
  pl s0 = ML [od] /\
  pl (hrun s0 (HEnter :: body)) = Checked /\
  pls (hrun s0 (HEnter :: body)) = ML [od] /\
  hstep (hrun s0 (HEnter :: body)) HLeaveExc = s0 /\
  probe (hrun s0 (HEnter :: body)) PLoad (mkP false [od; sink]) = (UnsafeML sink, [od]).
Proof. vm_compute. repeat split. Qed.

Example C12_nonvacuous_rm_outside :
  let h := [HArm; HEnter; HActivate [od]; HEnter; HLeave; HLeaveExc; HRemove; HMake; HEnter; HArm] in
  rm_outside 0 h = true /\ g_depth (grun g_init h) = 1 /\ g_armed (grun g_init h) = true /\
  pl (hrun h_init h) = Checked /\ map s_pl (ctxs (hrun h_init h)) = [Orig] /\
  rm_outside 0 [HEnter; HRemove] = false.
Proof. vm_compute. repeat split. Qed.

Example C12_nonvacuous_mech_on :
  let h := [HEnter; HActivate [od]; HEnter; HRemove; HLeave] in
  g_ml (grun g_init h) = Some [od] /\ pl (hrun h_init h) = ML [od] /\ pu (hrun h_init h) = ML [od] /\
  g_depth (grun g_init h) = 1.
Proof. vm_compute. repeat split. Qed.

Example C12_nonvacuous_remove :
  let s := hrun h_init ([HArm; HEnter; HActivate []; HLeave] ++ [HRemove]) in
  ctxs s = [] /\ forallb inert [HProbe PLoads (mkP true [sink]); HRemove; HLeave; HMake] = true.
Proof. vm_compute. repeat split. Qed.

(* ---- regression: the two histories that were findings of the tree before the repair of
   fickling/context.py (KNOWN_FINDINGS C12-activate-inside-context, C12-arm-inside-context) ---- *)

(* The ML environment activated inside an open context ends with the context as a whole: all five
   entry points are what they were on entry -- no state in which pickle.load is unprotected while
   the other entry points still are the environment's.  (Formerly
   C12_armed_protected_refuted_activate_in_ctx: pl = Orig /\ pls = ML [].) *)
Example C12_regression_activate_in_ctx :
  let h := [HEnter; HActivate []; HLeave] in
  hrun h_init h = h_init /\
  g_ml (grun g_init h) = None /\
  (forall e, binding_of (hrun h_init h) e = Orig) /\
  (* ... and while the block is open every entry point is the environment's *)
  (forall e, binding_of (hrun h_init [HEnter; HActivate []]) e = ML []) /\
  probe (hrun h_init [HEnter; HActivate []]) PLoad (mkP true [sink]) = (UnsafeML sink, []) /\
  (* an enclosing environment is re-instated, not dropped *)
  hrun h_init [HActivate [od]; HEnter; HActivate []; HLeave] = hrun h_init [HActivate [od]].
Proof. vm_compute. repeat split; intros []; reflexivity. Qed.

(* The global check armed inside an open context ends with the context: the state after the leave
   is the entry state, as "restores precisely the protection that was in force on entry ... nor
   leaving one behind" demands; under the scoped reading of "in force" no protection is in force
   afterwards, so the first clause is not concerned. *)
Example C12_regression_arm_in_ctx :
  let h := [HEnter; HArm; HLeave] in
  hrun h_init h = h_init /\
  g_armed (grun g_init h) = false /\
  probe (hrun h_init [HEnter; HArm]) PLoad (mkP true [sink]) = (UnsafeAnalysis, []) /\
  hrun h_init [HArm; HEnter; HArm; HLeave] = hrun h_init [HArm].
Proof. vm_compute. repeat split. Qed.

(* A manager constructed early and entered later restores what was in force when it was ENTERED
   (construction saves nothing). *)
Example C12_regression_early_construction :
  hrun h_init [HMake; HArm; HEnter; HLeave] = hrun h_init [HArm] /\
  pl (hrun h_init [HMake; HArm; HEnter; HLeave]) = Checked.
Proof. vm_compute. repeat split. Qed.

(* Why "with no context open" is part of the property: a removal while a context is open is
   undone by the later leave (the leave restores what was in force on entry). *)
Lemma C12_remove_with_open_context_observation :
  let h := [HArm; HEnter; HRemove] in
  all_orig (hrun h_init h) /\ ctxs (hrun h_init h) <> [] /\
  pl (hrun h_init (h ++ [HLeave])) = Checked.
Proof. vm_compute. repeat split. discriminate. Qed.

(* The global check and the contexts cover pickle.load only (documented coverage). *)
Lemma C12_global_check_covers_load_only_observation :
  probe (hrun h_init [HArm]) PLoad (mkP true [sink]) = (UnsafeAnalysis, []) /\
  probe (hrun h_init [HArm]) PLoads (mkP true [sink]) = (Returned, [sink]) /\
  probe (hrun h_init [HArm]) PUnp (mkP true [sink]) = (Returned, [sink]).
Proof. vm_compute. repeat split. Qed.

Print Assumptions C12_probe_protected.
Print Assumptions C12_ml_covers_all_four.
Print Assumptions C12_switched_on_protected.
Print Assumptions C12_armed_protected.
Print Assumptions C12_leave_restores_entry.
Print Assumptions C12_completed_context_no_trace.
Print Assumptions C12_remove_restores_all.
Print Assumptions C12_exception_exit_same.
