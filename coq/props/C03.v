(* C03 -- No hidden execution: everything the VM would import or call is in the decompile. *)
From Coq Require Import List String ZArith Bool Arith.
From Verif Require Import Base Ops OpTable Interp RefVM SimRel SimProofs.
Import ListNotations.
Local Open Scope nat_scope.

(* For every program both machines accept (any length; whatever later POPs, DUPs, memoises or
   strands a value): the module body and the reference VM's event log are aligned one-to-one and in
   order by [rel_events]: each find_class of a non-builtins module is a `from m import n`, each call
   (REDUCE / INST / OBJ / NEWOBJ / NEWOBJ_EX) is a `_var<i> = callee(args, **kw)` statement whose
   callee and arguments denote the VM's, each persistent load and each BUILD likewise, and the
   remaining statements (aliases, item assignments on stand-ins, `result = ...`) are no events. *)
Theorem C03_events_aligned : forall p first_var f' v',
  run_from p (fk_init first_var) = Ok f' -> vrun_from p vm_init = Ok v' ->
  exists al, rel_events al (body f') (log v') /\ Forall (fun y => callable y = true) al.
Proof.
  intros p n f' v' Hs Hv.
  destruct (run_lockstep p _ _ _ _ _ (R_init n) Hs Hv) as (al & _ & [Rs Rm Rh Re Rc Rv Rp]).
  exists al. auto.
Qed.

(* consequences in the property's own words *)
Theorem C03_every_call_present : forall p first_var f' v' callee args kw k,
  run_from p (fk_init first_var) = Ok f' -> vrun_from p vm_init = Ok v' ->
  In (EvCall callee args kw k) (log v') ->
  exists al i fe es kwe,
    In (SAssignV i (ECall fe es kwe)) (body f') /\
    rel al fe callee /\ Forall2 (rel al) es args /\ rel_opt al kwe kw /\
    nth_error al i = Some (VObj k).
Proof.
  intros p n f' v' callee args kw k Hs Hv Hin.
  destruct (run_lockstep p _ _ _ _ _ (R_init n) Hs Hv) as (al & _ & [Rs Rm Rh Re Rc Rv Rp]).
  destruct (events_calls_covered _ _ _ Re _ _ _ _ Hin) as (i & fe & es & kwe & H).
  exists al, i, fe, es, kwe. exact H.
Qed.

Theorem C03_every_import_present : forall p first_var f' v' m n,
  run_from p (fk_init first_var) = Ok f' -> vrun_from p vm_init = Ok v' ->
  In (EvResolve m n) (log v') -> is_builtins m = false -> In (SImport m n) (body f').
Proof.
  intros p fv f' v' m n Hs Hv Hin Hb.
  destruct (run_lockstep p _ _ _ _ _ (R_init fv) Hs Hv) as (al & _ & [Rs Rm Rh Re Rc Rv Rp]).
  eapply events_imports_covered; eauto.
Qed.

Theorem C03_every_setstate_present : forall p first_var f' v' obj st,
  run_from p (fk_init first_var) = Ok f' -> vrun_from p vm_init = Ok v' ->
  In (EvSetState obj st) (log v') ->
  exists al i ste, In (SExpr (ECall (EAttr (EVar i) "__setstate__") [ste] None)) (body f') /\
                   nth_error al i = Some obj /\ rel al ste st.
Proof.
  intros p fv f' v' obj st Hs Hv Hin.
  destruct (run_lockstep p _ _ _ _ _ (R_init fv) Hs Hv) as (al & _ & [Rs Rm Rh Re Rc Rv Rp]).
  destruct (events_setstate_covered _ _ _ Re _ _ Hin) as (i & ste & H). exists al, i, ste. exact H.
Qed.

(* an opcode fickling cannot model is refused, never skipped: every opcode of the live pickletools
   table either belongs to a modelled family and has a class with run(), or the interpreter / parser
   raises (class without run -> NotImplementedError at run; no class -> at parse) *)
Definition table_refusal_ok : bool :=
  forallb (fun row =>
    let '(_, (name, (_, (_, (has_class, has_run))))) := row in
    match family name with
    | Some _ => has_class && has_run
    | None => negb (has_class && has_run)
    end) op_table.
Theorem C03_refuses_unmodelled : table_refusal_ok = true /\ step ONoRun (fk_init 0) = Err ENotImpl.
Proof. split; [vm_compute; reflexivity | reflexivity]. Qed.

(* non-vacuity: exec("...") made by OBJ and immediately popped (decompiled to `result = None` on the
   pinned tree) -- the call statement is in the body *)
Definition obj_pop : list op :=
  [OMark; OGlobal "__builtin__" "exec"; OConst (CStr "x"); OObj; OPop; OConst CNone; OStop].
Example C03_nonvacuous_obj_pop :
  match run obj_pop, vrun obj_pop with
  | Ok f, Ok v =>
      body f = [SResult (EConst CNone); SAssignV 0 (ECall (EName "exec") [EConst (CStr "x")] None)] /\
      log v = [EvCall (VGlobal "__builtin__" "exec") [VConst (CStr "x")] None 0;
               EvResolve "__builtin__" "exec"]
  | _, _ => False
  end.
Proof. vm_compute. auto. Qed.

Print Assumptions C03_events_aligned.
Print Assumptions C03_every_call_present.
Print Assumptions C03_every_import_present.
Print Assumptions C03_every_setstate_present.
Print Assumptions C03_refuses_unmodelled.
