(* C14 -- Edits through the sequence interface keep every derived view coherent.
   Only property theorems (short proofs over lemmas of proofs/CacheProofs.v), non-vacuity examples,
   the refutation witness of the unrepaired `properties` cache, and the assumptions.
   Model: model/Cache.v.  The theorems are about the GENERIC machine: every interpreter, visitor,
   answer function, opcode encoding and opcode equality; histories of ANY length. *)
From Coq Require Import List String ZArith Bool Arith.
From Verif Require Import Base Ops Interp Unparse Severity Analysis Cache CacheProofs.
Import ListNotations.
Local Open Scope list_scope.

Section Generic.
Variables X A P R B VA VP VF : Type.
Variable interpret : list X -> res A.
Variable props_of : A -> res P.
Variable ast_view : VA -> A -> R.
Variable props_view : VP -> P -> R.
Variable safety_view : list X -> P -> R.
Variable fresh_view : VF -> list X -> R.
Variable err_ans : err -> R.
Variable data : X -> res (list B).
Variable x_eqb : X -> X -> bool.
Notation RQ := (run_query interpret props_of ast_view props_view safety_view fresh_view err_ans).
Notation SPEC := (spec_answer interpret props_of ast_view props_view safety_view fresh_view err_ans).
Notation RA := (run_action interpret props_of ast_view props_view safety_view fresh_view err_ans x_eqb).
Notation RAS := (run_actions interpret props_of ast_view props_view safety_view fresh_view err_ans x_eqb).

(* After ANY interleaving of primitive edits (insert / setitem / delitem, index or slice, in or out
   of range), MutableSequence mix-ins (append, extend, +=, extend(self), pop, remove, reverse, clear)
   and reads of any view, every view (decompiled program, dump, import / call summaries, verdict,
   trace, dumps) equals that of a freshly constructed object with the same opcode list, and is the
   pure function [SPEC] of that list.  The injection helpers are sequences of such inserts. *)
Theorem C14_views_fresh : forall (s0 : pk X A P), cache_ok interpret props_of s0 ->
  forall acts q,
  let s := RAS acts s0 in
  cache_ok interpret props_of s /\
  fst (RQ q s) = fst (RQ q (fresh (opcodes s))) /\
  fst (RQ q s) = SPEC q (opcodes s).
Proof.
  intros s0 OK acts q s. split; [apply run_actions_ok; exact OK|].
  apply views_fresh. exact OK.
Qed.

(* the hypothesis holds for every constructed / loaded object *)
Theorem C14_from_any_pickle : forall l acts q,
  let s := RAS acts (fresh l) in
  fst (RQ q s) = fst (RQ q (fresh (opcodes s))) /\ fst (RQ q s) = SPEC q (opcodes s).
Proof. intros l acts q. apply views_fresh. apply fresh_ok. Qed.

(* each primitive mutator that succeeds resets BOTH caches; one that raises changes nothing *)
Theorem C14_primitives_reset : forall p (s : pk X A P),
  (forall l', apply_prim p (opcodes s) = Ok l' -> fst (do_prim R p s) = fresh l') /\
  (forall e, apply_prim p (opcodes s) = Err e -> fst (do_prim R p s) = s).
Proof.
  intros p s. unfold do_prim. split; intros x H; rewrite H; reflexivity.
Qed.

(* dumps() is the concatenation of the CURRENT opcodes' encodings in order (the first opcode whose
   encode() raises makes dumps() raise), after any history; reads do not change it *)
Theorem C14_dumps_concat : forall (s0 : pk X A P) acts,
  let s := RAS acts s0 in
  dumps data s = match all_data data (opcodes s) with
                 | Ok ds => Ok (List.concat ds)
                 | Err e => Err e
                 end /\
  (cache_ok interpret props_of s0 -> forall q, dumps data (fst (RA (ARead q) s)) = dumps data s).
Proof.
  intros s0 acts s. split; [apply dumps_concat|].
  intros OK q. unfold dumps. rewrite read_keeps_opcodes; [reflexivity|].
  apply run_actions_ok. exact OK.
Qed.

(* the mix-ins, written through the three primitives as collections.abc does, have list semantics *)
Theorem C14_mixins_list_semantics : forall (s : pk X A P),
  (forall x, opcodes (fst (m_append R x s)) = opcodes s ++ [x]) /\
  (forall xs, opcodes (fst (m_extend R xs s)) = opcodes s ++ xs) /\
  (forall i k, py_index (List.length (opcodes s)) i = Some k ->
               opcodes (fst (m_pop R i s)) = list_del k (opcodes s)) /\
  opcodes (fst (m_clear R s)) = [] /\
  opcodes (fst (m_reverse R s)) = rev (opcodes s).
Proof.
  intros s. split; [intros; apply m_append_list|]. split; [intros; apply m_extend_list|].
  split; [intros; apply m_pop_list; assumption|]. split; [apply m_clear_list|apply m_reverse_list].
Qed.
End Generic.

(* ---- witnesses on the executable instance ---- *)
Definition X0 (i : nat) (o : op) : xop := mkX i o (Ok [EmptyString]) None.
Definition crepr0 (c : const) : string := "'id'"%string.
Definition std0 (m : string) : bool := true.
(* cos\nsystem\n(S'id'\ntR. *)
Definition os_system : list xop :=
  [X0 0 (OGlobal "os" "system"); X0 1 OMark; X0 2 (OConst (CStr "id")); X0 3 OTuple; X0 4 OReduce;
   X0 5 OStop].

(* non-vacuity: a history that reads, edits (negative and out-of-range indices, a mix-in), and
   reads again really changes the answers: has_import flips from True to False *)
Example C14_nonvacuous :
  let acts := [ARead (QProps VHasImport); ARead QSafety;
               APrim (PSet 0 (X0 9 (OGlobal "builtins" "len"))); APrim (PInsert (-100) (X0 10 ONoop));
               AAppend (X0 11 ONoop); APop (-1); ARead (QAst VUnparse)] : list iaction in
  fst (inst_run_query crepr0 std0 pi_id (QProps VHasImport) (fresh os_system)) = ABool true /\
  fst (inst_run_query crepr0 std0 pi_id (QProps VHasImport)
         (inst_run_actions crepr0 std0 pi_id acts (fresh os_system))) = ABool false /\
  List.length (opcodes (inst_run_actions crepr0 std0 pi_id acts (fresh os_system))) = 7.
Proof. vm_compute. repeat split. Qed.

(* DEFECT of the unrepaired tree (repaired by notes/fix_properties_cache.patch): after `del p[0]`
   the program no longer decompiles; has_import raises IndexError once and then answers False,
   where a fresh object with the same opcodes raises. *)
Example C14_refuted_unrepaired_properties_cache :
  let s := inst_run_actions crepr0 std0 pi_id [APrim (PDel 0)] (fresh os_system) in
  exists s1,
    unrepaired_props_query std0 VHasImport s = (AErr EIndex, s1) /\
    fst (unrepaired_props_query std0 VHasImport s1) = ABool false /\
    fst (inst_run_query crepr0 std0 pi_id (QProps VHasImport) (fresh (opcodes s1))) = AErr EIndex.
Proof. eexists. split; [vm_compute; reflexivity|]. vm_compute. split; reflexivity. Qed.

Print Assumptions C14_views_fresh.
Print Assumptions C14_from_any_pickle.
Print Assumptions C14_primitives_reset.
Print Assumptions C14_dumps_concat.
Print Assumptions C14_mixins_list_semantics.
Print Assumptions C14_refuted_unrepaired_properties_cache.
