(* C01 -- Analysis is inert: inspecting a pickle never executes any part of it.
   Instance of the general closure theorems (proofs/EffectsProofs.v) on the call graph regenerated
   from the live sources (gen/CallGraph.v).  Only property theorems, non-vacuity examples and their
   assumptions live here. *)
From Coq Require Import List String Bool Arith.
From Verif Require Import Base Effects EffectsProofs CallGraph.
Import ListNotations.
Local Open Scope nat_scope.

Definition effect (n : nat) : eff := effect_of effects n.

(* (a) No path in the call graph from any analysis entry point (parse, stacked parse, decompile,
   interpreter, properties, trace, safety check, likely-safe query, CLI decompile / trace /
   check-safety) reaches an Effectful leaf (eval / exec / compile / __import__ / importlib / computed
   getattr / pickle.load(s) / marshal.loads / os / subprocess / socket / shutil / ctypes / open on a
   path the caller did not name / any callee the fixed table does not know).  The call graph ignores
   data, so this covers every input at once, returning or raising. *)
Theorem C01_no_effectful_reachable :
  forall e, In e entry_points -> forall n, reachable g e n -> effect n <> Effectful.
Proof.
  intros e He n Hr Heq.
  assert (H : check_avoid g effects entry_points [Effectful] = true) by (vm_compute; reflexivity).
  apply (check_avoid_sound g effects entry_points [Effectful] H e He n Hr).
  unfold effect in Heq. rewrite Heq. left. reflexivity.
Qed.

(* (b) The trace alphabet: whatever an entry point reaches is one of
   Pure / ReadFixed / ReadInput / Print / WriteUserPath, and is among the classes [reach_effects]
   predicts for that entry point -- the prediction the runtime monitor is compared against. *)
Theorem C01_trace_inert :
  forall e, In e entry_points -> forall n, reachable g e n ->
  In (effect n) inert_alphabet /\ In (effect n) (reach_effects g effects e).
Proof.
  intros e He n Hr. split.
  - pose proof (C01_no_effectful_reachable e He n Hr) as H.
    destruct (effect n) eqn:E; simpl; tauto.
  - apply reach_effects_sound; auto.
    assert (H : forallb (reach_check g) entry_points = true) by (vm_compute; reflexivity).
    rewrite forallb_forall in H. exact (H e He).
Qed.

(* the computed reachable set is exact: nothing is in it that no path reaches *)
Theorem C01_closure_exact :
  forall n, inb (reachable_closure g entry_points) n = true <->
            exists e, In e entry_points /\ reachable g e n.
Proof.
  apply (check_avoid_exact g effects entry_points [Effectful]). vm_compute. reflexivity.
Qed.

(* ---- non-vacuity ---- *)
(* the graph and the entry points are not empty, and every entry point is a body of the graph *)
Example C01_nonvacuous_graph :
  0 < List.length entry_points /\ List.length effects = List.length g /\
  List.length node_names = List.length g /\
  forallb (fun e => Nat.ltb e n_bodies) entry_points = true /\ n_bodies < List.length g.
Proof. vm_compute. repeat split; auto; repeat constructor. Qed.

(* reachability is not trivial: the entry points do reach the tokeniser's read of the input, the
   package-data read, printing and the report write *)
Example C01_nonvacuous_reaches :
  forall c, In c [ReadFixed; ReadInput; Print; WriteUserPath] ->
  exists n e, In e entry_points /\ reachable g e n /\ effect n = c.
Proof.
  intros c Hc.
  assert (H : forallb (fun c => existsb (fun n => eff_eqb (effect n) c)
                                       (members (reachable_closure g entry_points)))
                [ReadFixed; ReadInput; Print; WriteUserPath] = true) by (vm_compute; reflexivity).
  rewrite forallb_forall in H. specialize (H c Hc). apply existsb_exists in H.
  destruct H as [n [Hn Heq]]. apply eff_eqb_eq in Heq.
  pose proof (proj1 (members_In (reachable_closure g entry_points) n) Hn) as Hn'.
  destruct (closure_members_reachable g entry_points n Hn') as [e [He Hr]].
  exists n, e. split; [exact He | split; [exact Hr | exact Heq]].
Qed.

(* the checker can say no: the whole graph does contain Effectful nodes (the synthetic non-entry
   sentinel that calls eval, and whatever the non-analysis parts of fickling really call, e.g.
   compile() in the payload injector); from the sentinel an Effectful leaf IS reachable and the
   executable check rejects it *)
Example C01_nonvacuous_effectful_exists :
  existsb (fun n => eff_eqb (effect n) Effectful) (seq 0 (List.length g)) = true /\
  ~ In sentinel entry_points /\
  check_avoid g effects [sentinel] [Effectful] = false /\
  exists n, reachable g sentinel n /\ effect n = Effectful.
Proof.
  split; [vm_compute; reflexivity|]. split.
  { intro H. assert (N : existsb (Nat.eqb sentinel) entry_points = false) by (vm_compute; reflexivity).
    assert (Y : existsb (Nat.eqb sentinel) entry_points = true).
    { apply existsb_exists. exists sentinel. split; [exact H | apply Nat.eqb_refl]. }
    congruence. }
  split; [vm_compute; reflexivity|].
  assert (H : existsb (fun n => eff_eqb (effect n) Effectful)
                       (members (reachable_closure g [sentinel])) = true)
    by (vm_compute; reflexivity).
  apply existsb_exists in H. destruct H as [n [Hn Heq]]. apply eff_eqb_eq in Heq.
  pose proof (proj1 (members_In (reachable_closure g [sentinel]) n) Hn) as Hn'.
  destruct (closure_members_reachable g [sentinel] n Hn') as [e [[He|[]] Hr]]. subst e.
  exists n. split; [exact Hr | exact Heq].
Qed.

Print Assumptions C01_no_effectful_reachable.
Print Assumptions C01_trace_inert.
Print Assumptions C01_closure_exact.
