(* C05 -- Decompiled program rebuilds the same value as the real pickle VM (layer A: the symbolic
   result DENOTES the VM's value; see DESIGN.md 5/C05 for layer B, which is differential). *)
From Coq Require Import List String ZArith Bool Arith.
From Verif Require Import Base Ops Interp RefVM SimRel SimProofs PyEval PyEvalProofs.
Import ListNotations.
Local Open Scope nat_scope.
Local Open Scope list_scope.

(* One opcode: the relation R ("every symbolic expression on the stack / in the memo / in a mutable
   node / in an emitted statement denotes the corresponding VM value, node i is heap object i, the
   module body matches the event log") is preserved by every opcode both machines accept. *)
Theorem C05_lockstep : forall o al f v f' v',
  vstopped v = None -> R al f v -> step o f = Ok f' -> vstep o v = Ok v' ->
  exists al', ext al al' /\ R al' f' v'.
Proof. exact lockstep. Qed.

(* Whole programs of any length, any nesting, any sharing, any memo traffic: if the reference VM
   returns value x and decompilation succeeds, then the decompiled program ends with
   `result = e` where e denotes x, the environment of fickling's variables binds exactly stand-in
   objects, and every mutable node holds expressions denoting the contents of the VM's object. *)
Theorem C05_result_denotes_value : forall p first_var f' v' x,
  run_from p (fk_init first_var) = Ok f' -> vrun_from p vm_init = Ok v' -> vstopped v' = Some x ->
  exists al e b,
    body f' = SResult e :: b /\ rel al e x /\
    Forall2 (rel_node al) (nodes f') (heap v') /\
    rel_events al (body f') (log v') /\
    Forall (fun y => callable y = true) al /\ ctr f' = List.length al.
Proof.
  intros p n f' v' x Hs Hv Hx.
  destruct (run_lockstep p _ _ _ _ _ (R_init n) Hs Hv) as (al & _ & [Rs Rm Rh Re Rc Rv Rp]).
  rewrite Hx in Rp. destruct Rp as (_ & e & b & Hb & Hr).
  exists al, e, b. repeat split; assumption.
Qed.

(* non-vacuity: [d, d] with d = {'a': 1} at protocol 2 (the shape that was wrong on the pinned tree),
   a set built with ADDITEMS and an object with state: both machines accept, and the symbolic result
   is a list node whose two elements are the SAME dict node *)
Definition shared_dict : list op :=
  [ONoop; OEmptyList; OPut 0; OMark; OEmptyDict; OPut 1; OConst (CStr "a"); OConst (CInt 1);
   OSetItem; OGet 1; OAppends; OStop].
Example C05_nonvacuous_shared_dict :
  match run shared_dict, vrun shared_dict with
  | Ok f, Ok v =>
      body f = [SResult (ENode 0)] /\
      nodes f = [NList [ENode 1; ENode 1]; NDict [(EConst (CStr "a"), EConst (CInt 1))]] /\
      vstopped v = Some (VRef 0) /\
      heap v = [HList [VRef 1; VRef 1]; HDict [(VConst (CStr "a"), VConst (CInt 1))]]
  | _, _ => False
  end.
Proof. vm_compute. auto. Qed.

(* ---------------------------------------------------------------------------------------------
   Layer B: EVALUATING the decompiled program (PyEval.v: a mini-Python evaluator for the statement /
   expression subset fickling emits, against the same inert stand-ins as the reference VM; a
   mutable node is a list / set / dict DISPLAY of its final contents, and every evaluation of a
   display allocates a fresh object) rebuilds the VM's value.

   Plain data -- constants, MARK / POP / POP_MARK / DUP, tuples, EMPTY_LIST / DICT / SET, APPEND(S),
   SETITEM(S), ADDITEMS, LIST / DICT / FROZENSET, memo PUT / GET / MEMOIZE, PROTO / FRAME, STOP --
   programs of ANY length, nesting and sharing that both machines accept, whose VM result is
   acyclic (same_shape n h h x x = true says exactly: x unfolds to a finite tree of depth < n):
   evaluating `result = e` with fuel n succeeds, neither side logs an event, and the result
   unfolds to the SAME tree as the VM's value.  Sharing between two displays of one node is lost in
   the evaluated value ([d, d] is rebuilt as two equal dicts); for a final value that nobody
   mutates afterwards tree equality is the right notion of "same value" (the property's
   "sharing preserved wherever it affects the value"): sets and dicts are compared by their
   insertion histories, which determine the Python set / dict. *)
Theorem C05_plain_data_eval : forall p n f v x,
  forallb data_op p = true -> run p = Ok f -> vrun p = Ok v -> vstopped v = Some x ->
  same_shape n (heap v) (heap v) x x = true ->
  exists st r, py_run n p = Ok st /\ presult st = Some r /\ plog st = [] /\ log v = [] /\
               same_shape n (heap v) (pheap st) x r = true.
Proof. exact plain_data_eval. Qed.

(* the general evaluator lemma behind it (all expressions fickling emits): an expression that
   denotes VM value v (layer A's relation) evaluates -- in an environment where _var<i> is bound to
   the stand-in it names and node displays are rebuilt from the final nodes -- to a value
   observationally equal to v *)
Theorem C05_eval_denotes : forall P al ns h imps vars bound okname,
  Forall2 (rel_node al) ns h -> forallb (obj_wf P) h = true ->
  (forall i x, i < bound -> nth_error al i = Some x ->
     exists y, lookup_var i vars = Some y /\ leaf_same x y = true) ->
  (forall m n, P (VGlobal m n) = true -> okname n = true -> leaf_same (VGlobal m n) (lookup_name n imps) = true) ->
  forall n e v hp, fits n ns bound okname e = true -> rel al e v -> wfv P v = true ->
  exists v' hp', eval ns imps vars n e hp = Ok (v', hp ++ hp') /\
                 same_shape n h (hp ++ hp') v v' = true.
Proof. exact eval_denotes. Qed.

(* frozensets hold hashable elements, set members and dict keys are hashable: an invariant of the
   reference VM over every opcode (needed because a Python set / dict display re-checks it) *)
Theorem C05_vm_wellformed : forall p v,
  vrun p = Ok v -> vm_wf any_standin v = true.
Proof.
  intros p v H. apply vm_wf_WF. eapply wf_run; [right; split; reflexivity | exact H | apply WF_init].
Qed.

(* non-vacuity: the shared dict [d, d] (acyclic, depth 3): hypotheses hold, the evaluated result is
   a list of two equal dicts *)
Example C05_plain_data_nonvacuous :
  forallb data_op shared_dict = true /\
  match run shared_dict, vrun shared_dict, py_run 4 shared_dict with
  | Ok f, Ok v, Ok st =>
      vstopped v = Some (VRef 0) /\ same_shape 4 (heap v) (heap v) (VRef 0) (VRef 0) = true /\
      presult st = Some (VRef 2) /\
      pheap st = [HDict [(VConst (CStr "a"), VConst (CInt 1))];
                  HDict [(VConst (CStr "a"), VConst (CInt 1))]; HList [VRef 0; VRef 1]] /\
      same_shape 4 (heap v) (pheap st) (VRef 0) (VRef 2) = true
  | _, _, _ => False
  end.
Proof. vm_compute. repeat split; reflexivity. Qed.

(* a cyclic value (l = []; l.append(l)) is outside: it has no finite unfolding at any depth tried,
   and the evaluator runs out of fuel (Err EFuel) instead of answering *)
Example C05_cyclic_is_excluded :
  let p := [OEmptyList; OPut 0; OGet 0; OAppend; OStop] in
  match vrun p with
  | Ok v => vstopped v = Some (VRef 0) /\ same_shape 50 (heap v) (heap v) (VRef 0) (VRef 0) = false
  | _ => False
  end /\ py_run 50 [OEmptyList; OPut 0; OGet 0; OAppend; OStop] = Err EFuel.
Proof. vm_compute. repeat split; reflexivity. Qed.

(* ---------------------------------------------------------------------------------------------
   Calls.  For every program both machines accept -- any mix of data with GLOBAL / STACK_GLOBAL / INST /
   OBJ / NEWOBJ / NEWOBJ_EX (with its **kwargs dict) / REDUCE / BINPERSID and BUILD / SETITEM / SETITEMS
   applied to an object or to a global itself (one item assignment per pair, finding D22 repaired), of
   any length -- evaluating the decompiled program succeeds, its result unfolds to the same tree as the
   VM's value, and its event log IS the VM's log: same imports (resolves of builtins are implicit in
   Python), same callee, arguments and keyword-argument dict for every call, same persistent ids, same
   state applied to the same object, same item assignments, in the same order, with opaque results
   numbered alike -- under the two boolean side conditions that stand for the two known findings:
     defined_before_use n f   every statement of the decompiled program prints within depth n and uses
                              only variables assigned / names imported by EARLIER statements: the
                              observable core of finding D15 (a node mutated after an emitted
                              statement captured it is printed with its final contents; with both
                              logs rendered against the final heaps this is only visible when the
                              final contents mention a later variable or import), and
     distinct_attr_names      finding D14: same attribute name => same module.
   No opcode or statement form that fickling emits is excluded any more (defined_before_use is false
   only on D15 programs, on programs deeper than n, and on statement forms fickling never emits).
   Idealisation shared by both models: the "keywords must be strings" check of a ** call is not
   modelled (RefVM and PyEval both accept any hashable key; CPython raises TypeError on both sides). *)
Theorem C05_eval_agrees : forall p n f v x,
  run p = Ok f -> vrun p = Ok v -> vstopped v = Some x ->
  defined_before_use n f = true -> distinct_attr_names (log v) = true ->
  exists st r, py_run n p = Ok st /\ presult st = Some r /\
    same_shape n (heap v) (pheap st) x r = true /\
    forallb2 (same_event n (heap v) (pheap st)) (filter visible_event (log v)) (plog st) = true.
Proof. exact eval_agrees. Qed.

(* NEWOBJ_EX with keyword arguments, and BUILD / SETITEM applied to a global itself *)
Example C05_eval_agrees_kwargs_and_global_alias :
  let p := [OGlobal "m" "C"; OEmptyTuple; OEmptyDict; OConst (CStr "k"); OEmptyList; OSetItem; ONewObjEx;
            OPop; OGlobal "__builtin__" "eval"; OConst CNone; OBuild; OConst (CInt 1); OConst (CInt 2);
            OSetItem; OStop] in
  match run p, vrun p, py_run 5 p with
  | Ok f, Ok v, Ok st =>
      defined_before_use 5 f = true /\ distinct_attr_names (log v) = true /\
      vstopped v = Some (VGlobal "__builtin__" "eval") /\ presult st = Some (VGlobal "builtins" "eval") /\
      List.length (log v) = 5 /\ List.length (plog st) = 4 /\
      forallb2 (same_event 5 (heap v) (pheap st)) (filter visible_event (log v)) (plog st) = true
  | _, _, _ => False
  end.
Proof. vm_compute. repeat split; reflexivity. Qed.

(* non-vacuity: from os import system; _var0 = system('x', [..shared..]); _var1 = _var0;
   _var1.__setstate__({'k': [1]}); result = (_var1, [1]) *)
Definition call_prog : list op :=
  [OGlobal "os" "system"; OMark; OConst (CStr "x"); OEmptyList; OPut 1; OConst (CInt 1); OAppend;
   OTuple; OReduce; OEmptyDict; OConst (CStr "k"); OGet 1; OSetItem; OBuild; OGet 1; OTuple2; OStop].
Example C05_eval_agrees_nonvacuous :
  match run call_prog, vrun call_prog, py_run 5 call_prog with
  | Ok f, Ok v, Ok st =>
      defined_before_use 5 f = true /\ distinct_attr_names (log v) = true /\
      vstopped v = Some (VTuple [VObj 0; VRef 0]) /\
      List.length (log v) = 3 /\ List.length (plog st) = 3 /\
      presult st = Some (VTuple [VObj 0; VRef 3])
  | _, _, _ => False
  end.
Proof. vm_compute. repeat split; reflexivity. Qed.

(* SETITEMS on an object with a repeated and an unhashable key (the D22 witnesses): covered now *)
Example C05_eval_agrees_setitems_on_object :
  let p := [OGlobal "os" "system"; OEmptyTuple; OReduce; OMark; OConst (CStr "a"); OConst (CInt 1); OConst (CStr "a");
            OConst (CInt 2); OEmptyList; OConst (CInt 3); OSetItems; OStop] in
  match run p, vrun p, py_run 5 p with
  | Ok f, Ok v, Ok st =>
      defined_before_use 5 f = true /\ distinct_attr_names (log v) = true /\
      List.length (log v) = 5 /\ List.length (plog st) = 5 /\
      forallb2 (same_event 5 (heap v) (pheap st)) (filter visible_event (log v)) (plog st) = true
  | _, _, _ => False
  end.
Proof. vm_compute. repeat split; reflexivity. Qed.

(* both side conditions are needed: the faithful model violates the conclusion without them *)
(* D15: l = []; o = persistent_load(l); l.append(o)  decompiles to
   `_var0 = UNPICKLER.persistent_load([_var0])`: _var0 is used before it is assigned *)
Example C05_eval_agrees_refuted_without_D15 :
  exists p f v st,
    run p = Ok f /\ vrun p = Ok v /\ py_run 10 p = Ok st /\
    distinct_attr_names (log v) = true /\ defined_before_use 10 f = false /\
    forallb2 (same_event 10 (heap v) (pheap st)) (filter visible_event (log v)) (plog st) = false.
Proof.
  exists [OEmptyList; ODup; OBinPersId; OAppend; OStop].
  do 3 eexists. repeat (split; [vm_compute; reflexivity|]). vm_compute. reflexivity.
Qed.

(* D14: a.f and b.f share the Python name f: the VM calls a.f, the decompiled program calls b.f *)
Example C05_eval_agrees_refuted_without_D14 :
  exists p f v st,
    run p = Ok f /\ vrun p = Ok v /\ py_run 10 p = Ok st /\
    distinct_attr_names (log v) = false /\ defined_before_use 10 f = true /\
    forallb2 (same_event 10 (heap v) (pheap st)) (filter visible_event (log v)) (plog st) = false.
Proof.
  exists [OGlobal "a" "f"; OGlobal "b" "f"; OPop; OEmptyTuple; OReduce; OStop].
  do 3 eexists. repeat (split; [vm_compute; reflexivity|]). vm_compute. reflexivity.
Qed.

Print Assumptions C05_lockstep.
Print Assumptions C05_result_denotes_value.
Print Assumptions C05_plain_data_eval.
Print Assumptions C05_eval_denotes.
Print Assumptions C05_vm_wellformed.
Print Assumptions C05_eval_agrees.
