(* C05 -- Decompiled program rebuilds the same value as the real pickle VM (layer A: the symbolic
   result DENOTES the VM's value; see DESIGN.md 5/C05 for layer B, which is differential). *)
From Coq Require Import List String ZArith Bool Arith.
From Verif Require Import Base Ops Interp RefVM SimRel SimProofs.
Import ListNotations.
Local Open Scope nat_scope.

(* One opcode: the relation R ("every symbolic expression on the stack / in the memo / in a mutable
   node / in an emitted statement denotes the corresponding VM value, node i is heap object i, the
   module body matches the event log") is preserved by every opcode both machines accept. *)
Theorem C05_lockstep : forall o al f v f' v',
  vstopped v = None -> R al f v -> step o f = Ok f' -> vstep o v = Ok v' ->
  exists al', ext al al' /\ R al' f' v'.
Proof. exact lockstep. Qed.

(* Whole programs of any length, any nesting, any sharing, any memo traffic: if the reference VM
   returns value x and decompilation succeeds, then the decompiled program ends with
   `result = e` where e denotes x, the environment of fickling's variables binds exactly stand-in
   objects, and every mutable node holds expressions denoting the contents of the VM's object. *)
Theorem C05_result_denotes_value : forall p first_var f' v' x,
  run_from p (fk_init first_var) = Ok f' -> vrun_from p vm_init = Ok v' -> vstopped v' = Some x ->
  exists al e b,
    body f' = SResult e :: b /\ rel al e x /\
    Forall2 (rel_node al) (nodes f') (heap v') /\
    rel_events al (body f') (log v') /\
    Forall (fun y => callable y = true) al /\ ctr f' = List.length al.
Proof.
  intros p n f' v' x Hs Hv Hx.
  destruct (run_lockstep p _ _ _ _ _ (R_init n) Hs Hv) as (al & _ & [Rs Rm Rh Re Rc Rv Rp]).
  rewrite Hx in Rp. destruct Rp as (_ & e & b & Hb & Hr).
  exists al, e, b. repeat split; assumption.
Qed.

(* non-vacuity: [d, d] with d = {'a': 1} at protocol 2 (the shape that was wrong on the pinned tree),
   a set built with ADDITEMS and an object with state: both machines accept, and the symbolic result
   is a list node whose two elements are the SAME dict node *)
Definition shared_dict : list op :=
  [ONoop; OEmptyList; OPut 0; OMark; OEmptyDict; OPut 1; OConst (CStr "a"); OConst (CInt 1);
   OSetItem; OGet 1; OAppends; OStop].
Example C05_nonvacuous_shared_dict :
  match run shared_dict, vrun shared_dict with
  | Ok f, Ok v =>
      body f = [SResult (ENode 0)] /\
      nodes f = [NList [ENode 1; ENode 1]; NDict [(EConst (CStr "a"), EConst (CInt 1))]] /\
      vstopped v = Some (VRef 0) /\
      heap v = [HList [VRef 1; VRef 1]; HDict [(VConst (CStr "a"), VConst (CInt 1))]]
  | _, _ => False
  end.
Proof. vm_compute. auto. Qed.

Print Assumptions C05_lockstep.
Print Assumptions C05_result_denotes_value.
