(* C08 -- Injection adds exactly one call and preserves the original pickle's behaviour.

   Base pickle: base_run p = Some (r, sq)  <=>  p = q ++ [STOP], q runs on the reference VM from
   the empty machine to sq WITHOUT stopping (p ends in its only executed STOP) and sq's stack is
   exactly [r] with no open mark (so the base returns r and leaves the stack empty).  The base
   pickle itself then runs to [stopped_with r sq] (C08_base_behaviour).  Nothing is assumed about
   the base's memo keys: the fixed keys 321987 / 1 / 2 and MEMOIZE are only ever written and read
   after the last base opcode, so they cannot disturb the base (this is what the proofs show).

   Each theorem gives the COMPLETE final VM state of the rewritten program (value, stack, heap,
   event log, object counter); only the memo is left existential.  Event logs are newest first.
   For insert_python the base runs after the injected set-up, so its own heap references / opaque
   call results are renamed by the shifts shv/she/shh (by the number of argument heap objects, and
   by one object id when the call ran first); contents and order are otherwise unchanged. *)
From Coq Require Import List String Ascii ZArith Bool Arith Lia.
From Verif Require Import Base Ops Interp RefVM Unparse Severity SeverityProofs AnalysisTable
  Analysis AnalysisProofs FloorProofs SimRel SimProofs Inject InjectProofs.
Import ListNotations.
Local Open Scope nat_scope.

Theorem C08_base_behaviour : forall p r sq,
  base_run p = Some (r, sq) -> vrun_from p vm_init = Ok (stopped_with r sq).
Proof. exact base_run_result. Qed.

(* FRAME lemma (all 40 abstract opcodes, any program length): a run that succeeds from s succeeds
   identically above extra bottom-of-stack values b, after dn earlier calls, with hp earlier heap
   objects and an earlier log lg0 -- leaving all of those untouched *)
Theorem C08_frame : forall dn hp lg0 b p s s',
  vrun_from p s = Ok s' -> vrun_from p (lift dn hp lg0 b s) = Ok (lift dn hp lg0 b s').
Proof. exact vrun_lift. Qed.

(* what "the given arguments" decode to: the VM's own evaluation of the encoded argument block;
   for constant arguments it is the constants themselves, for every m n *)
Theorem C08_args_eval_consts : forall m n cs,
  plain2 m n = true -> args_eval m n (map AConst cs) (map VConst cs) [].
Proof. exact args_eval_consts. Qed.

(* insert_python / insert_python_eval / insert_python_exec, run_first=True: exactly one call
   (VGlobal m n)(vals), made first (oldest log entries: its EvResolve, then the EvCall producing object
   0); every base event follows in the original order; value = the base's (keep) or the call's
   object 0 (replace); stack empty at STOP *)
Theorem C08_insert_run_first : forall m n args vals hp,
  plain2 m n = true -> args_eval m n args vals hp ->
  forall p r sq replace p',
  base_run p = Some (r, sq) ->
  inject (MInsert m n args true replace) p = Ok p' ->
  exists mm',
  vrun_from p' vm_init =
  Ok (mkVm [] [] mm' (hp ++ map (shh 1 hp) (heap sq))
           (map (she 1 hp) (log sq) ++ [EvCall (VGlobal m n) vals None 0; EvResolve m n])
           (nobj sq + 1) (Some (if replace then VObj 0 else shv 1 hp r))).
Proof. intros m n args vals hp P AE p r sq rep p' HB HI. eapply insert_run_first_spec; eauto. Qed.

(* run_first=False: the global is resolved first, the call is the LAST event; the memo index the
   injector takes from fickling's symbolic run equals the VM's memo length (C09 shape lockstep) *)
Theorem C08_insert_run_last : forall m n args vals hp,
  plain2 m n = true -> args_eval m n args vals hp ->
  forall p r sq replace p',
  base_run p = Some (r, sq) ->
  inject (MInsert m n args false replace) p = Ok p' ->
  exists mm',
  vrun_from p' vm_init =
  Ok (mkVm [] [] mm' (hp ++ map (shh 0 hp) (heap sq))
           (EvCall (VGlobal m n) vals None (nobj sq + 0) :: map (she 0 hp) (log sq) ++ [EvResolve m n])
           (S (nobj sq + 0)) (Some (if replace then VObj (nobj sq + 0) else shv 0 hp r))).
Proof. intros m n args vals hp P AE p r sq rep p' HB HI. eapply insert_run_last_spec; eauto. Qed.

(* append_python: the base runs unchanged, then exactly one call.  pop_result=True keeps r and
   leaves the stack empty; pop_result=False returns the call's value and LEAVES r ON THE STACK *)
Theorem C08_append : forall p r sq m n cs pop p',
  base_run p = Some (r, sq) -> plain2 m n = true ->
  inject (MAppend m n cs pop) p = Ok p' ->
  vrun_from p' vm_init =
  Ok (mkVm (if pop then [] else [r]) [] (vmemo sq) (heap sq)
           (EvCall (VGlobal m n) (map VConst cs) None (nobj sq) :: EvResolve m n :: log sq)
           (S (nobj sq)) (Some (if pop then r else VObj (nobj sq)))).
Proof. intros p r sq m n cs pop p' HB P HI. exact (append_python_spec p r sq m n cs pop p' HB P HI). Qed.

(* the full statement asks for an empty stack in every mode: false for pop_result=False, on every base *)
Theorem C08_append_nopop_stack_refuted : exists p r sq m n cs p' v,
  base_run p = Some (r, sq) /\ inject (MAppend m n cs false) p = Ok p' /\
  vrun_from p' vm_init = Ok v /\ cur v = [r] /\ cur v <> [].
Proof.
  exists [OConst (CInt 1); OStop]. do 2 eexists. exists "m"%string, "f"%string, []. do 2 eexists.
  split; [vm_compute; reflexivity|]. split; [vm_compute; reflexivity|].
  split; [vm_compute; reflexivity|]. split; [reflexivity|discriminate].
Qed.

(* insert_function_call_on_unpickled_object: the function (what eval(fname) returned) is applied
   exactly once, last, to (r, constant args...); its result is the value; the stack is empty.  The
   helper's own preparatory calls (exec of the definition / marshal.loads, eval of the name) precede it *)
Theorem C08_call_on_object : forall p r sq fdef fname bc cargs p',
  base_run p = Some (r, sq) ->
  inject (MCallObj fdef fname bc cargs) p = Ok p' ->
  let k := nobj sq in
  let f := callobj_fn bc k in
  exists mm',
  vrun_from p' vm_init =
  Ok (mkVm [] [] mm' (heap sq)
           (EvCall (VObj f) (r :: map VConst cargs) None (S f) :: callobj_log fdef fname bc k (log sq))
           (S (S f)) (Some (VObj (S f)))).
Proof. intros p r sq fdef fname bc cargs p' HB HI. exact (callobj_spec p r sq fdef fname bc cargs p' HB HI). Qed.

(* insert_magic_int at ANY index (default -1, any other negative index, any non-negative index, out of
   range ones clamped as Python does): the rewritten program runs to EXACTLY the same final state as
   the original, from any state.  (Before the repo fix for C08-F2 a negative index other than -1 put POP
   after the following opcode; the model follows the repaired code.) *)
Theorem C08_magic_int : forall magic index p s p',
  inject (MMagic magic index) p = Ok p' ->
  vrun_from p' s = vrun_from p s.
Proof. intros magic index p s p' H. injection H as <-. apply magic_run_same. Qed.

(* regression witness of C08-F2: index -2 on `1 .` now leaves the result alone *)
Example C08_magic_negative_index_fixed :
  inject (MMagic 5 (-2)) [OConst (CInt 1); OStop] = Ok [OConst (CInt 5); OPop; OConst (CInt 1); OStop].
Proof. vm_compute. reflexivity. Qed.

(* ---- non-vacuity: a framed base with its own call, shared reference and sparse memo keys that
   collide with every fixed key of the injector ---- *)
Definition demo_base : list op :=
  [ONoop; ONoop; OEmptyList; OPut 321987; OMemoize; OMark;
   OGlobal "verif_sink" "record"; OPut 1; OMark; OConst (CInt 7); OTuple; OReduce; OPut 2;
   OGet 321987; OGet 1; OAppends; OStop].

Example C08_nonvacuous_base : exists r sq, base_run demo_base = Some (r, sq) /\ List.length (log sq) = 2.
Proof. do 2 eexists. split; vm_compute; reflexivity. Qed.

Definition demo_args : list arg :=
  [AConst (CStr "x"); AList [AConst (CInt 1); ADict [(CStr "k", AList [])]]; ADict []].

Example C08_nonvacuous_args : exists vals hp, args_eval "c08_sink" "inj" demo_args vals hp /\ List.length hp = 4.
Proof. do 2 eexists. split; vm_compute; reflexivity. Qed.

Example C08_nonvacuous_inject :
  forallb (fun md => match inject md demo_base with
                     | Ok p' => match vrun_from p' vm_init with
                                | Ok v => match cur v, meta v, vstopped v with
                                          | [], [], Some _ => true | _, _, _ => false end
                                | Err _ => false end
                     | Err _ => false end)
    [MInsert "c08_sink" "inj" demo_args true true; MInsert "c08_sink" "inj" demo_args true false;
     MInsert "c08_sink" "inj" demo_args false true; MInsert "c08_sink" "inj" demo_args false false;
     MAppend "builtins" "eval" [CStr "1+1"] true; MMagic 77 (-1); MMagic 77 3;
     MCallObj "def f(o): return o" "f" None [CInt 1]; MCallObj "def f(o): return o" "f" (Some "bc") []] = true.
Proof. vm_compute. reflexivity. Qed.

(* ---- fickling's own verdict on the rewritten pickle ---- *)
Section Severity.
Variable crepr : const -> string.
Variable std : string -> bool.

(* a callee from outside the standard library (the harness's sink; any pip-installed gadget):
   at least LIKELY_UNSAFE, for every insert / append mode, every base and flag combination *)
Theorem C08_never_likely_safe_nonstd : forall md m n p p' v first_var s protos fs,
  (exists args rf rep, md = MInsert m n args rf rep) \/ (exists cs pop, md = MAppend m n cs pop) ->
  inject md p = Ok p' -> vrun_from p' vm_init = Ok v -> In (EvResolve m n) (log v) ->
  run_from p' (fk_init first_var) = Ok s -> analyze crepr std protos s = Some fs ->
  is_builtins m = false -> std m = false ->
  3 <= doc_rank (verdict fs).
Proof.
  intros md m n p p' v fv s protos fs _ _ Hv Hin Hs HA Hb Hstd.
  destruct (run_lockstep p' _ _ _ _ _ (R_init fv) Hs Hv) as (al & _ & [Rs Rm Rh Re Rc Rv Rp]).
  eapply body_floor_nonstd; eauto. eapply events_imports_covered; eauto.
Qed.

(* builtins eval / exec (what the CLI and the PyTorch injector use; also the helper calls of
   insert_function_call_on_unpickled_object): OVERTLY_MALICIOUS -- PARTIAL: unless the decompiled
   program contains a call through a variable fickling introduced (the C04 alias escape D18, which
   a base pickle can contain); that disjunct is not excluded here and is covered by the harness *)
Theorem C08_never_likely_safe_builtin_partial : forall p' v first_var s protos fs b f args kw k,
  vrun_from p' vm_init = Ok v -> In (EvCall (VGlobal b f) args kw k) (log v) ->
  In f ["eval"; "exec"]%string ->
  run_from p' (fk_init first_var) = Ok s -> analyze crepr std protos s = Some fs ->
  doc_rank (verdict fs) = 5 \/ (exists i j es kwe, In (SAssignV i (ECall (EVar j) es kwe)) (body s)).
Proof.
  intros p' v fv s protos fs b f args kw k Hv Hin Hf Hs HA.
  destruct (run_lockstep p' _ _ _ _ _ (R_init fv) Hs Hv) as (al & _ & [Rs Rm Rh Re Rc Rv Rp]).
  destruct (events_calls_covered _ _ _ Re _ _ _ _ Hin) as (i & fe & es & kwe & Hst & Hf' & _).
  inversion Hf'; subst.
  - left. eapply body_floor_bad_call; eauto.
    assert (forallb (fun x => mem_str x bad_calls) ["eval"; "exec"]%string = true) as T
      by (vm_compute; reflexivity).
    rewrite forallb_forall in T. specialize (T _ Hf). clear - T.
    induction bad_calls as [|y r IH]; cbn in T; [discriminate|].
    destruct (String.eqb_spec f y) as [->|_]; [left; reflexivity | right; auto].
  - right. eauto.
Qed.
End Severity.

Example C08_severity_nonvacuous :
  match inject (MInsert "builtins" "eval" [AConst (CStr "1+1")] false false) demo_base with
  | Ok p' => match run p' with
             | Ok s => match analyze (fun _ => "'1+1'"%string) (fun m => negb (String.eqb m "verif_sink")) [] s with
                       | Some fs => doc_rank (verdict fs) = 5
                       | None => False end
             | Err _ => False end
  | Err _ => False
  end.
Proof. vm_compute. reflexivity. Qed.

Print Assumptions C08_base_behaviour.
Print Assumptions C08_frame.
Print Assumptions C08_args_eval_consts.
Print Assumptions C08_insert_run_first.
Print Assumptions C08_insert_run_last.
Print Assumptions C08_append.
Print Assumptions C08_append_nopop_stack_refuted.
Print Assumptions C08_call_on_object.
Print Assumptions C08_magic_int.
Print Assumptions C08_never_likely_safe_nonstd.
Print Assumptions C08_never_likely_safe_builtin_partial.
