(* C08 -- placeholder while the harness is brought up *)
From Coq Require Import List String ZArith Bool Arith Lia.
From Verif Require Import Base Ops Interp RefVM Inject InjectProofs.
