(* C08 -- Injection adds exactly one call and preserves the original pickle's behaviour.

   Base pickle: base_run p = Some (r, sq)  <=>  p = q ++ [STOP], q runs on the reference VM from
   the empty machine to sq WITHOUT stopping (p ends in its only executed STOP) and sq's stack is
   exactly [r] with no open mark (so the base returns r and leaves the stack empty).  The base
   pickle itself then runs to [stopped_with r sq] (C08_base_behaviour).  Nothing is assumed about
   the base's memo keys: the fixed keys 321987 / 1 / 2 and MEMOIZE are only ever written and read
   after the last base opcode, so they cannot disturb the base (this is what the proofs show).

   Each theorem gives the COMPLETE final VM state of the rewritten program (value, stack, heap,
   event log, object counter); only the memo is left existential.  Event logs are newest first.
   For insert_python the base runs after the injected set-up, so its own heap references / opaque
   call results are renamed by the shifts shv/she/shh (by the number of argument heap objects, and
   by one object id when the call ran first); contents and order are otherwise unchanged. *)
From Coq Require Import List String Ascii ZArith Bool Arith Lia.
From Verif Require Import Base Ops Interp RefVM Unparse Severity SeverityProofs AnalysisTable
  Analysis AnalysisProofs FloorProofs SimRel SimProofs Shape ShapeProofs Inject InjectProofs InjectSevProofs InjectFkFrame.
Import ListNotations.
Local Open Scope nat_scope.

Theorem C08_base_behaviour : forall p r sq,
  base_run p = Some (r, sq) -> vrun_from p vm_init = Ok (stopped_with r sq).
Proof. exact base_run_result. Qed.

(* FRAME lemma (all 40 abstract opcodes, any program length): a run that succeeds from s succeeds
   identically above extra bottom-of-stack values b, after dn earlier calls, with hp earlier heap
   objects and an earlier log lg0 -- leaving all of those untouched *)
Theorem C08_frame : forall dn hp lg0 b p s s',
  vrun_from p s = Ok s' -> vrun_from p (lift dn hp lg0 b s) = Ok (lift dn hp lg0 b s').
Proof. exact vrun_lift. Qed.

(* ---- which arguments the helpers accept (as the code: int / float / str / bytes constants -- not
   bool, not None --, lists of accepted arguments, dicts with constant keys and accepted values, nested
   to any depth; anything else makes the helper raise ValueError) and what they decode to ---- *)
Theorem C08_insert_accepts : forall m n args rf rep p,
  ends_with_stop p = true -> forallb arg_ok args = true -> rf = true \/ rep = true ->
  exists p', inject (MInsert m n args rf rep) p = Ok p'.
Proof.
  intros m n args rf rep p E A F. cbn [inject]. unfold insert_python. rewrite E, A. cbn [negb].
  destruct rf; [destruct rep; eexists; reflexivity|]. destruct F as [F|F]; [discriminate|]. subst rep.
  eexists; reflexivity.
Qed.

(* run-last keep additionally needs fickling's own interpreter to accept the (prefixed) pickle: that
   is where the memo index comes from *)
Theorem C08_insert_run_last_keep_accepts : forall m n args p,
  ends_with_stop p = true -> forallb arg_ok args = true ->
  (exists p', inject (MInsert m n args false false) p = Ok p') <->
  (exists f, Interp.run (insert_block (skip_noops p) (call_setup m n (encode_objs args)) p) = Ok f).
Proof.
  intros m n args p E A. cbn [inject]. unfold insert_python. rewrite E, A. cbn [negb].
  destruct (run _) as [f|e]; cbn [bind]; split; intros (x & H); try discriminate H; eauto.
Qed.

Theorem C08_refuses : forall md p,
  match md with
  | MInsert _ _ args _ _ => ends_with_stop p = false \/ forallb arg_ok args = false
  | MAppend _ _ cs _ => ends_with_stop p = false \/ forallb const_ok cs = false
  | MCallObj _ _ _ cargs => ends_with_stop p = false \/ forallb const_ok cargs = false
  | MMagic _ _ => False
  end -> inject md p = Err EValue.
Proof.
  intros [m n args rf rep|m n cs pop|magic index|fdef fname bc cargs] p H; cbn [inject]; try contradiction;
    unfold insert_python, append_python, insert_call_on_object;
    destruct (ends_with_stop p); cbn [negb]; try reflexivity;
    destruct H as [H|H]; try discriminate H; rewrite H; reflexivity.
Qed.

(* "exactly the given arguments": dec_args args = (values, heap objects), a direct recursive reading of
   the arguments (constants are themselves; a list / dict is a fresh heap object holding its decoded
   items, inner objects allocated first).  For EVERY argument list -- nested lists and dicts to any
   depth -- the encoded block GLOBAL m n, MARK, <_encode_python_obj of each argument>, TUPLE evaluates on
   the reference VM, from the empty machine, to exactly these *)
Theorem C08_args_eval : forall m n args,
  plain2 m n = true ->
  vrun_from (call_setup m n (encode_objs args)) vm_init =
  Ok (mkVm [VTuple (fst (dec_args args)); VGlobal m n] [] [] (snd (dec_args args)) [EvResolve m n] 0 None).
Proof. exact args_eval_total. Qed.

Theorem C08_args_eval_consts : forall cs, dec_args (map AConst cs) = (map VConst cs, []).
Proof. exact dec_args_consts. Qed.

(* insert_python / insert_python_eval / insert_python_exec, run_first=True: exactly one call
   (VGlobal m n)(decoded args), made first (oldest log entries: its EvResolve, then the EvCall producing
   object 0); every base event follows in the original order; value = the base's (keep) or the call's
   object 0 (replace); stack empty at STOP *)
Theorem C08_insert_run_first : forall m n args,
  plain2 m n = true ->
  forall p r sq replace p',
  base_run p = Some (r, sq) ->
  inject (MInsert m n args true replace) p = Ok p' ->
  let vals := fst (dec_args args) in
  let hp := snd (dec_args args) in
  exists mm',
  vrun_from p' vm_init =
  Ok (mkVm [] [] mm' (hp ++ map (shh 1 hp) (heap sq))
           (map (she 1 hp) (log sq) ++ [EvCall (VGlobal m n) vals None 0; EvResolve m n])
           (nobj sq + 1) (Some (if replace then VObj 0 else shv 1 hp r))).
Proof.
  intros m n args P p r sq rep p' HB HI. cbv zeta.
  eapply insert_run_first_spec; eauto. apply args_eval_total. exact P.
Qed.

(* run_first=False: the global is resolved first, the call is the LAST event; the memo index the
   injector takes from fickling's symbolic run equals the VM's memo length (C09 shape lockstep) *)
Theorem C08_insert_run_last : forall m n args,
  plain2 m n = true ->
  forall p r sq replace p',
  base_run p = Some (r, sq) ->
  inject (MInsert m n args false replace) p = Ok p' ->
  let vals := fst (dec_args args) in
  let hp := snd (dec_args args) in
  exists mm',
  vrun_from p' vm_init =
  Ok (mkVm [] [] mm' (hp ++ map (shh 0 hp) (heap sq))
           (EvCall (VGlobal m n) vals None (nobj sq + 0) :: map (she 0 hp) (log sq) ++ [EvResolve m n])
           (S (nobj sq + 0)) (Some (if replace then VObj (nobj sq + 0) else shv 0 hp r))).
Proof.
  intros m n args P p r sq rep p' HB HI. cbv zeta.
  eapply insert_run_last_spec; eauto. apply args_eval_total. exact P.
Qed.

(* append_python: the base runs unchanged, then exactly one call.  pop_result=True keeps r and
   leaves the stack empty; pop_result=False returns the call's value and LEAVES r ON THE STACK *)
Theorem C08_append : forall p r sq m n cs pop p',
  base_run p = Some (r, sq) -> plain2 m n = true ->
  inject (MAppend m n cs pop) p = Ok p' ->
  vrun_from p' vm_init =
  Ok (mkVm (if pop then [] else [r]) [] (vmemo sq) (heap sq)
           (EvCall (VGlobal m n) (map VConst cs) None (nobj sq) :: EvResolve m n :: log sq)
           (S (nobj sq)) (Some (if pop then r else VObj (nobj sq)))).
Proof. intros p r sq m n cs pop p' HB P HI. exact (append_python_spec p r sq m n cs pop p' HB P HI). Qed.

(* the full statement asks for an empty stack in every mode: false for pop_result=False, on every base *)
Theorem C08_append_nopop_stack_refuted : exists p r sq m n cs p' v,
  base_run p = Some (r, sq) /\ inject (MAppend m n cs false) p = Ok p' /\
  vrun_from p' vm_init = Ok v /\ cur v = [r] /\ cur v <> [].
Proof.
  exists [OConst (CInt 1); OStop]. do 2 eexists. exists "m"%string, "f"%string, []. do 2 eexists.
  split; [vm_compute; reflexivity|]. split; [vm_compute; reflexivity|].
  split; [vm_compute; reflexivity|]. split; [reflexivity|discriminate].
Qed.

(* insert_function_call_on_unpickled_object: the function (what eval(fname) returned) is applied
   exactly once, last, to (r, constant args...); its result is the value; the stack is empty.  The
   helper's own preparatory calls (exec of the definition / marshal.loads, eval of the name) precede it *)
Theorem C08_call_on_object : forall p r sq fdef fname bc cargs p',
  base_run p = Some (r, sq) ->
  inject (MCallObj fdef fname bc cargs) p = Ok p' ->
  let k := nobj sq in
  let f := callobj_fn bc k in
  exists mm',
  vrun_from p' vm_init =
  Ok (mkVm [] [] mm' (heap sq)
           (EvCall (VObj f) (r :: map VConst cargs) None (S f) :: callobj_log fdef fname bc k (log sq))
           (S (S f)) (Some (VObj (S f)))).
Proof. intros p r sq fdef fname bc cargs p' HB HI. exact (callobj_spec p r sq fdef fname bc cargs p' HB HI). Qed.

(* insert_magic_int at ANY index (default -1, any other negative index, any non-negative index, out of
   range ones clamped as Python does): the rewritten program runs to EXACTLY the same final state as
   the original, from any state.  (Before the repo fix for C08-F2 a negative index other than -1 put POP
   after the following opcode; the model follows the repaired code.) *)
Theorem C08_magic_int : forall magic index p s p',
  inject (MMagic magic index) p = Ok p' ->
  vrun_from p' s = vrun_from p s.
Proof. intros magic index p s p' H. injection H as <-. apply magic_run_same. Qed.

(* ---- the rewritten pickle still ends with its single STOP (pure list reasoning) ----
   If the base ends in its only STOP then, for EVERY mode and every argument the helper accepts, the
   rewritten program contains exactly one STOP, and it is the last opcode -- for insert_magic_int
   provided the (resolved) index lies inside the program: list.insert at index >= len appends, so the
   marker then lands after STOP (dead bytes; the run is still unchanged by C08_magic_int) *)
Theorem C08_single_final_stop : forall md p p',
  single_final_stop p = true -> inject md p = Ok p' ->
  count_occ op_eq_dec p' OStop = 1 /\
  (match md with
   | MMagic _ index => (magic_slot index p < Z.of_nat (List.length p))%Z
   | _ => True
   end -> ends_with_stop p' = true).
Proof. exact inject_single_final_stop. Qed.

(* the side condition is necessary: index = len puts INT POP after STOP (observation, checked on the
   real code; an explicit out-of-range index is outside the property's modes) *)
Example C08_magic_index_past_stop_observation :
  inject (MMagic 5 2) [OConst (CInt 1); OStop] = Ok [OConst (CInt 1); OStop; OConst (CInt 5); OPop].
Proof. vm_compute. reflexivity. Qed.

(* regression witness of C08-F2: index -2 on `1 .` now leaves the result alone *)
Example C08_magic_negative_index_fixed :
  inject (MMagic 5 (-2)) [OConst (CInt 1); OStop] = Ok [OConst (CInt 5); OPop; OConst (CInt 1); OStop].
Proof. vm_compute. reflexivity. Qed.

(* ---- non-vacuity: a framed base with its own call, shared reference and sparse memo keys that
   collide with every fixed key of the injector ---- *)
Definition demo_base : list op :=
  [ONoop; ONoop; OEmptyList; OPut 321987; OMemoize; OMark;
   OGlobal "verif_sink" "record"; OPut 1; OMark; OConst (CInt 7); OTuple; OReduce; OPut 2;
   OGet 321987; OGet 1; OAppends; OStop].

Example C08_nonvacuous_base : exists r sq, base_run demo_base = Some (r, sq) /\ List.length (log sq) = 2.
Proof. do 2 eexists. split; vm_compute; reflexivity. Qed.

Definition demo_args : list arg :=
  [AConst (CStr "x"); AList [AConst (CInt 1); ADict [(CStr "k", AList [])]]; ADict []].

Example C08_nonvacuous_args :
  forallb arg_ok demo_args = true /\ List.length (fst (dec_args demo_args)) = 3 /\ List.length (snd (dec_args demo_args)) = 4 /\
  single_final_stop demo_base = true.
Proof. vm_compute. auto. Qed.

Example C08_nonvacuous_inject :
  forallb (fun md => match inject md demo_base with
                     | Ok p' => match vrun_from p' vm_init with
                                | Ok v => match cur v, meta v, vstopped v with
                                          | [], [], Some _ => true | _, _, _ => false end
                                | Err _ => false end
                     | Err _ => false end)
    [MInsert "c08_sink" "inj" demo_args true true; MInsert "c08_sink" "inj" demo_args true false;
     MInsert "c08_sink" "inj" demo_args false true; MInsert "c08_sink" "inj" demo_args false false;
     MAppend "builtins" "eval" [CStr "1+1"] true; MMagic 77 (-1); MMagic 77 3;
     MCallObj "def f(o): return o" "f" None [CInt 1]; MCallObj "def f(o): return o" "f" (Some "bc") []] = true.
Proof. vm_compute. reflexivity. Qed.

(* ---- fickling's own verdict on the rewritten pickle ---- *)
Section Severity.
Variable crepr : const -> string.
Variable std : string -> bool.

(* a callee from outside the standard library (the harness's sink; any pip-installed gadget):
   at least LIKELY_UNSAFE, for every insert / append mode, every base and flag combination *)
Theorem C08_never_likely_safe_nonstd : forall md m n p p' v first_var s protos fs,
  (exists args rf rep, md = MInsert m n args rf rep) \/ (exists cs pop, md = MAppend m n cs pop) ->
  inject md p = Ok p' -> vrun_from p' vm_init = Ok v -> In (EvResolve m n) (log v) ->
  run_from p' (fk_init first_var) = Ok s -> analyze crepr std protos s = Some fs ->
  is_builtins m = false -> std m = false ->
  3 <= doc_rank (verdict fs).
Proof.
  intros md m n p p' v fv s protos fs _ _ Hv Hin Hs HA Hb Hstd.
  destruct (run_lockstep p' _ _ _ _ _ (R_init fv) Hs Hv) as (al & _ & [Rs Rm Rh Re Rc Rv Rp]).
  eapply body_floor_nonstd; eauto. eapply events_imports_covered; eauto.
Qed.

(* FRAME lemma for fickling's SYMBOLIC interpreter (all 40 abstract opcodes, any program length),
   driven by the reference VM: while the VM accepts q from a state of the same shape, the symbolic run
   above extra bottom-of-stack items [bot] is the run without them, and leaves them untouched *)
Theorem C08_frame_symbolic : forall bot q s v v' t,
  shape_fk s = shape_vm v -> vrun_from q v = Ok v' -> run_from q (app_bot bot s) = Ok t ->
  exists s', run_from q s = Ok s' /\ t = app_bot bot s' /\ shape_fk s' = shape_vm v'.
Proof. exact run_unlift. Qed.

(* what fickling's OWN interpreter records for the injected call, for EVERY call-injecting mode and
   flag combination (for the call-on-object helper: its eval of the function name): the decompiled
   program contains `_var<i> = n(...)` with the callee printed by its NAME -- whatever the base pickle
   does (aliases of eval, memo tricks, its own globals named eval ...).  For run_first=False, where the
   REDUCE is separated from its GLOBAL by the whole base pickle, this uses C08_frame_symbolic *)
Theorem C08_injected_call_decompiled : forall md m n p r sq p' first_var s,
  injected_callee md = Some (m, n) -> plain2 m n = true ->
  single_final_stop p = true -> base_run p = Some (r, sq) ->
  inject md p = Ok p' -> run_from p' (fk_init first_var) = Ok s ->
  exists i es, In (SAssignV i (ECall (EName n) es None)) (body s).
Proof. exact injected_call_decompiled_all. Qed.

(* hence builtins eval / exec injected by ANY mode (what `fickling --inject` with or without
   --run-last / --replace-result, the PyTorch injector and insert_function_call_on_unpickled_object do)
   is rated OVERTLY_MALICIOUS outright: no alias / shadowing side condition, because BadCalls goes by
   the printed callee name and the injected callee is always printed by name *)
Theorem C08_never_likely_safe_builtin : forall md m n p r sq p' first_var s protos fs,
  injected_callee md = Some (m, n) -> plain2 m n = true -> In n ["eval"; "exec"]%string ->
  single_final_stop p = true -> base_run p = Some (r, sq) -> inject md p = Ok p' ->
  run_from p' (fk_init first_var) = Ok s -> analyze crepr std protos s = Some fs ->
  doc_rank (verdict fs) = 5.
Proof.
  intros md m n p r sq p' fv s protos fs HC P Hf HS HB HI Hs HA.
  destruct (injected_call_decompiled_all md m n p r sq p' fv s HC P HS HB HI Hs) as (i & es & Hin).
  eapply body_floor_bad_call; eauto.
  assert (forallb (fun x => mem_str x bad_calls) ["eval"; "exec"]%string = true) as T
    by (vm_compute; reflexivity).
  rewrite forallb_forall in T. specialize (T _ Hf). clear - T.
  induction bad_calls as [|y r IH]; cbn in T; [discriminate|].
  destruct (String.eqb_spec n y) as [->|_]; [left; reflexivity | right; auto].
Qed.
End Severity.

(* a base pickle that itself aliases builtins.eval through BUILD (the C04 alias escape D18) and calls
   the alias: the run-last injection into it is still rated OVERTLY_MALICIOUS *)
Definition alias_base : list op :=
  [ONoop; OGlobal "builtins" "eval"; OConst CNone; OBuild; OMark; OConst (CStr "1"); OTuple; OReduce; OStop].
Example C08_severity_alias_base :
  match inject (MInsert "builtins" "eval" [AConst (CStr "2")] false false) alias_base with
  | Ok p' => match run p', base_run alias_base with
             | Ok s, Some _ =>
                 match analyze (fun _ => "'1'"%string) (fun _ => true) [] s with
                 | Some fs => doc_rank (verdict fs) = 5 /\ single_final_stop alias_base = true
                 | None => False end
             | _, _ => False end
  | Err _ => False
  end.
Proof. vm_compute. auto. Qed.

Example C08_severity_nonvacuous :
  match inject (MInsert "builtins" "eval" [AConst (CStr "1+1")] false false) demo_base with
  | Ok p' => match run p' with
             | Ok s => match analyze (fun _ => "'1+1'"%string) (fun m => negb (String.eqb m "verif_sink")) [] s with
                       | Some fs => doc_rank (verdict fs) = 5
                       | None => False end
             | Err _ => False end
  | Err _ => False
  end.
Proof. vm_compute. reflexivity. Qed.

Print Assumptions C08_base_behaviour.
Print Assumptions C08_frame.
Print Assumptions C08_insert_accepts.
Print Assumptions C08_insert_run_last_keep_accepts.
Print Assumptions C08_refuses.
Print Assumptions C08_args_eval.
Print Assumptions C08_args_eval_consts.
Print Assumptions C08_single_final_stop.
Print Assumptions C08_frame_symbolic.
Print Assumptions C08_injected_call_decompiled.
Print Assumptions C08_never_likely_safe_builtin.
Print Assumptions C08_insert_run_first.
Print Assumptions C08_insert_run_last.
Print Assumptions C08_append.
Print Assumptions C08_append_nopop_stack_refuted.
Print Assumptions C08_call_on_object.
Print Assumptions C08_magic_int.
Print Assumptions C08_never_likely_safe_nonstd.
