(* C02 -- the checked load is fail-closed and loads exactly the bytes it analysed.
   Only the property theorems (closed by [exact] over proofs/LoaderProofs.v), non-vacuity examples
   and the assumptions.  Model: model/Loader.v (a transcription of fickling/loader.py over
   Codec.load_model, Analysis.analyze/verdict, Severity.sev_le and the Hooks bindings).

   Every theorem is stated inside a Section whose variables are the world the loader runs in --
   the stock unpickler [unpickle] (the ONLY producer of Resolve / Call events), pickletools'
   argument decoding [decode], constant repr and the stdlib-membership oracle -- so it holds for ALL
   of them, and for all streams (any kind, any offset, any content at any time), all thresholds and
   all arming histories.  No bound anywhere. *)
From Coq Require Import List String ZArith Bool Arith.
From Coq.Strings Require Import Byte.
From Verif Require Import Base Hooks HooksProofs Ops Interp RefVM Codec CodecProofs Analysis Severity
  SeverityProofs Loader LoaderProofs.
Import ListNotations.
Local Open Scope nat_scope.
Local Open Scope list_scope.

Section C02.
Variable V : Type.
Variable unpickle : list byte -> ures V * list event.
Variable decode : list opc -> option (list op * list (nat * Z)).
Variable crepr : const -> string.
Variable std : string -> bool.

Notation load := (Loader.load V unpickle decode crepr std).
Notation armed_load := (Loader.armed_load V unpickle decode crepr std).
Notation analysed := (LoaderProofs.analysed decode crepr std).
Notation refusal := (LoaderProofs.refusal decode crepr std).

(* A checked load returns an object only when the parse and the analysis succeeded and the verdict
   is at or below the threshold (in the documented ranking); the object, and every event of the
   call, is what the stock unpickler produces for the re-serialised parse, which is the first
   pickle's bytes as the parse saw them (C06) -- so this is also "equals the stock unpickler". *)
Theorem C02_returns_only_if_accepted : forall s thr v,
  wf thr -> r_out (load s thr) = Return v ->
  exists p fs,
    analysed s p fs /\
    sev_le (verdict fs) thr = true /\ doc_rank (verdict fs) <= doc_rank thr /\
    dumps (l_ops p) = Ok (analysed_bytes s p) /\
    fst (unpickle (analysed_bytes s p)) = UVal v /\
    r_events (load s thr) = snd (unpickle (analysed_bytes s p)) /\
    r_loaded (load s thr) = Some (analysed_bytes s p).
Proof. exact (returns_only_if_accepted V unpickle decode crepr std). Qed.

(* Fail-closed.  Whatever the reason for refusing -- Pickled.load raised, an argument did not decode,
   check_safety raised (an opcode the symbolic interpreter cannot execute, an unknown analysis), or
   the verdict exceeds the threshold -- the call raises, the event trace is EMPTY and the stock
   unpickler was never called. *)
Theorem C02_fail_closed : forall s thr x,
  refusal s thr x ->
  r_out (load s thr) = Raise x /\ r_events (load s thr) = [] /\ r_loaded (load s thr) = None.
Proof.
  intros s thr x R.
  exact (proj2 (refused_nothing_ran V unpickle decode crepr std s thr x R)).
Qed.

(* the four reasons, spelled out (so that the hypothesis of the theorem above is visibly exhaustive
   of "parse error / analysis error / severity above threshold") *)
Theorem C02_fail_closed_cases : forall s thr,
  (forall e, load_model (s_kind s) (s_at s T_PARSE) (s_off s) = LErr e -> refusal s thr (XParse e)) /\
  (forall p, load_model (s_kind s) (s_at s T_PARSE) (s_off s) = LOk p -> decode (l_ops p) = None ->
             refusal s thr (XParse LDecode)) /\
  (forall p prog protos a,
     load_model (s_kind s) (s_at s T_PARSE) (s_off s) = LOk p -> decode (l_ops p) = Some (prog, protos) ->
     Loader.check crepr std prog protos = CErr a -> refusal s thr (XAnalysis a)) /\
  (forall p fs, analysed s p fs -> sev_le (verdict fs) thr = false -> refusal s thr (XUnsafe (to_dict fs))).
Proof.
  intros s thr.
  exact (conj (RParse decode crepr std s thr)
        (conj (RDecode decode crepr std s thr)
        (conj (RAnalysis decode crepr std s thr) (RUnsafe decode crepr std s thr)))).
Qed.

(* ... the third reason in the documented ranking, and what the exception carries *)
Theorem C02_unsafe_carries_verdict : forall s thr p fs,
  wf thr -> analysed s p fs ->
  (sev_le (verdict fs) thr = false <-> doc_rank thr < doc_rank (verdict fs)) /\
  (sev_le (verdict fs) thr = false ->
     r_out (load s thr) = Raise (XUnsafe (to_dict fs)) /\
     rp_severity (to_dict fs) = sev_name (verdict fs) /\ rp_findings (to_dict fs) = fs /\
     r_events (load s thr) = [] /\ r_loaded (load s thr) = None).
Proof. exact (unsafe_carries_verdict V unpickle decode crepr std). Qed.

(* ... and conversely: ANY event, or any call of the stock unpickler, implies the verdict was accepted
   (this covers the one non-returning case that is not a refusal: the stock unpickler itself raising
   on accepted bytes, exactly as it would without fickling) *)
Theorem C02_effects_only_if_accepted : forall s thr,
  r_events (load s thr) <> [] \/ r_loaded (load s thr) <> None ->
  exists p fs, analysed s p fs /\ sev_le (verdict fs) thr = true /\
               r_loaded (load s thr) = Some (analysed_bytes s p) /\
               r_events (load s thr) = snd (unpickle (analysed_bytes s p)).
Proof. exact (effects_only_if_accepted V unpickle decode crepr std). Qed.

(* The bytes executed are the bytes analysed: the argument of the stock unpickler is dumps(parse),
   equal (C06) to the first pickle's bytes in the content the stream had DURING THE PARSE; the whole
   run is a function of that content only -- whatever the stream holds at any later time -- and the
   caller's stream is never accessed after the parse. *)
Theorem C02_bytes_executed_are_bytes_analysed : forall s thr,
  (forall bs, r_loaded (load s thr) = Some bs ->
     exists p, load_model (s_kind s) (s_at s T_PARSE) (s_off s) = LOk p /\
               dumps (l_ops p) = Ok bs /\ bs = analysed_bytes s p /\ ends_in_stop (l_ops p) (l_end p)) /\
  (forall s', s_kind s = s_kind s' -> s_off s = s_off s' -> s_at s T_PARSE = s_at s' T_PARSE ->
     load s thr = load s' thr) /\
  (forall t, In t (r_reads (load s thr)) -> t = T_PARSE).
Proof.
  intros s thr.
  exact (conj (loaded_is_analysed V unpickle decode crepr std s thr)
        (conj (fun s' => later_content_irrelevant V unpickle decode crepr std s s' thr)
              (reads_only_during_parse V unpickle decode crepr std s thr))).
Qed.

(* ... in particular neither what precedes the analysed pickle in the stream nor what follows it (a second
   pickle, garbage) is ever handed to the unpickler: for ANY pre, rest and any complete pickle b *)
Theorem C02_surroundings_never_executed : forall s thr pre b rest r bs,
  s_kind s = KSeekable -> s_off s = List.length pre -> s_at s T_PARSE = pre ++ b ++ rest ->
  load_model KSeekable b 0 = LOk r -> l_end r = List.length b ->
  r_loaded (load s thr) = Some bs -> bs = b.
Proof. exact (surroundings_irrelevant V unpickle decode crepr std). Qed.

(* The returned object (and the event trace) is the stock unpickler's on the bytes it was handed. *)
Theorem C02_equals_stock : forall s thr v,
  r_out (load s thr) = Return v ->
  exists bs, r_loaded (load s thr) = Some bs /\ unpickle bs = (UVal v, r_events (load s thr)).
Proof. exact (equals_stock V unpickle decode crepr std). Qed.

(* All three armings are the same function: after ANY hook history in which the ML environment is not
   active, pickle.load under always_check_safety() and inside the context manager -- whatever
   threshold the context manager was given -- is load at LIKELY_SAFE, which is at or below every
   threshold; fickling.load(file, thr) is load at thr. *)
Theorem C02_armed_equiv : forall h a s,
  g_ml (grun g_init h) = None ->
  armed_load h a s = Some (load s (match a with ADirect thr => thr | _ => LIKELY_SAFE end)) /\
  (forall t, wf t -> doc_rank LIKELY_SAFE <= doc_rank t).
Proof.
  intros h a s H.
  exact (conj (armed_equiv V unpickle decode crepr std h a s H) likely_safe_lowest).
Qed.

End C02.

(* The threshold test `result.severity <= max_acceptable_severity`, as the operator is written, over
   the regenerated enum: exhaustive over all 6 x 6 pairs. *)
Theorem C02_threshold_table :
  List.length all_thresholds = 6 /\
  forall a b, In a all_thresholds -> In b all_thresholds -> sev_le a b = (doc_rank a <=? doc_rank b).
Proof. exact (conj (proj2 threshold_table) threshold_spec). Qed.

(* ---------------- non-vacuity / witnesses ---------------- *)
(* a world: the unpickler returns the bytes it is handed and logs one Resolve event *)
Definition ex_unpickle (bs : list byte) : ures (list byte) * list event :=
  (UVal bs, [EvResolve "m" "n"]).
Definition ex_benign : list op := [OConst CNone; OStop].
Definition ex_flagged : list op :=
  [OGlobal "os" "system"; OConst (CStr "id"); OTuple1; OReduce; OStop].
Definition ex_crash : list op := [OGlobal "os" "system"; OConst (CStr "id"); OTuple1; OReduce; OPop; OPop; OStop].
Definition ex_std (m : string) : bool := String.eqb m "os".
Definition ex_load (prog : list op) :=
  Loader.load (list byte) ex_unpickle (fun _ => Some (prog, [])) (fun _ => "'id'"%string) ex_std.
Definition ex_reread (prog : list op) :=
  Loader.load_reread (list byte) ex_unpickle (fun _ => Some (prog, [])) (fun _ => "'id'"%string) ex_std.

Definition b_none : list byte := [x4e; x2e].          (* N.     *)
Definition b_evil : list byte := [x4b; x07; x2e].     (* K\x07. *)
(* a seekable stream at offset 2 whose content is swapped after the parse *)
Definition s_swap : stream :=
  mkStream KSeekable 2 (fun t => if Nat.eqb t T_PARSE then b_none ++ b_none ++ b_evil else b_none ++ b_evil).

(* accepted: the analysed bytes are executed although the stream now holds something else ... *)
Example C02_nonvacuous_accept :
  ex_load ex_benign s_swap LIKELY_SAFE = mkRun (Return b_none) [EvResolve "m" "n"] (Some b_none) [T_PARSE].
Proof. vm_compute. reflexivity. Qed.

(* ... whereas re-reading the stream for the real load (the design loader.py warns against) executes
   bytes that were never analysed *)
Example C02_reread_contrast :
  r_loaded (ex_reread ex_benign s_swap LIKELY_SAFE) = Some b_evil /\
  r_reads (ex_reread ex_benign s_swap LIKELY_SAFE) = [T_PARSE; T_LOAD].
Proof. vm_compute. split; reflexivity. Qed.

(* refused at every threshold below the verdict, accepted from the verdict on *)
Example C02_nonvacuous_threshold :
  exists r, ex_load ex_flagged s_swap LIKELY_SAFE = mkRun (Raise (XUnsafe r)) [] None [T_PARSE] /\
            rp_severity r = "LIKELY_OVERTLY_MALICIOUS"%string /\
            map (fun t => match r_out (ex_load ex_flagged s_swap t) with Return _ => true | Raise _ => false end)
                all_thresholds = [false; false; false; false; true; true].
Proof. eexists. split; [vm_compute; reflexivity|]. split; vm_compute; reflexivity. Qed.

(* analysis fails AFTER the program called os.system: refused, nothing ran *)
Example C02_nonvacuous_analysis_error :
  ex_load ex_crash s_swap 5 = mkRun (Raise (XAnalysis (AInterp EIndex))) [] None [T_PARSE].
Proof. vm_compute. reflexivity. Qed.

Example C02_nonvacuous_parse_error :
  ex_load ex_benign (mkStream KBytes 0 (fun _ => [xff])) 5 = mkRun (Raise (XParse LEmpty)) [] None [] /\
  ex_load ex_benign (mkStream KNonSeekable 0 (fun _ => [x46; x31; x0a; x2e])) 5
    = mkRun (Raise (XParse LNotImpl)) [] None [T_PARSE].
Proof. vm_compute. split; reflexivity. Qed.

(* the hypotheses of C02_surroundings_never_executed are met: b_none is a complete pickle *)
Example C02_nonvacuous_surroundings :
  exists r, load_model KSeekable b_none 0 = LOk r /\ l_end r = List.length b_none /\
            s_at s_swap T_PARSE = b_none ++ b_none ++ b_evil /\ s_off s_swap = List.length b_none.
Proof. eexists. split; [vm_compute; reflexivity|]. vm_compute. repeat split. Qed.

(* the hypothesis of C02_armed_equiv is met by non-trivial histories *)
Example C02_nonvacuous_history :
  let h := [HEnter; HProbe PLoad (mkP true []); HLeave; HActivate []; HRemove; HArm] in
  g_ml (grun g_init h) = None /\
  Loader.armed_load (list byte) ex_unpickle (fun _ => Some (ex_flagged, [])) (fun _ => "'id'"%string) ex_std
    h (AContext 5) s_swap = Some (ex_load ex_flagged s_swap LIKELY_SAFE) /\
  wf 5 /\ wf LIKELY_SAFE.
Proof. vm_compute. repeat split; repeat constructor. Qed.

Print Assumptions C02_returns_only_if_accepted.
Print Assumptions C02_fail_closed.
Print Assumptions C02_fail_closed_cases.
Print Assumptions C02_unsafe_carries_verdict.
Print Assumptions C02_effects_only_if_accepted.
Print Assumptions C02_bytes_executed_are_bytes_analysed.
Print Assumptions C02_surroundings_never_executed.
Print Assumptions C02_equals_stock.
Print Assumptions C02_armed_equiv.
Print Assumptions C02_threshold_table.
