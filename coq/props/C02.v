(* C02 -- the checked load is fail-closed and loads exactly the bytes it analysed.
   Only the property theorems (closed by [exact] over proofs/LoaderProofs.v), non-vacuity examples
   and the assumptions.  Model: model/Loader.v (a transcription of fickling/loader.py over
   Codec.load_model, Analysis.analyze/verdict, Severity.sev_le and the Hooks bindings).

   Every theorem is stated inside a Section whose variables are the world the loader runs in --
   the stock unpickler [unpickle] (the ONLY producer of Resolve / Call events), pickletools'
   argument decoding [decode], constant repr and the stdlib-membership oracle -- so it holds for ALL
   of them, and for all streams (any kind, any offset, any content at any time), all thresholds and
   all arming histories.  No bound anywhere. *)
From Coq Require Import List String ZArith Bool Arith.
From Coq.Strings Require Import Byte.
From Verif Require Import Base Hooks HooksProofs Ops Interp RefVM Codec CodecProofs Analysis Severity
  SeverityProofs Loader LoaderProofs.
Import ListNotations.
Local Open Scope nat_scope.
Local Open Scope list_scope.

Section C02.
Variable V : Type.
Variable unpickle : list byte -> ures V * list event.
Variable decode : list opc -> option (list op * list (nat * Z)).
Variable crepr : const -> string.
Variable std : string -> bool.

Notation load_core := (Loader.load_core V unpickle decode crepr std).
Notation load := (Loader.load V unpickle decode crepr std).
Notation analysed := (LoaderProofs.analysed decode crepr std).
Notation refusal := (LoaderProofs.refusal decode crepr std).

(* In every theorem about [load_core], p1 is the result of the first `Pickled.load(file)` and is
   universally quantified: ANY opcode list (or error) whatsoever -- positions, rows and data unrelated
   to any stream content -- i.e. any stream, including one that answers each read differently while it
   is being parsed.  rd = the times the caller's stream is accessed (also arbitrary). *)

(* A checked load returns an object only when the first parse re-serialised to some bytes [data], the
   RE-PARSE of data and its analysis succeeded and the verdict is at or below the threshold (in the
   documented ranking); the object, and every event of the call, is what the stock unpickler produces
   for exactly data; the analysed parse re-serialises to the first pickle of data (C06), which is all the
   stock unpickler executes of it. *)
Theorem C02_returns_only_if_accepted : forall p1 rd thr v,
  wf thr -> r_out (load_core p1 rd thr) = Return v ->
  exists data p2 fs,
    data_of p1 data /\ analysed data p2 fs /\
    sev_le (verdict fs) thr = true /\ doc_rank (verdict fs) <= doc_rank thr /\
    dumps (l_ops p2) = Ok (firstn (l_end p2) data) /\ ends_in_stop (l_ops p2) (l_end p2) /\
    fst (unpickle data) = UVal v /\
    r_events (load_core p1 rd thr) = snd (unpickle data) /\
    r_loaded (load_core p1 rd thr) = Some data.
Proof. exact (returns_only_if_accepted V unpickle decode crepr std). Qed.

(* Fail-closed.  Whatever the reason for refusing -- the first Pickled.load raised, its result does not
   re-serialise, the re-parse of the bytes fails (an inconsistent first parse), an argument does not decode,
   check_safety raised, or the verdict exceeds the threshold -- the call raises, the event trace is EMPTY
   and the stock unpickler was never called. *)
Theorem C02_fail_closed : forall p1 rd thr x,
  refusal p1 thr x ->
  r_out (load_core p1 rd thr) = Raise x /\ r_events (load_core p1 rd thr) = [] /\
  r_loaded (load_core p1 rd thr) = None.
Proof.
  intros p1 rd thr x R.
  exact (proj2 (refused_nothing_ran V unpickle decode crepr std p1 rd thr x R)).
Qed.

(* the reasons, spelled out: together with acceptance they are exhaustive (C02_accepted_or_refused) *)
Theorem C02_fail_closed_cases : forall p1 thr,
  (forall e, p1 = LErr e -> refusal p1 thr (XParse e)) /\
  (forall ops1 e, p1 = LOk ops1 -> dumps ops1 = Err e -> refusal p1 thr (XDumps e)) /\
  (forall data e, data_of p1 data -> parse_bytes data = LErr e -> refusal p1 thr (XParse e)) /\
  (forall data p2, data_of p1 data -> parse_bytes data = LOk p2 -> decode (l_ops p2) = None ->
                   refusal p1 thr (XParse LDecode)) /\
  (forall data p2 prog protos a,
     data_of p1 data -> parse_bytes data = LOk p2 -> decode (l_ops p2) = Some (prog, protos) ->
     Loader.check crepr std prog protos = CErr a -> refusal p1 thr (XAnalysis a)) /\
  (forall data p2 fs, data_of p1 data -> analysed data p2 fs -> sev_le (verdict fs) thr = false ->
                      refusal p1 thr (XUnsafe (to_dict fs))).
Proof.
  intros p1 thr.
  exact (conj (RParse decode crepr std p1 thr)
        (conj (RDumps decode crepr std p1 thr)
        (conj (RReparse decode crepr std p1 thr)
        (conj (RDecode decode crepr std p1 thr)
        (conj (RAnalysis decode crepr std p1 thr) (RUnsafe decode crepr std p1 thr)))))).
Qed.

Theorem C02_accepted_or_refused : forall p1 rd thr,
  (exists data p2 fs, data_of p1 data /\ analysed data p2 fs /\ sev_le (verdict fs) thr = true /\
                      load_core p1 rd thr = finish V (unpickle data) data rd)
  \/ (exists x, refusal p1 thr x /\ load_core p1 rd thr = refuse V x rd).
Proof. exact (core_cases V unpickle decode crepr std). Qed.

(* ... the last reason in the documented ranking, and what the exception carries *)
Theorem C02_unsafe_carries_verdict : forall p1 rd thr data p2 fs,
  wf thr -> data_of p1 data -> analysed data p2 fs ->
  (sev_le (verdict fs) thr = false <-> doc_rank thr < doc_rank (verdict fs)) /\
  (sev_le (verdict fs) thr = false ->
     r_out (load_core p1 rd thr) = Raise (XUnsafe (to_dict fs)) /\
     rp_severity (to_dict fs) = sev_name (verdict fs) /\ rp_findings (to_dict fs) = fs /\
     r_events (load_core p1 rd thr) = [] /\ r_loaded (load_core p1 rd thr) = None).
Proof. exact (unsafe_carries_verdict V unpickle decode crepr std). Qed.

(* ... and conversely: ANY event, or any call of the stock unpickler, implies the verdict was accepted
   (this covers the one non-returning case that is not a refusal: the stock unpickler itself raising
   on accepted bytes, exactly as it would without fickling) *)
Theorem C02_effects_only_if_accepted : forall p1 rd thr,
  r_events (load_core p1 rd thr) <> [] \/ r_loaded (load_core p1 rd thr) <> None ->
  exists data p2 fs, data_of p1 data /\ analysed data p2 fs /\ sev_le (verdict fs) thr = true /\
                     r_loaded (load_core p1 rd thr) = Some data /\
                     r_events (load_core p1 rd thr) = snd (unpickle data).
Proof. exact (effects_only_if_accepted V unpickle decode crepr std). Qed.

(* The bytes executed are the bytes analysed -- with NO hypothesis on the stream, stable or not.
   For every result p1 of the first parse: if the stock unpickler was handed bs then bs = dumps p1, and
   the program that was analysed is decode (parse_bytes bs) -- a parse of bs itself, accepted at thr --
   whose re-serialisation is the first pickle of bs.  The whole run depends on p1 only through dumps p1
   (not on positions, nor on anything the tokeniser decoded while reading the stream), and the caller's
   stream is accessed exactly when the first parse accessed it. *)
Theorem C02_bytes_executed_are_bytes_analysed : forall p1 rd thr,
  (forall bs, r_loaded (load_core p1 rd thr) = Some bs ->
     data_of p1 bs /\
     exists p2 prog protos fs,
       parse_bytes bs = LOk p2 /\ decode (l_ops p2) = Some (prog, protos) /\
       Loader.check crepr std prog protos = COk fs /\ sev_le (verdict fs) thr = true /\
       dumps (l_ops p2) = Ok (firstn (l_end p2) bs) /\ ends_in_stop (l_ops p2) (l_end p2) /\
       0 < l_end p2 <= List.length bs) /\
  (forall ops1 ops1', p1 = LOk ops1 -> dumps ops1 = dumps ops1' ->
     load_core p1 rd thr = load_core (LOk ops1') rd thr) /\
  r_reads (load_core p1 rd thr) = rd.
Proof.
  intros p1 rd thr.
  exact (conj (executed_is_analysed V unpickle decode crepr std p1 rd thr)
        (conj (fun ops1 ops1' E H =>
                 eq_ind_r (fun q => load_core q rd thr = load_core (LOk ops1') rd thr)
                          (core_depends_on_dumps_only V unpickle decode crepr std ops1 ops1' rd thr H) E)
              (core_reads V unpickle decode crepr std p1 rd thr))).
Qed.

(* On a stream that is stable while the first parse reads it (content s_at s T_PARSE; ANYTHING at any later
   time): the bytes unpickled are the first pickle of the parse-time content, the run is a function of
   that content only, and the stream is never accessed after the parse. *)
Theorem C02_later_content_irrelevant : forall s thr,
  (forall bs, r_loaded (load s thr) = Some bs ->
     exists p, load_model (s_kind s) (s_at s T_PARSE) (s_off s) = LOk p /\
               bs = analysed_bytes s p /\ ends_in_stop (l_ops p) (l_end p)) /\
  (forall s', s_kind s = s_kind s' -> s_off s = s_off s' -> s_at s T_PARSE = s_at s' T_PARSE ->
     load s thr = load s' thr) /\
  (forall t, In t (r_reads (load s thr)) -> t = T_PARSE).
Proof.
  intros s thr.
  exact (conj (loaded_is_first_pickle V unpickle decode crepr std s thr)
        (conj (fun s' => later_content_irrelevant V unpickle decode crepr std s s' thr)
              (reads_only_during_parse V unpickle decode crepr std s thr))).
Qed.

(* ... in particular neither what precedes the analysed pickle in the stream nor what follows it (a second
   pickle, garbage) is ever handed to the unpickler: for ANY pre, rest and any complete pickle b *)
Theorem C02_surroundings_never_executed : forall s thr pre b rest r bs,
  s_kind s = KSeekable -> s_off s = List.length pre -> s_at s T_PARSE = pre ++ b ++ rest ->
  load_model KSeekable b 0 = LOk r -> l_end r = List.length b ->
  r_loaded (load s thr) = Some bs -> bs = b.
Proof. exact (surroundings_irrelevant V unpickle decode crepr std). Qed.

(* The returned object (and the event trace) is the stock unpickler's on the bytes it was handed. *)
Theorem C02_equals_stock : forall p1 rd thr v,
  r_out (load_core p1 rd thr) = Return v ->
  exists bs, r_loaded (load_core p1 rd thr) = Some bs /\ unpickle bs = (UVal v, r_events (load_core p1 rd thr)).
Proof. exact (equals_stock V unpickle decode crepr std). Qed.

(* All three armings are the same function: after ANY hook history in which the ML environment is not
   active, pickle.load under always_check_safety() and inside the context manager -- whatever
   threshold the context manager was given -- is the checked loader at LIKELY_SAFE, which is at or below
   every threshold; fickling.load(file, thr) is the checked loader at thr.  (For any first parse p1 and
   whatever the unhooked pickle.load would have done.) *)
Theorem C02_armed_equiv : forall h a p1 rd stock,
  g_ml (grun g_init h) = None ->
  Loader.armed_core V unpickle decode crepr std h a p1 rd stock
    = Some (load_core p1 rd (match a with ADirect thr => thr | _ => LIKELY_SAFE end)) /\
  (forall s, Loader.armed_load V unpickle decode crepr std h a s
    = Some (load s (match a with ADirect thr => thr | _ => LIKELY_SAFE end))) /\
  (forall t, wf t -> doc_rank LIKELY_SAFE <= doc_rank t).
Proof.
  intros h a p1 rd stock H.
  exact (conj (armed_equiv V (load_core p1 rd) stock h a H)
        (conj (fun s => armed_equiv V (load s) (Loader.stock_load V unpickle s) h a H) likely_safe_lowest)).
Qed.

End C02.

(* The threshold test `result.severity <= max_acceptable_severity`, as the operator is written, over
   the regenerated enum: exhaustive over all 6 x 6 pairs. *)
Theorem C02_threshold_table :
  List.length all_thresholds = 6 /\
  forall a b, In a all_thresholds -> In b all_thresholds -> sev_le a b = (doc_rank a <=? doc_rank b).
Proof. exact (conj (proj2 threshold_table) threshold_spec). Qed.

(* ---------------- non-vacuity / witnesses ---------------- *)
(* a world: the unpickler returns the bytes it is handed and logs one Resolve event; the program an
   opcode list decodes to is decided by the bytes it re-serialises to: K\x07. is an os.system call,
   0. pops an empty stack, everything else is None *)
Definition ex_unpickle (bs : list byte) : ures (list byte) * list event :=
  (UVal bs, [EvResolve "m" "n"]).
Definition ex_benign : list op := [OConst CNone; OStop].
Definition ex_flagged : list op :=
  [OGlobal "os" "system"; OConst (CStr "id"); OTuple1; OReduce; OStop].
Definition ex_crash : list op := [OGlobal "os" "system"; OConst (CStr "id"); OTuple1; OReduce; OPop; OPop; OStop].
Definition ex_std (m : string) : bool := String.eqb m "os".
Definition b_none : list byte := [x4e; x2e].          (* N.     *)
Definition b_evil : list byte := [x4b; x07; x2e].     (* K\x07. *)
Definition b_crash : list byte := [x30; x2e].         (* 0.     *)
Fixpoint bytes_eqb (a b : list byte) : bool :=
  match a, b with
  | [], [] => true
  | x :: r, y :: t => Byte.eqb x y && bytes_eqb r t
  | _, _ => false
  end.
Definition ex_decode (ops : list opc) : option (list op * list (nat * Z)) :=
  match dumps ops with
  | Ok bs => if bytes_eqb bs b_evil then Some (ex_flagged, [])
             else if bytes_eqb bs b_crash then Some (ex_crash, [])
             else Some (ex_benign, [])
  | Err _ => None
  end.
Definition ex_crepr (_ : const) : string := "'id'"%string.
Definition ex_core := Loader.load_core (list byte) ex_unpickle ex_decode ex_crepr ex_std.
Definition ex_load := Loader.load (list byte) ex_unpickle ex_decode ex_crepr ex_std.
Definition ex_reread := Loader.load_reread (list byte) ex_unpickle ex_decode ex_crepr ex_std.
Definition ex_prefix := Loader.load_prefix_core (list byte) ex_unpickle ex_crepr ex_std.

(* a seekable stream at offset 2 whose content is swapped after the parse *)
Definition s_swap (first : list byte) : stream :=
  mkStream KSeekable 2 (fun t => if Nat.eqb t T_PARSE then b_none ++ first ++ b_evil else b_none ++ b_evil).
(* an "opcode list" no parse of any stream content would give: one opcode carrying a whole pickle as data *)
Definition blob_row : oprow := (0%N, ("?"%string, (0%Z, ("none"%string, (true, true))))).
Definition p_blob (d : list byte) : lres (list opc) := LOk [mkOpc blob_row 7 (Some d)].

(* accepted: the analysed bytes are executed although the stream now holds something else ... *)
Example C02_nonvacuous_accept :
  ex_load (s_swap b_none) LIKELY_SAFE = mkRun (Return b_none) [EvResolve "m" "n"] (Some b_none) [T_PARSE].
Proof. vm_compute. reflexivity. Qed.

(* ... whereas re-reading the stream for the real load (the design loader.py warns against) executes
   bytes that were never analysed *)
Example C02_reread_contrast :
  r_loaded (ex_reread (s_swap b_none) LIKELY_SAFE) = Some b_evil /\
  r_reads (ex_reread (s_swap b_none) LIKELY_SAFE) = [T_PARSE; T_LOAD].
Proof. vm_compute. split; reflexivity. Qed.

(* refused at every threshold below the verdict, accepted from the verdict on *)
Example C02_nonvacuous_threshold :
  exists r, ex_load (s_swap b_evil) LIKELY_SAFE = mkRun (Raise (XUnsafe r)) [] None [T_PARSE] /\
            rp_severity r = "LIKELY_OVERTLY_MALICIOUS"%string /\
            map (fun t => match r_out (ex_load (s_swap b_evil) t) with Return _ => true | Raise _ => false end)
                all_thresholds = [false; false; false; false; true; true].
Proof. eexists. split; [vm_compute; reflexivity|]. split; vm_compute; reflexivity. Qed.

(* analysis fails AFTER the program called os.system: refused, nothing ran *)
Example C02_nonvacuous_analysis_error :
  ex_load (s_swap b_crash) 5 = mkRun (Raise (XAnalysis (AInterp EIndex))) [] None [T_PARSE].
Proof. vm_compute. reflexivity. Qed.

Example C02_nonvacuous_parse_error :
  ex_load (mkStream KBytes 0 (fun _ => [xff])) 5 = mkRun (Raise (XParse LEmpty)) [] None [] /\
  ex_load (mkStream KNonSeekable 0 (fun _ => [x46; x31; x0a; x2e])) 5
    = mkRun (Raise (XParse LNotImpl)) [] None [T_PARSE].
Proof. vm_compute. split; reflexivity. Qed.

(* THE DEFECT THAT WAS REPAIRED (within-parse time of check / time of use).  A first parse whose decoded
   arguments (what the tokeniser read: the benign program) and data (what fickling re-read: K\x07.)
   disagree.  The earlier loader analyses the former and unpickles the latter -- it RETURNS at
   LIKELY_SAFE having executed bytes whose own verdict is LIKELY_OVERTLY_MALICIOUS ... *)
Example C02_prefix_loader_refuted :
  exists p1 args1 bs r,
    ex_prefix p1 args1 [T_PARSE] LIKELY_SAFE = mkRun (Return bs) [EvResolve "m" "n"] (Some bs) [T_PARSE] /\
    (* ... while the repaired loader, on the very same first parse, refuses: *)
    ex_core p1 [T_PARSE] LIKELY_SAFE = mkRun (Raise (XUnsafe r)) [] None [T_PARSE] /\
    rp_severity r = "LIKELY_OVERTLY_MALICIOUS"%string.
Proof.
  exists (p_blob b_evil), (Some (ex_benign, [])), b_evil. eexists.
  split; [vm_compute; reflexivity|]. split; vm_compute; reflexivity.
Qed.

(* inconsistent first parses are non-returning cases: data that does not re-parse; an opcode without
   data that cannot be re-encoded *)
Example C02_nonvacuous_inconsistent_first_parse :
  ex_core (p_blob [x4b]) [T_PARSE] 5 = mkRun (Raise (XParse LEmpty)) [] None [T_PARSE] /\
  ex_core (LOk [mkOpc (75%N, ("BININT1"%string, (1%Z, ("read_uint1"%string, (true, true))))) 0 None]) [] 5
    = mkRun (Raise (XDumps EUnmodelled)) [] None [] /\
  (* and a consistent arbitrary one is accepted with exactly its bytes *)
  ex_core (p_blob (b_none ++ b_evil)) [] 0 = mkRun (Return (b_none ++ b_evil)) [EvResolve "m" "n"]
                                                   (Some (b_none ++ b_evil)) [].
Proof. vm_compute. repeat split. Qed.

(* the hypotheses of C02_surroundings_never_executed are met: b_none is a complete pickle *)
Example C02_nonvacuous_surroundings :
  exists r, load_model KSeekable b_none 0 = LOk r /\ l_end r = List.length b_none /\
            s_at (s_swap b_none) T_PARSE = b_none ++ b_none ++ b_evil /\
            s_off (s_swap b_none) = List.length b_none.
Proof. eexists. split; [vm_compute; reflexivity|]. vm_compute. repeat split. Qed.

(* the hypothesis of C02_armed_equiv is met by non-trivial histories *)
Example C02_nonvacuous_history :
  let h := [HEnter; HProbe PLoad (mkP true []); HLeave; HActivate []; HRemove; HArm] in
  g_ml (grun g_init h) = None /\
  Loader.armed_load (list byte) ex_unpickle ex_decode ex_crepr ex_std h (AContext 5) (s_swap b_evil)
    = Some (ex_load (s_swap b_evil) LIKELY_SAFE) /\
  wf 5 /\ wf LIKELY_SAFE.
Proof. vm_compute. repeat split; repeat constructor. Qed.

Print Assumptions C02_returns_only_if_accepted.
Print Assumptions C02_fail_closed.
Print Assumptions C02_fail_closed_cases.
Print Assumptions C02_accepted_or_refused.
Print Assumptions C02_unsafe_carries_verdict.
Print Assumptions C02_effects_only_if_accepted.
Print Assumptions C02_bytes_executed_are_bytes_analysed.
Print Assumptions C02_later_content_irrelevant.
Print Assumptions C02_surroundings_never_executed.
Print Assumptions C02_equals_stock.
Print Assumptions C02_armed_equiv.
Print Assumptions C02_threshold_table.
Print Assumptions C02_prefix_loader_refuted.
