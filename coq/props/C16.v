(* C16 -- PyTorch payload insertion changes only the model pickle and keeps the model.
   Only the property theorems (closed by [exact]), non-vacuity examples, the two-data.pkl observation
   and their assumptions.  Model: model/Torch.v (fickling/pytorch.py:41-156, injection="insertion").
   PARTIAL: the zip container and what torch.load reconstructs are outside the model (differential). *)
From Coq Require Import List String Bool Arith.
From Verif Require Import Base Poly Torch TorchProofs.
Import ListNotations.
Open Scope string_scope.

(* For every pickle-level injection function and every archive of ANY length: the injected archive has the
   same member names in the same order, the same number of members, and every member whose name does not
   end in "/data.pkl" is byte-identical at the same position. *)
Theorem C16_names_and_others_preserved : forall (inj : string -> string) a a',
  inject_insertion inj a = Some a' ->
  map fst a' = map fst a /\ List.length a' = List.length a /\
  forall i n b, nth_error a i = Some (n, b) -> is_model n = false -> nth_error a' i = Some (n, b).
Proof. exact names_and_others_preserved. Qed.

(* With exactly one member ending in "/data.pkl" (what torch.save / torch.jit.save write), injection is
   defined, that member becomes [inj] of its ORIGINAL bytes, and every other position is unchanged. *)
Theorem C16_model_pickle : forall (inj : string -> string) a, unique_data_pkl a = true ->
  exists a' i n b, inject_insertion inj a = Some a' /\
    nth_error a i = Some (n, b) /\ is_model n = true /\
    nth_error a' i = Some (n, inj b) /\
    forall j m c, j <> i -> nth_error a j = Some (m, c) -> nth_error a' j = Some (m, c).
Proof. exact model_pickle. Qed.

(* File level, for every file system, paths, identified formats and flags (output path different from the
   input path): a refused or failing call leaves the file system exactly as it was (validation happens
   before anything is written); a successful call without overwrite leaves the input's members unchanged
   and changes exactly the output path, which holds the injected archive; with overwrite the input path
   holds the injected archive, the output path does not exist afterwards, and no other path changed. *)
Theorem C16_input_untouched : forall (inj : string -> string) fs path out formats force overwrite,
  out <> path ->
  match inject_payload inj fs path out formats force overwrite with
  | (TRaised _, fs') => fs' = fs
  | (TDone, fs') =>
      exists a a', flookup fs path = Some a /\ validate formats force = Ok tt /\
                   inject_insertion inj a = Some a' /\
        if overwrite then
          flookup fs' path = Some a' /\ flookup fs' out = None /\
          forall p, p <> path -> p <> out -> flookup fs' p = flookup fs p
        else
          flookup fs' path = Some a /\ flookup fs' out = Some a' /\
          forall p, p <> out -> flookup fs' p = flookup fs p
  end.
Proof. exact inject_payload_spec. Qed.

(* What validation lets through: a recognised file that is PyTorch v1.3 or TorchScript v1.4 (or force). *)
Theorem C16_validation : forall formats force,
  validate formats force = Ok tt <->
  formats <> [] /\ (force = true \/ mem_str F_PT13 formats = true \/ mem_str F_TS14 formats = true).
Proof. exact validate_spec. Qed.

(* injection is refused exactly when no member ends in "/data.pkl" *)
Theorem C16_defined_iff_model_member : forall (inj : string -> string) a,
  inject_insertion inj a = None <-> count_model a = 0.
Proof. exact inject_defined. Qed.

(* ---------- non-vacuity ---------- *)
Definition ex_archive : archive :=
  [("m/data.pkl", "PICKLE"); ("m/byteorder", "little"); ("m/data/0", "tensor-bytes"); ("m/version", "3")].
Definition ex_inj (b : string) : string := "EXEC+" ++ b.

Example C16_nonvacuous :
  unique_data_pkl ex_archive = true /\
  inject_insertion ex_inj ex_archive =
    Some [("m/data.pkl", "EXEC+PICKLE"); ("m/byteorder", "little"); ("m/data/0", "tensor-bytes"); ("m/version", "3")] /\
  inject_payload ex_inj [("in.pt", ex_archive); ("keep", [])] "in.pt" "out.pt" ["PyTorch v1.3"] false true =
    (TDone, [("in.pt", [("m/data.pkl", "EXEC+PICKLE"); ("m/byteorder", "little"); ("m/data/0", "tensor-bytes");
                        ("m/version", "3")]); ("keep", [])]) /\
  fst (inject_payload ex_inj [("in.pt", ex_archive)] "in.pt" "out.pt" ["PyTorch v0.1.10"] false false)
    = TRaised EValue /\
  fst (inject_payload ex_inj [("in.pt", [("data.pkl", "P")])] "in.pt" "out.pt" ["PyTorch v1.3"] false false)
    = TRaised EValue.
Proof. vm_compute. repeat split. Qed.

(* ---------- observation: two members ending in "/data.pkl" ---------- *)
(* The loop gives EVERY such member the injected pickle of the FIRST one: the second member's own pickle
   is lost, whatever the injection function is.  torch.save writes exactly one, so C16 as quantified
   (files saved by torch) is not affected; C16_model_pickle carries the hypothesis. *)
Example C16_refuted_two_data_pkl : forall (inj : string -> string) x y,
  inject_insertion inj [("a/data.pkl", x); ("b/data.pkl", y); ("b/version", "3")] =
    Some [("a/data.pkl", inj x); ("b/data.pkl", inj x); ("b/version", "3")] /\
  unique_data_pkl [("a/data.pkl", x); ("b/data.pkl", y); ("b/version", "3")] = false.
Proof. intros. split; reflexivity. Qed.

Print Assumptions C16_names_and_others_preserved.
Print Assumptions C16_model_pickle.
Print Assumptions C16_input_untouched.
Print Assumptions C16_validation.
Print Assumptions C16_defined_iff_model_member.
