(* Wire commands of the Codec model (C06) for the correspondence driver.
     (c06_tok     h<hex> <off>)         -> (NAME pos len) ... done | err:<E>
     (c06_load    <kind> h<hex> <off>)  -> ok <caller|-> <rest|-> (NAME pos h<data>) ... d=h<dumps> | err <class>
     (c06_stacked <kind> h<hex> <off>)  -> ok [ (NAME pos h<data>) ... ] [ ... ] ...              | err <class>
   <caller> = position of the caller's stream afterwards, <rest> = number of bytes it can still read
   (both "-" for a bytes object); <data> = the opcode's `data` property.
   kind = bytes | seek | nonseek.  Bytes travel as one hex atom and are converted with the native
   list conversions of ExtrOcamlNativeString (linear time). *)
From Coq Require Import List String Ascii ZArith NArith Bool Arith.
From Coq.Strings Require Import Byte.
From Verif Require Import Base Codec.
Import ListNotations.
Open Scope string_scope.

Fixpoint unhex (l : list ascii) : option (list byte) :=
  match l with
  | [] => Some []
  | a :: b :: r =>
      match hex_val a, hex_val b, unhex r with
      | Some x, Some y, Some t => Some (byte_of_ascii (ascii_of_N (x * 16 + y)) :: t)
      | _, _, _ => None
      end
  | _ => None
  end.

Definition bytes_of_wire (s : sexp) : option (list byte) :=
  match s with
  | Atom a =>
      match list_ascii_of_string a with
      | "h"%char :: r => unhex r
      | _ => None
      end
  | _ => None
  end.

Fixpoint hex_chars (l : list byte) : list ascii :=
  match l with
  | [] => []
  | b :: r => let n := Byte.to_N b in hex_digit (n / 16) :: hex_digit (n mod 16) :: hex_chars r
  end.

Definition wire_of_bytes (l : list byte) : string :=
  string_of_list_ascii ("h"%char :: hex_chars l).

Definition nat_of_atom (s : sexp) : option nat :=
  match s with
  | Atom a => match z_of_string a with Some z => Some (Z.to_nat z) | None => None end
  | _ => None
  end.

Definition kind_of_atom (s : sexp) : option kind :=
  match s with
  | Atom a => if a =? "bytes" then Some KBytes
              else if a =? "seek" then Some KSeekable
              else if a =? "nonseek" then Some KNonSeekable
              else None
  | _ => None
  end.

Definition show_tok (t : token) : string :=
  String.concat " " ["(" ++ row_name (t_row t); nat_to_string (t_pos t); nat_to_string (t_len t) ++ ")"].

Definition show_opc (o : opc) : string :=
  let d := match opc_data o with Ok d => wire_of_bytes d | Err e => "ENCODE-" ++ err_name e end in
  String.concat " " ["(" ++ row_name (o_row o); nat_to_string (o_pos o); d ++ ")"].

Definition show_lerr (e : lerr) : string :=
  match e with
  | LEmpty => "err EmptyPickleError"
  | LDecode => "err PickleDecodeError"
  | LNotImpl => "err NotImplementedError"
  | LOther x => "err model-" ++ err_name x
  end.

Definition show_opt_nat (o : option nat) : string :=
  match o with Some n => nat_to_string n | None => "-" end.

Definition show_tokens (r : list token * tstatus) : string :=
  let (ts, st) := r in
  String.concat " " (map show_tok ts ++
    [match st with TDone => "done" | TErr e => "err:" ++ err_name e end]).

Definition show_load (bs : list byte) (r : lres loaded) : string :=
  match r with
  | LErr e => show_lerr e
  | LOk l =>
      String.concat " " (["ok"; show_opt_nat (l_caller l);
                          show_opt_nat (match caller_rest bs l with
                                        | Some t => Some (List.length t) | None => None end)]
                         ++ map show_opc (l_ops l)
                         ++ ["d=" ++ match dumps (l_ops l) with
                                     | Ok d => wire_of_bytes d
                                     | Err e => "ENCODE-" ++ err_name e
                                     end])
  end.

Definition show_stacked (r : lres (list (list opc) * nat)) : string :=
  match r with
  | LErr e => show_lerr e
  | LOk (ps, e) =>
      String.concat " " (["ok"]
                         ++ map (fun p => String.concat " " (["["] ++ map show_opc p ++ ["]"])) ps)
  end.

Definition handle_codec (cmd : string) (args : list sexp) : option string :=
  if cmd =? "c06_tok" then
    match args with
    | [b; o] => match bytes_of_wire b, nat_of_atom o with
                | Some bs, Some off => Some (show_tokens (genops_at bs off))
                | _, _ => None
                end
    | _ => None
    end
  else if cmd =? "c06_load" then
    match args with
    | [k; b; o] => match kind_of_atom k, bytes_of_wire b, nat_of_atom o with
                   | Some kd, Some bs, Some off => Some (show_load bs (load_model kd bs off))
                   | _, _, _ => None
                   end
    | _ => None
    end
  else if cmd =? "c06_stacked" then
    match args with
    | [k; b; o] => match kind_of_atom k, bytes_of_wire b, nat_of_atom o with
                   | Some kd, Some bs, Some off => Some (show_stacked (stacked_load kd bs off))
                   | _, _, _ => None
                   end
    | _ => None
    end
  else None.
