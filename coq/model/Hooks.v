(* Model of the hook lifecycle (C12): fickling/hook.py, fickling/context.py, and the part of
   fickling/loader.py that matters for it (the checked loader re-enters the pickle module through
   the CURRENT binding of pickle.loads).

   State: the four process-global bindings pickle.load, pickle.loads, _pickle.load, _pickle.loads,
   each one of
       Orig     the function found there before fickling was imported
       Checked  fickling.loader.load          (run_hook / always_check_safety / context __enter__)
       ML a     the closure new_load / new_loads of activate_safe_ml_environment(also_allow=a)
   plus the stack of open safety contexts, each holding the pickle.load binding its
   FicklingContextManager captured in __init__ ([with fickling.check_safety():] = construct +
   __enter__, so the capture happens immediately before the entry).

   A pickle is abstracted to what the two protections look at: the verdict of the static analysis
   (an input: flagged = severity > LIKELY_SAFE, C02/C10) and the globals it resolves, in order.
   What FicklingMLUnpickler.find_class permits is BASE + additions ([Allowlist.spec_permits],
   which C11 proves equal to the heap model of ml.py).  Executable definitions only. *)
From Coq Require Import List String Bool Arith.
From Verif Require Import Base Allowlist.
Import ListNotations.
Open Scope string_scope.

Inductive binding :=
| Orig
| Checked
| ML (adds : list gname).

Record hstate := mkH {
  pl : binding;            (* pickle.load *)
  pls : binding;           (* pickle.loads *)
  cl : binding;            (* _pickle.load *)
  cls : binding;           (* _pickle.loads *)
  ctxs : list binding      (* open contexts, innermost first: self.original_pickle_load *)
}.

Definition h_init : hstate := mkH Orig Orig Orig Orig [].

Inductive entry := PLoad | PLoads | CLoad | CLoads.

Record pickle := mkP {
  flagged : bool;          (* check_safety(...).severity > LIKELY_SAFE *)
  globals : list gname     (* what the stock unpickler would resolve, in order *)
}.

Inductive hop :=
| HArm                              (* fickling.always_check_safety() / hook.run_hook() *)
| HActivate (adds : list gname)     (* hook.activate_safe_ml_environment(also_allow=adds) *)
| HRemove                           (* hook.remove_hook() = deactivate_safe_ml_environment() *)
| HEnter                            (* cm = fickling.check_safety(); cm.__enter__() *)
| HLeave                            (* cm.__exit__(None, None, None) of the innermost context *)
| HLeaveExc                         (* cm.__exit__(exc_type, exc, tb): the body raised *)
| HProbe (e : entry) (p : pickle).  (* a load of p through entry point e *)

Definition hstep (s : hstate) (o : hop) : hstate :=
  match o with
  | HArm => mkH Checked (pls s) (cl s) (cls s) (ctxs s)
  | HActivate a => mkH (ML a) (ML a) (ML a) (ML a) (ctxs s)
  | HRemove => mkH Orig Orig Orig Orig (ctxs s)
  | HEnter => mkH Checked (pls s) (cl s) (cls s) (pl s :: ctxs s)
  | HLeave | HLeaveExc =>
      match ctxs s with
      | [] => s                                   (* nothing to leave: not a history *)
      | saved :: r => mkH saved (pls s) (cl s) (cls s) r
      end
  | HProbe _ _ => s
  end.

Fixpoint hrun (s : hstate) (h : list hop) : hstate :=
  match h with
  | [] => s
  | o :: r => hrun (hstep s o) r
  end.

Definition binding_of (s : hstate) (e : entry) : binding :=
  match e with PLoad => pl s | PLoads => pls s | CLoad => cl s | CLoads => cls s end.

(* ---- what a load does ---- *)
Inductive result :=
| Returned                  (* the load ran to completion *)
| UnsafeAnalysis            (* UnsafeFileError raised by loader.load before anything was loaded *)
| UnsafeML (g : gname)      (* UnsafeFileError raised by find_class for g *)
| RecursionErr.             (* loader.load reached itself through pickle.loads *)

Definition outcome := (result * list gname)%type.     (* and the globals actually resolved *)

(* FicklingMLUnpickler: every find_class is checked first; the first refusal aborts *)
Fixpoint ml_resolve (adds : list gname) (gs : list gname) : outcome :=
  match gs with
  | [] => (Returned, [])
  | g :: r =>
      if spec_permits adds g
      then let '(res, l) := ml_resolve adds r in (res, g :: l)
      else (UnsafeML g, [])
  end.

Definition raw_run (p : pickle) : outcome := (Returned, globals p).

(* calling the function bound at an entry point, in state s *)
Definition call_binding (s : hstate) (b : binding) (p : pickle) : outcome :=
  match b with
  | Orig => raw_run p
  | ML a => ml_resolve a (globals p)
  | Checked =>
      (* loader.load: analyse; refuse above LIKELY_SAFE; else pickle.loads(pickled.dumps()) *)
      if flagged p then (UnsafeAnalysis, [])
      else match pls s with
           | Orig => raw_run p
           | ML a => ml_resolve a (globals p)
           | Checked => (RecursionErr, [])
           end
  end.

Definition probe (s : hstate) (e : entry) (p : pickle) : outcome :=
  call_binding s (binding_of s e) p.

(* ---- reference notions used by the theorems (specification side) ---- *)

(* which mechanisms the user has switched on and not switched off, independent of the bindings *)
Record ghost := mkG {
  g_armed : bool;                     (* always_check_safety() since the last remove_hook() *)
  g_ml : option (list gname);         (* additions of the ML environment since the last removal *)
  g_depth : nat                       (* open contexts *)
}.

Definition g_init : ghost := mkG false None 0.

Definition gstep (g : ghost) (o : hop) : ghost :=
  match o with
  | HArm => mkG true (g_ml g) (g_depth g)
  | HActivate a => mkG (g_armed g) (Some a) (g_depth g)
  | HRemove => mkG false None (g_depth g)
  | HEnter => mkG (g_armed g) (g_ml g) (S (g_depth g))
  | HLeave | HLeaveExc => mkG (g_armed g) (g_ml g) (pred (g_depth g))
  | HProbe _ _ => g
  end.

Fixpoint grun (g : ghost) (h : list hop) : ghost :=
  match h with
  | [] => g
  | o :: r => grun (gstep g o) r
  end.

(* depth bookkeeping: Some d' when, started at relative depth d, no leave is unmatched *)
Fixpoint depth_ok (d : nat) (h : list hop) : option nat :=
  match h with
  | [] => Some d
  | HEnter :: r => depth_ok (S d) r
  | (HLeave | HLeaveExc) :: r => match d with 0 => None | S d' => depth_ok d' r end
  | _ :: r => depth_ok d r
  end.

(* a well-bracketed segment: the body of one context *)
Definition balanced (h : list hop) : bool :=
  match depth_ok 0 h with Some 0 => true | _ => false end.

(* no activation / removal inside *)
Fixpoint quiet (h : list hop) : bool :=
  match h with
  | [] => true
  | (HActivate _ | HRemove) :: _ => false
  | _ :: r => quiet r
  end.

(* mechanisms are switched on and off only while no context is open (and every leave is matched) *)
Fixpoint disciplined (d : nat) (h : list hop) : bool :=
  match h with
  | [] => true
  | HEnter :: r => disciplined (S d) r
  | (HLeave | HLeaveExc) :: r => match d with 0 => false | S d' => disciplined d' r end
  | (HArm | HActivate _ | HRemove) :: r => Nat.eqb d 0 && disciplined d r
  | HProbe _ _ :: r => disciplined d r
  end.

(* weaker: only SWITCHING ON (arm / activate) is confined to depth 0; removals may happen anywhere *)
Fixpoint on_outside (d : nat) (h : list hop) : bool :=
  match h with
  | [] => true
  | HEnter :: r => on_outside (S d) r
  | (HLeave | HLeaveExc) :: r => match d with 0 => false | S d' => on_outside d' r end
  | (HArm | HActivate _) :: r => Nat.eqb d 0 && on_outside d r
  | (HRemove | HProbe _ _) :: r => on_outside d r
  end.

Definition is_orig (b : binding) : bool := match b with Orig => true | _ => false end.

Definition norm_exc (o : hop) : hop := match o with HLeaveExc => HLeave | x => x end.

(* ---- wire ---- *)
Definition show_gname (g : gname) : string := fst g ++ ":" ++ snd g.

Fixpoint join (sep : string) (l : list string) : string :=
  match l with
  | [] => ""
  | [x] => x
  | x :: r => x ++ sep ++ join sep r
  end.

Definition show_binding (b : binding) : string :=
  match b with
  | Orig => "O"
  | Checked => "C"
  | ML a => "M(" ++ join "," (map show_gname a) ++ ")"
  end.

Definition show_outcome (o : outcome) : string :=
  (match fst o with
   | Returned => "R"
   | UnsafeAnalysis => "U"
   | UnsafeML _ => "U"
   | RecursionErr => "X"
   end) ++ nat_to_string (List.length (snd o)).

Definition all_entries : list entry := [PLoad; PLoads; CLoad; CLoads].

Definition show_state (s : hstate) : string :=
  show_binding (pl s) ++ " " ++ show_binding (pls s) ++ " " ++ show_binding (cl s) ++ " " ++
  show_binding (cls s) ++ " d" ++ nat_to_string (List.length (ctxs s)).

Definition show_probes (s : hstate) (ps : list pickle) : string :=
  join " " (map (fun e => join "," (map (fun p => show_outcome (probe s e p)) ps)) all_entries).

(* one line per step: bindings, depth, the probe matrix (4 entry points x the given pickles) and,
   for an explicit probe operation, its own outcome *)
Fixpoint show_run (s : hstate) (ps : list pickle) (h : list hop) : list string :=
  match h with
  | [] => []
  | o :: r =>
      let s' := hstep s o in
      (show_state s' ++ ";" ++ show_probes s' ps ++
       match o with HProbe e p => ";" ++ show_outcome (probe s e p) | _ => "" end)
      :: show_run s' ps r
  end.
