(* Model of the hook lifecycle (C12): fickling/hook.py, fickling/context.py, and the part of
   fickling/loader.py that matters for it (the checked loader re-enters the pickle module through
   the CURRENT binding of pickle.loads).

   State: the five process-global bindings pickle.load, pickle.loads, _pickle.load, _pickle.loads,
   pickle.Unpickler, each one of
       Orig     what was found there before fickling was imported
       Checked  fickling.loader.load          (run_hook / always_check_safety / context __enter__)
       ML a     the closures new_load / new_loads / class SafeMLUnpickler of
                activate_safe_ml_environment(also_allow=a)
   plus the stack of open safety contexts, each holding the five bindings its
   FicklingContextManager saved in __enter__ (and restores, all of them, in __exit__).
   Constructing a manager ([HMake]) saves nothing.

   A pickle is abstracted to what the two protections look at: the verdict of the static analysis
   (an input: flagged = severity > LIKELY_SAFE, C02/C10) and the globals it resolves, in order.
   What FicklingMLUnpickler.find_class permits is BASE + additions ([Allowlist.spec_permits],
   which C11 proves equal to the heap model of ml.py).  Executable definitions only. *)
From Coq Require Import List String Bool Arith.
From Verif Require Import Base Allowlist.
Import ListNotations.
Open Scope string_scope.

Inductive binding :=
| Orig
| Checked
| ML (adds : list gname).

(* what one FicklingContextManager.__enter__ saves *)
Record saved := mkS {
  s_pl : binding;
  s_pls : binding;
  s_cl : binding;
  s_cls : binding;
  s_pu : binding
}.

Record hstate := mkH {
  pl : binding;            (* pickle.load *)
  pls : binding;           (* pickle.loads *)
  cl : binding;            (* _pickle.load *)
  cls : binding;           (* _pickle.loads *)
  pu : binding;            (* pickle.Unpickler *)
  ctxs : list saved        (* open contexts, innermost first: what each saved on entry *)
}.

Definition snapshot (s : hstate) : saved := mkS (pl s) (pls s) (cl s) (cls s) (pu s).

Definition h_init : hstate := mkH Orig Orig Orig Orig Orig [].

Inductive entry := PLoad | PLoads | CLoad | CLoads | PUnp.

Record pickle := mkP {
  flagged : bool;          (* check_safety(...).severity > LIKELY_SAFE *)
  globals : list gname     (* what the stock unpickler would resolve, in order *)
}.

Inductive hop :=
| HArm                              (* fickling.always_check_safety() / hook.run_hook() *)
| HActivate (adds : list gname)     (* hook.activate_safe_ml_environment(also_allow=adds) *)
| HRemove                           (* hook.remove_hook() = deactivate_safe_ml_environment() *)
| HEnter                            (* cm.__enter__() of a new or an already constructed manager *)
| HLeave                            (* cm.__exit__(None, None, None) of the innermost context *)
| HLeaveExc                         (* cm.__exit__(exc_type, exc, tb): the body raised *)
| HProbe (e : entry) (p : pickle)   (* a load of p through entry point e *)
| HMake.                            (* cm = fickling.check_safety(): constructed, not entered *)

Definition hstep (s : hstate) (o : hop) : hstate :=
  match o with
  | HArm => mkH Checked (pls s) (cl s) (cls s) (pu s) (ctxs s)
  | HActivate a => mkH (ML a) (ML a) (ML a) (ML a) (ML a) (ctxs s)
  | HRemove => mkH Orig Orig Orig Orig Orig (ctxs s)
  | HEnter => mkH Checked (pls s) (cl s) (cls s) (pu s) (snapshot s :: ctxs s)
  | HLeave | HLeaveExc =>
      match ctxs s with
      | [] => s                                   (* nothing to leave: not a history *)
      | v :: r => mkH (s_pl v) (s_pls v) (s_cl v) (s_cls v) (s_pu v) r
      end
  | HProbe _ _ => s
  | HMake => s
  end.

Fixpoint hrun (s : hstate) (h : list hop) : hstate :=
  match h with
  | [] => s
  | o :: r => hrun (hstep s o) r
  end.

Definition binding_of (s : hstate) (e : entry) : binding :=
  match e with PLoad => pl s | PLoads => pls s | CLoad => cl s | CLoads => cls s | PUnp => pu s end.

(* ---- what a load does ---- *)
Inductive result :=
| Returned                  (* the load ran to completion *)
| UnsafeAnalysis            (* UnsafeFileError raised by loader.load before anything was loaded *)
| UnsafeML (g : gname)      (* UnsafeFileError raised by find_class for g *)
| RecursionErr.             (* loader.load reached itself through pickle.loads *)

Definition outcome := (result * list gname)%type.     (* and the globals actually resolved *)

(* FicklingMLUnpickler: every find_class is checked first; the first refusal aborts *)
Fixpoint ml_resolve (adds : list gname) (gs : list gname) : outcome :=
  match gs with
  | [] => (Returned, [])
  | g :: r =>
      if spec_permits adds g
      then let '(res, l) := ml_resolve adds r in (res, g :: l)
      else (UnsafeML g, [])
  end.

Definition raw_run (p : pickle) : outcome := (Returned, globals p).

(* calling the function bound at an entry point, in state s *)
Definition call_binding (s : hstate) (b : binding) (p : pickle) : outcome :=
  match b with
  | Orig => raw_run p
  | ML a => ml_resolve a (globals p)
  | Checked =>
      (* loader.load: analyse; refuse above LIKELY_SAFE; else pickle.loads(pickled.dumps()) *)
      if flagged p then (UnsafeAnalysis, [])
      else match pls s with
           | Orig => raw_run p
           | ML a => ml_resolve a (globals p)
           | Checked => (RecursionErr, [])
           end
  end.

Definition probe (s : hstate) (e : entry) (p : pickle) : outcome :=
  call_binding s (binding_of s e) p.

(* ---- reference notions used by the theorems (specification side) ---- *)

(* which mechanisms are switched on, independent of the bindings.  Scoped: what is switched on or
   off inside a context ends with the context -- leaving re-instates what was on at the entry. *)
Definition gpair := (bool * option (list gname))%type.

Record ghost := mkG {
  g_armed : bool;                     (* always_check_safety() not undone by remove_hook() *)
  g_ml : option (list gname);         (* additions of the ML environment in force, if any *)
  g_stack : list gpair                (* open contexts, innermost first: what was on at the entry *)
}.

Definition g_init : ghost := mkG false None [].
Definition g_depth (g : ghost) : nat := List.length (g_stack g).
Definition gsnap (g : ghost) : gpair := (g_armed g, g_ml g).

Definition gstep (g : ghost) (o : hop) : ghost :=
  match o with
  | HArm => mkG true (g_ml g) (g_stack g)
  | HActivate a => mkG (g_armed g) (Some a) (g_stack g)
  | HRemove => mkG false None (g_stack g)
  | HEnter => mkG (g_armed g) (g_ml g) (gsnap g :: g_stack g)
  | HLeave | HLeaveExc =>
      match g_stack g with
      | [] => g
      | p :: r => mkG (fst p) (snd p) r
      end
  | HProbe _ _ => g
  | HMake => g
  end.

Fixpoint grun (g : ghost) (h : list hop) : ghost :=
  match h with
  | [] => g
  | o :: r => grun (gstep g o) r
  end.

(* depth bookkeeping: Some d' when, started at relative depth d, no leave is unmatched *)
Fixpoint depth_ok (d : nat) (h : list hop) : option nat :=
  match h with
  | [] => Some d
  | HEnter :: r => depth_ok (S d) r
  | (HLeave | HLeaveExc) :: r => match d with 0 => None | S d' => depth_ok d' r end
  | _ :: r => depth_ok d r
  end.

(* a well-bracketed segment: the body of one context *)
Definition balanced (h : list hop) : bool :=
  match depth_ok 0 h with Some 0 => true | _ => false end.

(* hooks are REMOVED only while no context is open (and every leave is matched); anything may be
   switched on anywhere *)
Fixpoint rm_outside (d : nat) (h : list hop) : bool :=
  match h with
  | [] => true
  | HEnter :: r => rm_outside (S d) r
  | (HLeave | HLeaveExc) :: r => match d with 0 => false | S d' => rm_outside d' r end
  | HRemove :: r => Nat.eqb d 0 && rm_outside d r
  | (HArm | HActivate _ | HProbe _ _ | HMake) :: r => rm_outside d r
  end.

Definition is_orig (b : binding) : bool := match b with Orig => true | _ => false end.

Definition norm_exc (o : hop) : hop := match o with HLeaveExc => HLeave | x => x end.

(* ---- wire ---- *)
Definition show_gname (g : gname) : string := fst g ++ ":" ++ snd g.

Fixpoint join (sep : string) (l : list string) : string :=
  match l with
  | [] => ""
  | [x] => x
  | x :: r => x ++ sep ++ join sep r
  end.

Definition show_binding (b : binding) : string :=
  match b with
  | Orig => "O"
  | Checked => "C"
  | ML a => "M(" ++ join "," (map show_gname a) ++ ")"
  end.

Definition show_outcome (o : outcome) : string :=
  (match fst o with
   | Returned => "R"
   | UnsafeAnalysis => "U"
   | UnsafeML _ => "U"
   | RecursionErr => "X"
   end) ++ nat_to_string (List.length (snd o)).

Definition all_entries : list entry := [PLoad; PLoads; CLoad; CLoads; PUnp].

Definition show_state (s : hstate) : string :=
  show_binding (pl s) ++ " " ++ show_binding (pls s) ++ " " ++ show_binding (cl s) ++ " " ++
  show_binding (cls s) ++ " " ++ show_binding (pu s) ++ " d" ++ nat_to_string (List.length (ctxs s)).

Definition show_probes (s : hstate) (ps : list pickle) : string :=
  join " " (map (fun e => join "," (map (fun p => show_outcome (probe s e p)) ps)) all_entries).

(* one line per step: bindings, depth, the probe matrix (5 entry points x the given pickles) and,
   for an explicit probe operation, its own outcome *)
Fixpoint show_run (s : hstate) (ps : list pickle) (h : list hop) : list string :=
  match h with
  | [] => []
  | o :: r =>
      let s' := hstep s o in
      (show_state s' ++ ";" ++ show_probes s' ps ++
       match o with HProbe e p => ";" ++ show_outcome (probe s e p) | _ => "" end)
      :: show_run s' ps r
  end.
