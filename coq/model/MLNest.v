(* Model of nested unpicklings under the safe ML environment (C07).

   One call of pickle.load / pickle.loads / _pickle.load / _pickle.loads is a finite TREE:
     node  = one unpickling: the attribute of the pickle module through which it is entered
             ("pickle.loads", ..., "pickle.Unpickler" for direct use of the class or a subclass)
             and what its pickle program does, in order:
     event = resolve a global (GLOBAL / STACK_GLOBAL / INST ... -> find_class), or
             resolve a loader callable c and call it on a byte-string payload in container
             format ct -- the unpicklings this call performs are the children, in order; the
             call then returns (ok = true) or raises something else (ok = false).
   Which attribute each child is entered through, and ok, are NOT chosen by the model: the
   generated table LoaderPaths.loader_paths (observed from the installed torch on every run)
   says so, and [conforms] checks a tree against it.  [ml_hooked] (also observed) lists the
   attributes the environment replaces: an unpickling entered through one of them is a
   FicklingMLUnpickler, whose find_class lets g through iff BASE + additions permits it
   (Allowlist.spec_permits, C11) and otherwise raises UnsafeFileError, which propagates through
   every enclosing unpickling; an unpickling entered any other way resolves everything.
   Executable definitions only. *)
From Coq Require Import List String Bool Arith.
From Verif Require Import Base Allowlist LoaderPaths.
Import ListNotations.
Open Scope string_scope.
Open Scope list_scope.

Definition kind := string.

Inductive container := Bare | Legacy | Zip.

Definition container_name (ct : container) : string :=
  match ct with Bare => "bare" | Legacy => "legacy" | Zip => "zip" end.

Inductive node :=
| Node (k : kind) (evs : list ev)
with ev :=
| EGlob (g : gname)
| ECall (c : gname) (ct : container) (ok : bool) (children : list node).

Definition kind_of (n : node) : kind := match n with Node k _ => k end.

Inductive outcome :=
| Done                      (* returned *)
| Unsafe (g : gname)        (* UnsafeFileError raised by find_class for g *)
| OtherError.               (* the loader callable raised something else *)

Definition res := (list gname * outcome)%type.    (* globals resolved, in order; how it ended *)

(* sequential composition: stop at the first part that does not finish *)
Fixpoint seq_res (rs : list res) : res :=
  match rs with
  | [] => ([], Done)
  | (l, Done) :: r => let '(l', o') := seq_res r in (l ++ l', o')
  | x :: _ => x
  end.

Section Run.
  (* does find_class of an unpickling entered through k let g through? *)
  Variable pass : kind -> gname -> bool.

  Definition resolve (k : kind) (g : gname) : res :=
    if pass k g then ([g], Done) else ([], Unsafe g).

  Fixpoint run_node (n : node) : res :=
    match n with
    | Node k evs => seq_res (map (run_ev k) evs)
    end
  with run_ev (k : kind) (e : ev) : res :=
    match e with
    | EGlob g => resolve k g
    | ECall c ct ok ch =>
        seq_res [resolve k c;
                 seq_res (map run_node ch);
                 ([], if ok then Done else OtherError)]
    end.
End Run.

(* ---- the environment ---- *)
Definition mediated (k : kind) : bool := mem_str k ml_hooked.

Definition pass_ml (adds : list gname) (k : kind) (g : gname) : bool :=
  negb (mediated k) || spec_permits adds g.

Definition pass_all (_ : kind) (_ : gname) : bool := true.     (* the stock unpickler *)

Definition run_ml (adds : list gname) (n : node) : res := run_node (pass_ml adds) n.
Definition run_stock (n : node) : res := run_node pass_all n.

(* ---- the generated table ---- *)
Fixpoint lookup_path (c : gname) (ct : string)
         (t : list (((string * string) * string) * (list string * bool))) : option (list kind * bool) :=
  match t with
  | [] => None
  | ((c', ct'), v) :: r =>
      if gname_eqb c c' && String.eqb ct ct' then Some v else lookup_path c ct r
  end.

Definition path (c : gname) (ct : container) : option (list kind * bool) :=
  lookup_path c (container_name ct) loader_paths.

Fixpoint list_str_eqb (a b : list string) : bool :=
  match a, b with
  | [], [] => true
  | x :: r, y :: s => String.eqb x y && list_str_eqb r s
  | _, _ => false
  end.

(* every call in the tree performs the unpicklings the table says, entered the way it says *)
Fixpoint conforms (n : node) : bool :=
  match n with
  | Node _ evs => forallb ev_conforms evs
  end
with ev_conforms (e : ev) : bool :=
  match e with
  | EGlob _ => true
  | ECall c ct ok ch =>
      match path c ct with
      | Some (kinds, ok') =>
          list_str_eqb kinds (map kind_of ch) && Bool.eqb ok ok' && forallb conforms ch
      | None => false
      end
  end.

(* every unpickling in the tree is entered through a replaced attribute *)
Fixpoint all_mediated (n : node) : bool :=
  match n with
  | Node k evs => mediated k && forallb ev_mediated evs
  end
with ev_mediated (e : ev) : bool :=
  match e with
  | EGlob _ => true
  | ECall _ _ _ ch => forallb all_mediated ch
  end.

(* a (callable, container) pair all of whose unpicklings are mediated *)
Definition pair_mediated (row : ((string * string) * string) * (list string * bool)) : bool :=
  forallb mediated (fst (snd row)).

(* does the tree use a pair for which [bad] holds? *)
Fixpoint uses (bad : gname -> string -> bool) (n : node) : bool :=
  match n with
  | Node _ evs => existsb (ev_uses bad) evs
  end
with ev_uses (bad : gname -> string -> bool) (e : ev) : bool :=
  match e with
  | EGlob _ => false
  | ECall c ct _ ch => bad c (container_name ct) || existsb (uses bad) ch
  end.

(* D11: the two pairs recorded in KNOWN_FINDINGS.jsonl *)
Definition lfb : gname := ("torch.storage", "_load_from_bytes").
Definition d11 (c : gname) (ct : string) : bool :=
  gname_eqb c lfb && (String.eqb ct "legacy" || String.eqb ct "zip").

(* the longest permitted prefix of a list of globals / the first one outside *)
Fixpoint take_permitted (a : list gname) (gs : list gname) : list gname :=
  match gs with
  | [] => []
  | g :: r => if spec_permits a g then g :: take_permitted a r else []
  end.

Fixpoint first_refused (a : list gname) (gs : list gname) : option gname :=
  match gs with
  | [] => None
  | g :: r => if spec_permits a g then first_refused a r else Some g
  end.

(* what the environment should make of a load whose stock behaviour is r *)
Definition restrict (a : list gname) (r : res) : res :=
  match first_refused a (fst r) with
  | None => r
  | Some g => (take_permitted a (fst r), Unsafe g)
  end.

(* ---- wire ---- *)
Definition show_g (g : gname) : string := (fst g ++ ":" ++ snd g)%string.

Fixpoint join_s (sep : string) (l : list string) : string :=
  match l with
  | [] => ""
  | [x] => x
  | x :: r => (x ++ sep ++ join_s sep r)%string
  end.

Definition show_res (r : res) : string :=
  ((match snd r with Done => "D" | Unsafe _ => "U" | OtherError => "E" end) ++ ";" ++
   join_s "," (map show_g (fst r)))%string.
