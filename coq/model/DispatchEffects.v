(* Wire commands of the C01 correspondence: what the regenerated call graph predicts. *)
From Coq Require Import List String Bool Arith.
From Verif Require Import Base Effects CallGraph.
Import ListNotations.
Open Scope string_scope.

Definition atom_string (s : sexp) : option string :=
  match s with Atom a => string_of_wire a | _ => None end.

Fixpoint effs_of_sexps (l : list sexp) : option (list eff) :=
  match l with
  | [] => Some []
  | Atom a :: r => match eff_of_name a, effs_of_sexps r with
                   | Some e, Some t => Some (e :: t)
                   | _, _ => None
                   end
  | _ => None
  end.

Definition handle_effects (cmd : string) (args : list sexp) : option string :=
  if cmd =? "eff_reach" then
    (* (eff_reach <entry name>) -> the effect classes reachable from that body, or !unknown *)
    match args with
    | [a] => match atom_string a with
             | Some name =>
                 match index_of name node_names 0 with
                 | Some i => if reach_check g i then Some (show_effs (reach_effects g effects i))
                             else Some "!closure-not-closed"
                 | None => Some "!unknown-node"
                 end
             | None => None
             end
    | _ => None
    end
  else if cmd =? "eff_trace_ok" then
    (* (eff_trace_ok <entry name> (<observed classes>)) -> T / F *)
    match args with
    | [a; SList obs] =>
        match atom_string a, effs_of_sexps obs with
        | Some name, Some o =>
            match index_of name node_names 0 with
            | Some i => Some (show_bool (reach_check g i && trace_ok (reach_effects g effects i) o))
            | None => Some "!unknown-node"
            end
        | _, _ => None
        end
    | _ => None
    end
  else if cmd =? "eff_check" then
    Some (show_bool (check_avoid g effects entry_points [Effectful]))
  else None.
