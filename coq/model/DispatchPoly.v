(* Wire commands of the Poly model (C17). *)
From Coq Require Import List String Bool.
From Verif Require Import Base Dispatch Poly.
Import ListNotations.
Open Scope string_scope.

Definition as_bool (s : sexp) : option bool :=
  match s with
  | Atom "T" => Some true
  | Atom "F" => Some false
  | _ => None
  end.

Definition as_str (s : sexp) : option string :=
  match s with Atom a => string_of_wire a | _ => None end.

Definition as_str_list (s : sexp) : option (list string) :=
  match s with SList l => opt_map as_str l | _ => None end.

Definition as_bool_list (s : sexp) : option (list bool) :=
  match s with SList l => opt_map as_bool l | _ => None end.

(* (path d) | (path f id) *)
Definition as_entry (s : sexp) : option (string * node) :=
  match s with
  | SList [p; Atom "d"] => match as_str p with Some q => Some (q, Dir) | None => None end
  | SList [p; Atom "f"; i] =>
      match as_str p, as_str i with
      | Some q, Some id => Some (q, File (Raw id))
      | _, _ => None
      end
  | _ => None
  end.

(* (id ok (fmt ...)) | (id err) *)
Definition as_ident (s : sexp) : option (string * res (list string)) :=
  match s with
  | SList [i; Atom "ok"; l] =>
      match as_str i, as_str_list l with
      | Some id, Some fs => Some (id, Ok fs)
      | _, _ => None
      end
  | SList [i; Atom "err"] =>
      match as_str i with Some id => Some (id, Err EType) | None => None end
  | _ => None
  end.

(* (id (name ...)) *)
Definition as_znames (s : sexp) : option (string * list string) :=
  match s with
  | SList [i; l] =>
      match as_str i, as_str_list l with
      | Some id, Some ns => Some (id, ns)
      | _, _ => None
      end
  | _ => None
  end.

Definition as_list {A} (f : sexp -> option A) (s : sexp) : option (list A) :=
  match s with SList l => opt_map f l | _ => None end.

Definition as_opt_str (s : sexp) : option (option string) :=
  match s with
  | Atom "none" => Some None
  | _ => match as_str s with Some x => Some (Some x) | None => None end
  end.

Definition ident_of (tbl : list (string * res (list string))) (c : content) : res (list string) :=
  match c with
  | Raw id => match assoc_str id tbl with Some r => r | None => Err EUnmodelled end
  | _ => Err EUnmodelled
  end.

Definition znames_of (tbl : list (string * list string)) (c : content) : list string :=
  match c with
  | Raw id => match assoc_str id tbl with Some r => r | None => [] end
  | _ => []
  end.

Definition handle_poly (cmd : string) (args : list sexp) : option string :=
  if cmd =? "poly_names" then
    (* flags = (tz tar pkl std legacy), names *)
    match args with
    | [fl; ns] =>
        match as_bool_list fl, as_str_list ns with
        | Some [tz; tar; pkl; std; legacy], Some names =>
            let p := props_of_names tz tar pkl std legacy names in
            Some (show_props p ++ " " ++ show_identify p ++ " " ++ show_bool (torch_accepts tz names))
        | _, _ => None
        end
    | _ => None
    end
  else if cmd =? "poly_props" then
    match args with
    | [fl] =>
        match as_bool_list fl with
        | Some [a; b; c; d; e; f; g; h; i; j; k] =>
            let p := mkProps a b c d e f g h i j k in
            Some (show_identify p ++ " " ++ show_bool (corrupted p))
        | _ => None
        end
    | _ => None
    end
  else if cmd =? "poly_create" then
    match args with
    | [fs; a; b; out; idt; znt] =>
        match as_list as_entry fs, as_str a, as_str b, as_opt_str out,
              as_list as_ident idt, as_list as_znames znt with
        | Some fs0, Some first, Some second, Some o, Some it, Some zt =>
            let '(oc, fs') := create_polyglot (ident_of it) (znames_of zt) fs0 first second o in
            Some (show_outcome oc ++ " " ++ show_fs fs')
        | _, _, _, _, _, _ => None
        end
    | _ => None
    end
  else if cmd =? "poly_str" then
    (* string helpers: (contains s n) (ends_with s n) basename *)
    match args with
    | [a; b] =>
        match as_str a, as_str b with
        | Some s, Some n =>
            Some (show_bool (contains s n) ++ show_bool (ends_with s n) ++ " " ++ wire_of_string (basename n))
        | _, _ => None
        end
    | _ => None
    end
  else None.
