(* The observable "shape" of a pickle machine (C09): stack depth with mark positions, memo key
   set, halted flag -- and the abstract shape machine both the symbolic interpreter and the
   reference VM are shown to follow. *)
From Coq Require Import List String ZArith Bool Arith.
From Verif Require Import Base Ops Interp RefVM.
Import ListNotations.
Open Scope string_scope.

Record shape := mkShape {
  fr : list nat;        (* sizes of the stack segments between marks; head = above the top mark *)
  keys : list Z;        (* memo keys (most recently assigned first) *)
  halted : bool
}.

Fixpoint frames_of (st : list item) : list nat :=
  match st with
  | [] => [0]
  | IMark :: r => 0 :: frames_of r
  | IE _ :: r => match frames_of r with
                 | h :: t => S h :: t
                 | [] => [1]
                 end
  end.

Definition shape_fk (s : fk) : shape :=
  mkShape (frames_of (stack s)) (map fst (memo s)) (stopped s).

Definition shape_vm (s : vm) : shape :=
  mkShape (List.length (cur s) :: map (@List.length val) (meta s)) (map fst (vmemo s)) (is_stopped s).

Fixpoint kremove (k : Z) (l : list Z) : list Z :=
  match l with
  | [] => []
  | x :: r => if Z.eqb k x then kremove k r else x :: kremove k r
  end.
Definition kput (k : Z) (l : list Z) : list Z := k :: kremove k l.
Fixpoint kmem (k : Z) (l : list Z) : bool :=
  match l with
  | [] => false
  | x :: r => if Z.eqb k x then true else kmem k r
  end.

(* need at least k entries above the top mark; they are replaced by j entries *)
Definition eat (k j : nat) (f : list nat) : option (list nat) :=
  match f with
  | h :: t => if (k <=? h)%nat then Some ((h - k + j)%nat :: t) else None
  | [] => None
  end.

(* the segment above the top mark is consumed with its mark; j entries land on the segment below,
   which must already hold at least [below] entries *)
Definition close (minseg below j : nat) (f : list nat) : option (list nat) :=
  match f with
  | n :: m :: t => if ((minseg <=? n) && (below <=? m))%nat then Some ((m + j)%nat :: t) else None
  | _ => None
  end.

Definition sh_frames (o : op) (f : list nat) : option (list nat) :=
  match o with
  | OConst _ | OEmptyList | OEmptyDict | OEmptySet | OEmptyTuple | OGlobal _ _ => eat 0 1 f
  | OMark => Some (0 :: f)
  | OStop => eat 1 0 f
  | OPop => match f with
            | S h :: t => Some (h :: t)
            | 0 :: m :: t => Some (m :: t)
            | _ => None
            end
  | OPopMark => close 0 0 0 f
  | ODup => eat 1 2 f
  | OAppend => eat 2 1 f
  | OAppends | OAddItems | OSetItems => close 0 1 0 f
  | OList | OTuple | OFrozenSet | OInst _ _ => close 0 0 1 f
  | ODict => match f with
             | n :: _ => if Nat.even n then close 0 0 1 f else None
             | [] => None
             end
  | OObj => close 1 0 1 f
  | OTuple1 => eat 1 1 f
  | OTuple2 => eat 2 1 f
  | OTuple3 => eat 3 1 f
  | OSetItem => eat 3 1 f
  | OStackGlobal | ONewObj | OReduce | OBuild => eat 2 1 f
  | ONewObjEx => eat 3 1 f
  | OBinPersId => eat 1 1 f
  | OPut _ | OMemoize => eat 1 1 f
  | OGet _ => eat 0 1 f
  | ONoop => Some f
  | ONoRun => None
  end.

Definition sh_step (o : op) (sh : shape) : option shape :=
  match sh_frames o (fr sh) with
  | None => None
  | Some f' =>
      match o with
      | OStop => Some (mkShape f' (keys sh) true)
      | OPut k => Some (mkShape f' (kput k (keys sh)) (halted sh))
      | OMemoize => Some (mkShape f' (kput (Z.of_nat (List.length (keys sh))) (keys sh)) (halted sh))
      | OGet k => if kmem k (keys sh) then Some (mkShape f' (keys sh) (halted sh)) else None
      | _ => Some (mkShape f' (keys sh) (halted sh))
      end
  end.

(* ---- wire ---- *)
Fixpoint zinsert (k : Z) (l : list Z) : list Z :=
  match l with
  | [] => [k]
  | x :: r => if (k <=? x)%Z then k :: l else x :: zinsert k r
  end.
Definition zsort (l : list Z) : list Z := fold_right zinsert [] l.

Definition show_shape (sh : shape) : string :=
  "(" ++ String.concat " " (map nat_to_string (fr sh)) ++ ") ("
      ++ String.concat " " (map z_to_string (zsort (keys sh))) ++ ") " ++ show_bool (halted sh).

Definition show_trace {A} (f : A -> shape) (l : list (res A)) : string :=
  String.concat " | " (map (fun r => match r with
                                     | Ok s => show_shape (f s)
                                     | Err e => "ERR " ++ err_name e
                                     end) l).
