(* Model of fickling/polyglot.py:
     - the decision function of identify_pytorch_file_format over the record that
       find_file_properties returns (property discovery itself -- zipfile / tarfile / numpy /
       Pickled.load -- is the model's INPUT, not modelled), using the generated
       PolyTable.format_conditions and the later appends in the order the code performs them;
     - the marker tests of find_file_properties / check_if_model_archive_format over a zip name list
       (substring test `name in entry`, suffix test `entry.endswith(name)`);
     - what torch's own zip reader requires (magic at offset 0, record "<archive>/data.pkl");
     - create_polyglot and its three constructors over an ABSTRACT FILE SYSTEM, every statement that
       can raise being an explicit crash point.  The control flow modelled is the pinned tree WITH
       notes/fix_polyglot_cleanup.patch applied (try/finally cleanup; see notes/C17.md).
   Executable definitions only. *)
From Coq Require Import List String Ascii Bool Arith.
From Verif Require Import Base PolyTable.
Import ListNotations.
Open Scope string_scope.

(* ---------- strings ---------- *)
(* Python `s in n` *)
Fixpoint contains (s n : string) : bool :=
  if prefix s n then true
  else match n with
       | EmptyString => false
       | String _ r => contains s r
       end.

(* Python `n.endswith(s)` *)
Fixpoint ends_with (s n : string) : bool :=
  if String.eqb s n then true
  else match n with
       | EmptyString => false
       | String _ r => ends_with s r
       end.

Definition slash : ascii := "/"%char.

(* os.path.basename: the text after the last "/" *)
Fixpoint basename_aux (acc s : string) : string :=
  match s with
  | EmptyString => acc
  | String c r => if Ascii.eqb c slash then basename_aux EmptyString r
                  else basename_aux (acc ++ String c EmptyString) r
  end.
Definition basename (p : string) : string := basename_aux EmptyString p.

(* text before the first "/" (None when there is none) *)
Fixpoint upto_slash (s : string) : option string :=
  match s with
  | EmptyString => None
  | String c r => if Ascii.eqb c slash then Some EmptyString
                  else match upto_slash r with
                       | Some d => Some (String c d)
                       | None => None
                       end
  end.

(* ---------- the properties record ---------- *)
Record props := mkProps {
  is_torch_zip : bool;        (* torch.serialization._is_zipfile: PK\x03\x04 at offset 0 *)
  is_tar : bool;              (* tarfile.is_tarfile *)
  is_valid_pickle : bool;     (* check_pickle(file, min_length=2) *)
  is_standard_zip : bool;     (* zipfile.is_zipfile *)
  has_data_pkl : bool;
  has_constants_pkl : bool;
  has_version : bool;
  has_model_json : bool;
  has_attributes_pkl : bool;
  legacy_ok : bool;           (* truthiness of check_if_legacy_format(file); consulted only if is_tar *)
  mar_ok : bool               (* truthiness of check_if_model_archive_format; only if is_standard_zip *)
}.

(* properties[key] for the keys of the dict (None = KeyError; numpy keys are not modelled) *)
Definition prop_key (p : props) (k : string) : option bool :=
  if k =? "is_torch_zip" then Some (is_torch_zip p)
  else if k =? "is_tar" then Some (is_tar p)
  else if k =? "is_valid_pickle" then Some (is_valid_pickle p)
  else if k =? "is_standard_zip" then Some (is_standard_zip p)
  else if k =? "is_standard_not_torch" then Some (is_standard_zip p && negb (is_torch_zip p))
  else if k =? "has_data_pkl" then Some (has_data_pkl p)
  else if k =? "has_constants_pkl" then Some (has_constants_pkl p)
  else if k =? "has_version" then Some (has_version p)
  else if k =? "has_model_json" then Some (has_model_json p)
  else if k =? "has_attributes_pkl" then Some (has_attributes_pkl p)
  else None.

(* all(properties[key] for key in keys): short-circuits at the first false key *)
Fixpoint all_keys (p : props) (keys : list string) : res bool :=
  match keys with
  | [] => Ok true
  | k :: r => match prop_key p k with
              | None => Err EKey
              | Some false => Ok false
              | Some true => all_keys p r
              end
  end.

(* [name for keys, name in format_conditions if all(...)] *)
Fixpoint zip_formats (p : props) (conds : list (list string * string)) : res (list string) :=
  match conds with
  | [] => Ok []
  | (keys, name) :: r =>
      do b <- all_keys p keys;
      do t <- zip_formats p r;
      Ok (if b then name :: t else t)
  end.

Definition F_TS14 := "TorchScript v1.4".
Definition F_TS13 := "TorchScript v1.3".
Definition F_TS10 := "TorchScript v1.0".
Definition F_TS11 := "TorchScript v1.1".
Definition F_PT13 := "PyTorch v1.3".
Definition F_TAR := "PyTorch v0.1.1".
Definition F_PKL := "PyTorch v0.1.10".
Definition F_MAR := "PyTorch model archive format".

(* identify_pytorch_file_format, polyglot.py:279-306 *)
Definition identify (p : props) : res (list string) :=
  do z <- (if is_torch_zip p then zip_formats p format_conditions else Ok []);
  Ok (z
      ++ (if is_tar p && legacy_ok p then [F_TAR] else [])
      ++ (if is_valid_pickle p then [F_PKL] else [])
      ++ (if is_standard_zip p && mar_ok p then [F_MAR] else []))%list.

(* check_for_corruption *)
Definition corrupted (p : props) : bool :=
  is_torch_zip p && has_model_json p && negb (has_attributes_pkl p) && negb (has_constants_pkl p).

(* ---------- property discovery over a zip name list ---------- *)
Definition has_sub (s : string) (names : list string) : bool := existsb (contains s) names.
Definition has_ext (s : string) (names : list string) : bool := existsb (ends_with s) names.

(* check_if_model_archive_format: .json and (.pt or .pth) and .py, by extension *)
Definition mar_of_names (names : list string) : bool :=
  has_ext ".json" names && (has_ext ".pt" names || has_ext ".pth" names) && has_ext ".py" names.

(* find_file_properties given the four container flags, check_if_legacy_format's answer and the zip's
   name list ([] when zipfile cannot open it): markers are looked for only if is_torch_zip *)
Definition props_of_names (tz tar pkl std legacy : bool) (names : list string) : props :=
  mkProps tz tar pkl std
    (tz && has_sub "data.pkl" names)
    (tz && has_sub "constants.pkl" names)
    (tz && has_sub "version" names)
    (tz && has_sub "model.json" names)
    (tz && has_sub "attributes.pkl" names)
    legacy
    (mar_of_names names).

(* what torch's zip loader needs structurally: _is_zipfile, and PyTorchFileReader -- which takes the
   first member's name up to its first "/" as the archive prefix -- finds the records "version" and
   "data.pkl" under that prefix.  (It also parses the version number; the value is outside the model.) *)
Definition torch_accepts (tz : bool) (names : list string) : bool :=
  tz && match names with
        | [] => false
        | n0 :: _ => match upto_slash n0 with
                     | None => false
                     | Some d => mem_str (d ++ "/version") names && mem_str (d ++ "/data.pkl") names
                     end
        end.

(* ---------- abstract file system ---------- *)
(* file contents are symbolic: the harness evaluates them against the real bytes *)
Inductive content :=
| Raw (id : string)                                   (* the bytes of an input file *)
| Cat (dst src : content)                             (* append_file: dst's bytes then src's bytes *)
| ZipAdd (base : content) (adds : list (string * content))  (* ZipFile(base,"a").write(.., arcname) *)
| Member (z : content) (name : string).               (* the bytes of member [name] of zip [z] *)

Inductive node :=
| File (c : content)
| Dir.

Definition fsys := list (string * node).

Fixpoint lookup (fs : fsys) (p : string) : option node :=
  match fs with
  | [] => None
  | (q, n) :: r => if String.eqb q p then Some n else lookup r p
  end.

Fixpoint remove (fs : fsys) (p : string) : fsys :=
  match fs with
  | [] => []
  | (q, n) :: r => if String.eqb q p then remove r p else (q, n) :: remove r p
  end.

Definition write (fs : fsys) (p : string) (n : node) : fsys := (p, n) :: remove fs p.

(* p is d or lies below d *)
Definition in_tree (d p : string) : bool := String.eqb p d || prefix (d ++ "/") p.

(* shutil.rmtree(d) *)
Fixpoint rmtree (fs : fsys) (d : string) : fsys :=
  match fs with
  | [] => []
  | (q, n) :: r => if in_tree d q then rmtree r d else (q, n) :: rmtree r d
  end.

(* proper directory prefixes of a relative member name: "m/x/c.pkl" -> ["m"; "m/x"] *)
Fixpoint dirs_aux (acc s : string) : list string :=
  match s with
  | EmptyString => []
  | String c r => if Ascii.eqb c slash then acc :: dirs_aux (acc ++ "/") r
                  else dirs_aux (acc ++ String c EmptyString) r
  end.
Definition dirs_of (name : string) : list string := dirs_aux EmptyString name.

(* zip_b.extract(name, "temp"): creates temp/, the member's directories and the file *)
Definition extract_temp (fs : fsys) (name : string) (c : content) : fsys :=
  let fs1 := write fs "temp" Dir in
  let fs2 := fold_left (fun f d => write f ("temp/" ++ d) Dir) (dirs_of name) fs1 in
  write fs2 ("temp/" ++ name) (File c).

(* member names for which "temp/" ++ name is where zipfile extracts to *)
Definition sane_member (name : string) : bool :=
  negb (prefix "/" name) && negb (contains ".." name) && negb (contains "//" name)
  && negb (ends_with "/" name) && negb (String.eqb name "").

(* ---------- create_polyglot ---------- *)
Inductive crash :=
| CopyFirst            (* shutil.copy(first_file, ..): FileNotFoundError *)
| CopySecond           (* shutil.copy(second_file, ..): FileNotFoundError *)
| IdentFirst (e : err) (* identify_pytorch_file_format(temp_first) raised *)
| IdentSecond (e : err)
| NoFormatFirst        (* identify(...)[0] on an empty list: IndexError (D10) *)
| NoFormatSecond
| Unmodelled.          (* outside the modelled fragment *)

Inductive outcome :=
| Returned (found : bool)
| Raised (c : crash).

Definition temp_name (p : string) : string := "temp_" ++ basename p.

(* shutil.copy(src, dst) for a regular file src and a dst that is not a directory *)
Definition copy (fs : fsys) (src dst : string) : option fsys :=
  match lookup fs src, lookup fs dst with
  | Some (File c), Some Dir => None
  | Some (File c), _ => Some (write fs dst (File c))
  | _, _ => None
  end.

Definition file_at (fs : fsys) (p : string) : option content :=
  match lookup fs p with Some (File c) => Some c | _ => None end.

(* append_file(source, destination) *)
Definition append_file (fs : fsys) (src dst : string) : option fsys :=
  match file_at fs src, file_at fs dst with
  | Some cs, Some cd => Some (write fs dst (File (Cat cd cs)))
  | _, _ => None
  end.

Record st := mkSt {
  s_fs : fsys;
  s_files : list (string * string);      (* (temp path, primary format) *)
  s_name : option string;                (* polyglot_file_name *)
  s_found : bool
}.

Inductive step :=
| Go (s : st)
| Stop (c : crash) (fs : fsys).

Definition subset2 (a b : string) (fmts : list string) : bool := mem_str a fmts && mem_str b fmts.

(* [file[0] for file in files if file[1] == fmt][0] *)
Fixpoint first_with (fmt : string) (files : list (string * string)) : option string :=
  match files with
  | [] => None
  | (p, f) :: r => if String.eqb f fmt then Some p else first_with fmt r
  end.

Definition name_or (o : option string) (d : string) : string :=
  match o with Some n => n | None => d end.

(* create_mar_legacy_pickle_polyglot *)
Definition mar_pickle (s : st) : step :=
  let name := name_or (s_name s) "polyglot.mar.pt" in
  (* files.sort(key=lambda x: x[1] != MAR): stable, MAR entries first; sorts the caller's list *)
  let files := (filter (fun x => String.eqb (snd x) F_MAR) (s_files s)
                ++ filter (fun x => negb (String.eqb (snd x) F_MAR)) (s_files s))%list in
  match files with
  | [(src, _); (dst, _)] =>
      match append_file (s_fs s) src dst with
      | Some fs1 => match copy fs1 dst name with
                    | Some fs2 => Go (mkSt fs2 files (Some name) true)
                    | None => Stop Unmodelled fs1
                    end
      | None => Stop Unmodelled (s_fs s)
      end
  | _ => Stop Unmodelled (s_fs s)
  end.

(* create_standard_torchscript_polyglot (with the fix: members are looked up and extracted before the
   output is created; a TorchScript file without them yields "no polyglot"; temp/ is always removed) *)
Definition std_torchscript (znames : content -> list string) (s : st) : step :=
  let name := name_or (s_name s) "polyglot.pt" in
  match first_with F_PT13 (s_files s), first_with F_TS14 (s_files s) with
  | Some std, Some ts =>
      match file_at (s_fs s) std, file_at (s_fs s) ts with
      | Some cstd, Some cts =>
          match find (ends_with "constants.pkl") (znames cts), find (ends_with "version") (znames cts) with
          | Some cp, Some vp =>
              if sane_member cp && sane_member vp then
                let fs1 := extract_temp (s_fs s) cp (Member cts cp) in
                let fs2 := extract_temp fs1 vp (Member cts vp) in
                match copy fs2 std name with
                | Some fs3 =>
                    let fs4 := write fs3 name
                                 (File (ZipAdd cstd [("constants.pkl", Member cts cp);
                                                     ("version", Member cts vp)])) in
                    Go (mkSt (rmtree fs4 "temp") (s_files s) (Some name) true)
                | None => Stop Unmodelled (rmtree fs2 "temp")
                end
              else Stop Unmodelled (s_fs s)
          | _, _ => Go (mkSt (s_fs s) (s_files s) (Some name) false)
          end
      | _, _ => Stop Unmodelled (s_fs s)
      end
  | _, _ => Stop Unmodelled (s_fs s)
  end.

(* create_mar_legacy_tar_polyglot *)
Definition mar_tar (s : st) : step :=
  let name := name_or (s_name s) "polyglot.mar.tar" in
  match first_with F_MAR (s_files s), first_with F_TAR (s_files s) with
  | Some mar, Some tar =>
      match append_file (s_fs s) mar tar with
      | Some fs1 => match copy fs1 tar name with
                    | Some fs2 => Go (mkSt fs2 (s_files s) (Some name) true)
                    | None => Stop Unmodelled fs1
                    end
      | None => Stop Unmodelled (s_fs s)
      end
  | _, _ => Stop Unmodelled (s_fs s)
  end.

Definition and_then (r : step) (cond : st -> bool) (f : st -> step) : step :=
  match r with
  | Go s => if cond s then f s else Go s
  | Stop c fs => Stop c fs
  end.

Definition formats_of (s : st) : list string := map snd (s_files s).

Section Create.
  (* the world outside the model: what identification says about a file's bytes, and a zip's name list *)
  Variable ident : content -> res (list string).
  Variable znames : content -> list string.

  (* the body of the try block *)
  Definition body (fs : fsys) (first second : string) (out : option string) : outcome * fsys :=
    let t1 := temp_name first in
    let t2 := temp_name second in
    match copy fs first t1 with
    | None => (Raised CopyFirst, fs)
    | Some fs1 =>
    match copy fs1 second t2 with
    | None => (Raised CopySecond, fs1)
    | Some fs2 =>
    match file_at fs2 t1, file_at fs2 t2 with
    | Some c1, Some c2 =>
      match ident c1 with
      | Err e => (Raised (IdentFirst e), fs2)
      | Ok [] => (Raised NoFormatFirst, fs2)
      | Ok (f1 :: _) =>
      match ident c2 with
      | Err e => (Raised (IdentSecond e), fs2)
      | Ok [] => (Raised NoFormatSecond, fs2)
      | Ok (f2 :: _) =>
          let s0 := mkSt fs2 [(t1, f1); (t2, f2)] out false in
          let r1 := and_then (Go s0) (fun s => subset2 F_MAR F_PKL (formats_of s0)) mar_pickle in
          let r2 := and_then r1 (fun s => subset2 F_PT13 F_TS14 (formats_of s0)) (std_torchscript znames) in
          let r3 := and_then r2 (fun s => subset2 F_MAR F_TAR (formats_of s0)) mar_tar in
          match r3 with
          | Go s => (Returned (s_found s), s_fs s)
          | Stop c fs' => (Raised c, fs')
          end
      end
      end
    | _, _ => (Raised Unmodelled, fs2)
    end
    end
    end.

  (* finally: remove whichever working copies exist *)
  Definition cleanup (fs : fsys) (first second : string) : fsys :=
    remove (remove fs (temp_name first)) (temp_name second).

  Definition create_polyglot (fs : fsys) (first second : string) (out : option string)
    : outcome * fsys :=
    let '(o, fs') := body fs first second out in
    (o, cleanup fs' first second).

  (* identification of the file at a path: reads, never writes *)
  Definition identify_path (fs : fsys) (p : string) : option (res (list string)) * fsys :=
    (match file_at fs p with Some c => Some (ident c) | None => None end, fs).
End Create.

(* ---------- text output for the correspondence ---------- *)
Definition show_strs (l : list string) : string :=
  "[" ++ String.concat "," (map wire_of_string l) ++ "]".

Definition show_props (p : props) : string :=
  String.concat "" (map show_bool
    [has_data_pkl p; has_constants_pkl p; has_version p; has_model_json p; has_attributes_pkl p;
     mar_ok p; corrupted p]).

Definition show_identify (p : props) : string :=
  match identify p with
  | Ok l => "ok " ++ show_strs l
  | Err e => "err " ++ err_name e
  end.

Fixpoint show_content (c : content) : string :=
  match c with
  | Raw id => "(raw " ++ wire_of_string id ++ ")"
  | Cat a b => "(cat " ++ show_content a ++ " " ++ show_content b ++ ")"
  | ZipAdd b adds =>
      "(zipadd " ++ show_content b ++
      (fix go (l : list (string * content)) : string :=
         match l with
         | [] => ""
         | (n, c) :: r => " (" ++ wire_of_string n ++ " " ++ show_content c ++ ")" ++ go r
         end) adds ++ ")"
  | Member z n => "(member " ++ show_content z ++ " " ++ wire_of_string n ++ ")"
  end.

Definition show_node (n : node) : string :=
  match n with File c => show_content c | Dir => "dir" end.

Definition show_fs (fs : fsys) : string :=
  "(" ++ String.concat " " (map (fun e => "(" ++ wire_of_string (fst e) ++ " " ++ show_node (snd e) ++ ")") fs) ++ ")".

Definition show_crash (c : crash) : string :=
  match c with
  | CopyFirst => "copy-first" | CopySecond => "copy-second"
  | IdentFirst e => "ident-first:" ++ err_name e | IdentSecond e => "ident-second:" ++ err_name e
  | NoFormatFirst => "no-format-first" | NoFormatSecond => "no-format-second"
  | Unmodelled => "unmodelled"
  end.

Definition show_outcome (o : outcome) : string :=
  match o with
  | Returned b => "returned " ++ show_bool b
  | Raised c => "raised " ++ show_crash c
  end.
