(* ast.unparse (CPython 3.12) for exactly the AST subset fickling's interpreter emits.  The text of a
   constant (Python's repr, with ast.unparse's float special cases) is not re-implemented: it is a
   parameter [crepr], arbitrary in the theorems and supplied by the harness in the correspondence. *)
From Coq Require Import List String Ascii ZArith Bool Arith.
From Verif Require Import Base Ops Interp.
Import ListNotations.
Open Scope string_scope.

Definition UDEPTH : nat := 40.

Definition commas (l : list string) : string := String.concat ", " l.

Section WithRepr.
Variable crepr : const -> string.

(* tuples are parenthesised everywhere except as a non-empty subscript index *)
Definition tuple_items (items : list string) : string :=
  match items with
  | [x] => x ++ ","
  | _ => commas items
  end.

Fixpoint unparse_expr (fuel : nat) (ns : list node) (e : expr) : string :=
  match fuel with
  | O => "<deep>"
  | S n =>
      let go := unparse_expr n ns in
      let gopairs := fun kvs => map (fun kv => go (fst kv) ++ ": " ++ go (snd kv)) kvs in
      match e with
      | EConst c => crepr c
      | EName s => s
      | EVar i => var_name i
      | ETuple l => "(" ++ tuple_items (map go l) ++ ")"
      | ENode i =>
          match nth_error ns i with
          | Some (NList l) => "[" ++ commas (map go l) ++ "]"
          | Some (NSet []) => "{*()}"
          | Some (NSet l) => "{" ++ commas (map go l) ++ "}"
          | Some (NDict kvs) => "{" ++ commas (gopairs kvs) ++ "}"
          | None => "<badnode>"
          end
      | ECall f args kw =>
          go f ++ "(" ++ commas (map go args ++ match kw with Some k => ["**" ++ go k] | None => [] end)
               ++ ")"
      | EStarred x => "*" ++ go x
      | EAttr x a => go x ++ "." ++ a
      | ESetLit [] => "{*()}"
      | ESetLit l => "{" ++ commas (map go l) ++ "}"
      | EDictLit kvs => "{" ++ commas (gopairs kvs) ++ "}"
      end
  end.

Definition unparse_index (ns : list node) (k : expr) : string :=
  match k with
  | ETuple (x :: r) => tuple_items (map (unparse_expr UDEPTH ns) (x :: r))
  | _ => unparse_expr UDEPTH ns k
  end.

Definition unparse_stmt (result_name : string) (ns : list node) (s : stmt) : string :=
  let go := unparse_expr UDEPTH ns in
  match s with
  | SImport m n => "from " ++ m ++ " import " ++ n
  | SAssignV i e => var_name i ++ " = " ++ go e
  | SResult e => result_name ++ " = " ++ go e
  | SSetItemV i k e => var_name i ++ "[" ++ unparse_index ns k ++ "] = " ++ go e
  | SExpr e => go e
  end.

Definition newline : string := String (ascii_of_nat 10) EmptyString.

(* unparse(module): statements in order, one per line *)
Definition unparse_module (result_name : string) (s : fk) : string :=
  String.concat newline (map (unparse_stmt result_name (nodes s)) (rev (body s))).

End WithRepr.

(* executable constant table for the correspondence: first match wins *)
Fixpoint lookup_repr (tbl : list (const * string)) (c : const) : string :=
  match tbl with
  | [] => "<norepr>"
  | (c', s) :: r => if const_eqb c c' then s else lookup_repr r c
  end.
