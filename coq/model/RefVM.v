(* Reference model: CPython 3.12's pure-Python pickle._Unpickler in an INERT-STUB world
   (find_class and persistent_load return inert stand-ins; calling a stand-in logs an event and
   returns a fresh opaque object).  This is the specification side of C03/C05/C08/C09. *)
From Coq Require Import List String ZArith Bool Arith.
From Verif Require Import Base Ops Interp.
Import ListNotations.
Open Scope string_scope.

Inductive val :=
| VConst (c : const)
| VGlobal (m n : string)        (* the stand-in find_class returned for m.n *)
| VTuple (l : list val)
| VRef (i : nat)                (* mutable list / set / dict object in the heap *)
| VFrozen (l : list val)
| VObj (k : nat).               (* opaque result of the k-th call / persistent load *)

Inductive hobj :=
| HList (l : list val)
| HSet (l : list val)
| HDict (kvs : list (val * val)).   (* insertion history; duplicate keys not merged *)

Inductive event :=
| EvResolve (m n : string)
| EvCall (f : val) (args : list val) (kw : option val) (result : nat)
| EvPersLoad (pid : val) (result : nat)
| EvSetState (obj st : val)
| EvSetItem (obj k v : val).       (* obj[k] = v on a stand-in object *)

Record vm := mkVm {
  cur : list val;               (* current stack, top first *)
  meta : list (list val);       (* metastack, newest first *)
  vmemo : list (Z * val);
  heap : list hobj;
  log : list event;             (* newest first *)
  nobj : nat;                   (* next opaque object id *)
  vstopped : option val
}.

Definition vm_init : vm := mkVm [] [] [] [] [] 0 None.

Definition with_frames (s : vm) (c : list val) (m : list (list val)) : vm :=
  mkVm c m (vmemo s) (heap s) (log s) (nobj s) (vstopped s).

Definition vpush' (v : val) (s : vm) : vm := with_frames s (v :: cur s) (meta s).
Definition vpush (v : val) (s : vm) : res vm := Ok (vpush' v s).

Definition vpop (s : vm) : res (val * vm) :=
  match cur s with
  | v :: c => Ok (v, with_frames s c (meta s))
  | [] => Err EIndex
  end.

Definition vtop (s : vm) : res val :=
  match cur s with
  | v :: _ => Ok v
  | [] => Err EIndex
  end.

(* pop_mark(): returns the current stack bottom-first and reinstates the previous one *)
Definition vpop_mark (s : vm) : res (list val * vm) :=
  match meta s with
  | prev :: rest => Ok (rev (cur s), with_frames s prev rest)
  | [] => Err EIndex
  end.

Definition valloc (h : hobj) (s : vm) : nat * vm :=
  (List.length (heap s), mkVm (cur s) (meta s) (vmemo s) (heap s ++ [h]) (log s) (nobj s) (vstopped s)).
Definition vset_obj (i : nat) (h : hobj) (s : vm) : vm :=
  mkVm (cur s) (meta s) (vmemo s) (set_nth i h (heap s)) (log s) (nobj s) (vstopped s).
Definition vget_obj (i : nat) (s : vm) : option hobj := nth_error (heap s) i.

Definition vlog (e : event) (s : vm) : vm :=
  mkVm (cur s) (meta s) (vmemo s) (heap s) (e :: log s) (nobj s) (vstopped s).

Definition fresh_obj (s : vm) : nat * vm :=
  (nobj s, mkVm (cur s) (meta s) (vmemo s) (heap s) (log s) (S (nobj s)) (vstopped s)).

(* stand-ins (globals and call results) are callable; nothing else is *)
Definition callable (v : val) : bool :=
  match v with VGlobal _ _ | VObj _ => true | _ => false end.

Definition do_call (f : val) (args : list val) (kw : option val) (s : vm) : res vm :=
  if callable f then
    let '(k, s1) := fresh_obj s in
    vpush (VObj k) (vlog (EvCall f args kw k) s1)
  else Err EType.

Fixpoint vpairs_of (l : list val) : res (list (val * val)) :=
  match l with
  | [] => Ok []
  | k :: v :: r => do t <- vpairs_of r; Ok ((k, v) :: t)
  | [_] => Err EIndex
  end.

(* hashability: lists, sets and dicts are unhashable; so are tuples containing them *)
Fixpoint hashable (v : val) : bool :=
  match v with
  | VRef _ => false
  | VTuple l => forallb hashable l
  | VFrozen _ => true
  | _ => true
  end.

Definition find_class (m n : string) (s : vm) : res vm :=
  if plain m && plain n then vpush (VGlobal m n) (vlog (EvResolve m n) s) else Err EUnmodelled.

Definition vstep (o : op) (s : vm) : res vm :=
  match o with
  | OConst c => vpush (VConst c) s
  | OMark => Ok (with_frames s [] (cur s :: meta s))
  | OStop =>
      do '(v, s1) <- vpop s;
      Ok (mkVm (cur s1) (meta s1) (vmemo s1) (heap s1) (log s1) (nobj s1) (Some v))
  | OPop =>
      match cur s, meta s with
      | _ :: c, _ => Ok (with_frames s c (meta s))
      | [], prev :: rest => Ok (with_frames s prev rest)
      | [], [] => Err EIndex
      end
  | OPopMark => do '(_, s1) <- vpop_mark s; Ok s1
  | ODup => do v <- vtop s; vpush v s
  | OEmptyList => let '(i, s1) := valloc (HList []) s in vpush (VRef i) s1
  | OEmptyDict => let '(i, s1) := valloc (HDict []) s in vpush (VRef i) s1
  | OEmptySet => let '(i, s1) := valloc (HSet []) s in vpush (VRef i) s1
  | OEmptyTuple => vpush (VTuple []) s
  | OAppend =>
      do '(v, s1) <- vpop s; do l <- vtop s1;
      match l with
      | VRef i => match vget_obj i s1 with
                  | Some (HList xs) => Ok (vset_obj i (HList (xs ++ [v])) s1)
                  | _ => Err EType
                  end
      | _ => Err EType
      end
  | OAppends =>
      do '(items, s1) <- vpop_mark s; do l <- vtop s1;
      match l with
      | VRef i => match vget_obj i s1 with
                  | Some (HList xs) => Ok (vset_obj i (HList (xs ++ items)) s1)
                  | _ => Err EType
                  end
      | _ => Err EType
      end
  | OList =>
      do '(items, s1) <- vpop_mark s;
      let '(i, s2) := valloc (HList items) s1 in vpush (VRef i) s2
  | OTuple => do '(items, s1) <- vpop_mark s; vpush (VTuple items) s1
  | OTuple1 => do '(a, s1) <- vpop s; vpush (VTuple [a]) s1
  | OTuple2 => do '(b, s1) <- vpop s; do '(a, s2) <- vpop s1; vpush (VTuple [a; b]) s2
  | OTuple3 =>
      do '(c, s1) <- vpop s; do '(b, s2) <- vpop s1; do '(a, s3) <- vpop s2;
      vpush (VTuple [a; b; c]) s3
  | ODict =>
      do '(items, s1) <- vpop_mark s; do kvs <- vpairs_of items;
      if forallb (fun kv => hashable (fst kv)) kvs then
        let '(i, s2) := valloc (HDict kvs) s1 in vpush (VRef i) s2
      else Err EType
  | OSetItem =>
      do '(v, s1) <- vpop s; do '(k, s2) <- vpop s1; do d <- vtop s2;
      match d with
      | VRef i => match vget_obj i s2 with
                  | Some (HDict kvs) =>
                      if hashable k then Ok (vset_obj i (HDict (kvs ++ [(k, v)])) s2) else Err EType
                  | _ => Err EType
                  end
      | VObj _ | VGlobal _ _ => Ok (vlog (EvSetItem d k v) s2)
      | _ => Err EType
      end
  | OSetItems =>
      do '(items, s1) <- vpop_mark s; do d <- vtop s1; do kvs <- vpairs_of items;
      match d with
      | VRef i => match vget_obj i s1 with
                  | Some (HDict old) =>
                      if forallb (fun kv => hashable (fst kv)) kvs
                      then Ok (vset_obj i (HDict (old ++ kvs)) s1) else Err EType
                  | _ => Err EType
                  end
      | VObj _ | VGlobal _ _ =>
          Ok (fold_left (fun st kv => vlog (EvSetItem d (fst kv) (snd kv)) st) kvs s1)
      | _ => Err EType
      end
  | OAddItems =>
      do '(items, s1) <- vpop_mark s; do d <- vtop s1;
      match d with
      | VRef i => match vget_obj i s1 with
                  | Some (HSet xs) =>
                      if forallb hashable items then Ok (vset_obj i (HSet (xs ++ items)) s1)
                      else Err EType
                  | _ => Err EType
                  end
      | _ => Err EType
      end
  | OFrozenSet =>
      do '(items, s1) <- vpop_mark s;
      if forallb hashable items then vpush (VFrozen items) s1 else Err EType
  | OGlobal m n => find_class m n s
  | OStackGlobal =>
      do '(n, s1) <- vpop s; do '(m, s2) <- vpop s1;
      match m, n with
      | VConst (CStr ms), VConst (CStr ns) => find_class ms ns s2
      | _, _ => Err EType
      end
  | OInst m n =>
      do '(items, s1) <- vpop_mark s;
      if plain m && plain n then
        let s2 := vlog (EvResolve m n) s1 in do_call (VGlobal m n) items None s2
      else Err EUnmodelled
  | OObj =>
      do '(items, s1) <- vpop_mark s;
      match items with
      | [] => Err EIndex
      | k :: args => do_call k args None s1
      end
  | ONewObj =>
      do '(args, s1) <- vpop s; do '(c, s2) <- vpop s1;
      match args with
      | VTuple l => do_call c l None s2
      | _ => Err EType
      end
  | ONewObjEx =>
      do '(kw, s1) <- vpop s; do '(args, s2) <- vpop s1; do '(c, s3) <- vpop s2;
      match args, kw with
      | VTuple l, VRef i => match vget_obj i s3 with
                            | Some (HDict _) => do_call c l (Some kw) s3
                            | _ => Err EType
                            end
      | _, _ => Err EType
      end
  | OReduce =>
      do '(args, s1) <- vpop s; do '(f, s2) <- vpop s1;
      match args with
      | VTuple l => do_call f l None s2
      | _ => Err EType
      end
  | OBuild =>
      do '(st, s1) <- vpop s; do inst <- vtop s1;
      if callable inst then Ok (vlog (EvSetState inst st) s1) else Err EType
  | OBinPersId =>
      do '(pid, s1) <- vpop s;
      let '(k, s2) := fresh_obj s1 in vpush (VObj k) (vlog (EvPersLoad pid k) s2)
  | OPut k =>
      do v <- vtop s;
      if (k <? 0)%Z then Err EValue
      else Ok (mkVm (cur s) (meta s) (memo_put k v (vmemo s)) (heap s) (log s) (nobj s) (vstopped s))
  | OGet k =>
      match memo_get k (vmemo s) with
      | Some v => vpush v s
      | None => Err EKey
      end
  | OMemoize =>
      do v <- vtop s;
      Ok (mkVm (cur s) (meta s) (memo_put (Z.of_nat (List.length (vmemo s))) v (vmemo s)) (heap s)
               (log s) (nobj s) (vstopped s))
  | ONoop => Ok s
  | ONoRun => Err EUnmodelled     (* PERSID: text persistent id; fickling refuses it *)
  end.

Definition is_stopped (s : vm) : bool := match vstopped s with Some _ => true | None => false end.

Fixpoint vrun_from (p : list op) (s : vm) : res vm :=
  match p with
  | [] => Ok s
  | o :: r => if is_stopped s then Ok s else do s1 <- vstep o s; vrun_from r s1
  end.
Definition vrun (p : list op) : res vm := vrun_from p vm_init.

Fixpoint vtrace_from (p : list op) (s : vm) : list (res vm) :=
  match p with
  | [] => []
  | o :: r => if is_stopped s then [] else
              match vstep o s with
              | Ok s1 => Ok s1 :: vtrace_from r s1
              | Err e => [Err e]
              end
  end.
