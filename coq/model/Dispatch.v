(* Wire dispatcher for the correspondence driver: one S-expression in, one line of text out.
   The OCaml side (ocaml/driver.ml) only tokenises the line into [sexp] and prints the result. *)
From Coq Require Import List String ZArith Bool Arith.
From Verif Require Import Base Severity.
Import ListNotations.
Open Scope string_scope.

Definition as_nat (s : sexp) : option nat :=
  match s with
  | Atom a => match z_of_string a with Some z => Some (Z.to_nat z) | None => None end
  | _ => None
  end.

Fixpoint opt_map {A B} (f : A -> option B) (l : list A) : option (list B) :=
  match l with
  | [] => Some []
  | x :: r => match f x, opt_map f r with
              | Some y, Some t => Some (y :: t)
              | _, _ => None
              end
  end.

Definition as_nat_list (s : sexp) : option (list nat) :=
  match s with SList l => opt_map as_nat l | _ => None end.

Definition as_nat_list_list (s : sexp) : option (list (list nat)) :=
  match s with SList l => opt_map as_nat_list l | _ => None end.

Definition handle_sev (cmd : string) (args : list sexp) : option string :=
  if cmd =? "sev_ops" then
    match args with
    | [a; b] => match as_nat a, as_nat b with
                | Some x, Some y => Some (show_ops x y)
                | _, _ => None
                end
    | _ => None
    end
  else if cmd =? "sev_name" then
    match args with
    | [a] => match as_nat a with Some x => Some (sev_name x) | None => None end
    | _ => None
    end
  else if cmd =? "sev_faces" then
    match args with
    | [t; ps] => match as_nat t, as_nat_list_list ps with
                 | Some thr, Some l => Some (show_faces thr l)
                 | _, _ => None
                 end
    | _ => None
    end
  else None.
