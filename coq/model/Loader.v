(* Model of fickling/loader.py (the checked loader, C02) and of the three ways it is armed.

     def load(file, max_acceptable_severity=Severity.LIKELY_SAFE, ...):
         pickled_data = Pickled.load(file)                                   (1) parse
         result = check_safety(pickled=pickled_data, ...)                    (2) analyse
         if result.severity <= max_acceptable_severity:                      (3) threshold
             return pickle.loads(pickled_data.dumps(), *args, **kwargs)      (4) load the PARSED bytes
         else:
             raise UnsafeFileError(file, result.to_dict())                   (5) refuse

   The caller's stream is an ORACLE: [s_at s t] is what the stream holds at time t, and it may hold
   something else at every t.  Time is counted in phases of the call: T_PARSE (everything
   Pickled.load reads -- model: Codec.load_model, C06), T_CHECK (while check_safety runs), T_LOAD
   (when the real unpickler runs).  A stream that is swapped after the first pass is
   [s_at s T_PARSE <> s_at s T_LOAD].  (A stream that returns different bytes for the same region
   WITHIN Pickled.load is outside this model and outside the quantifier of C02: DESIGN section 4.)

   The stock unpickler [unpickle] is the ONLY function that produces Resolve / Call events; it is a
   Section variable, so every theorem holds for any unpickler whatsoever (in the correspondence it
   is instantiated with RefVM).  Argument decoding of pickletools ([decode]: from the parsed
   opcodes to the abstract program + PROTO positions; its ValueErrors surface inside Pickled.load)
   is a Section variable too.  Executable definitions only. *)
From Coq Require Import List String ZArith Bool Arith.
From Coq.Strings Require Import Byte.
From Verif Require Import Base Hooks Ops Interp RefVM Codec Analysis Severity.
Import ListNotations.
Open Scope string_scope.

Definition T_PARSE : nat := 0.
Definition T_CHECK : nat := 1.
Definition T_LOAD : nat := 2.

Record stream := mkStream {
  s_kind : kind;                (* bytes object / seekable file object / non-seekable file object *)
  s_off : nat;                  (* offset of a file object when the call is made *)
  s_at : nat -> list byte       (* content by time of access *)
}.

(* ---- what a call can raise ---- *)
Inductive aerr :=
| AInterp (e : err)             (* the symbolic interpreter raised inside check_safety *)
| AUnknown.                     (* an analysis this model does not know (run_all = None) *)

Record report := mkReport {     (* AnalysisResults.to_dict() *)
  rp_severity : string;         (*   ["severity"] = result.severity.name *)
  rp_findings : list finding    (*   ["analysis"], ["detailed_results"]: functions of the findings *)
}.

Inductive lexn :=
| XParse (e : lerr)             (* Pickled.load raised *)
| XAnalysis (a : aerr)          (* check_safety raised *)
| XUnsafe (info : report)       (* UnsafeFileError(file, info) *)
| XDumps (e : err)              (* dumps() raised: never after a successful parse (LoaderProofs) *)
| XUnpickle (what : string).    (* the stock unpickler raised on the accepted bytes *)

Inductive ures (V : Type) :=
| UVal (v : V)
| URaise (what : string).
Arguments UVal {V} v.
Arguments URaise {V} what.

Inductive lout (V : Type) :=
| Return (v : V)
| Raise (x : lexn).
Arguments Return {V} v.
Arguments Raise {V} x.

Record lrun (V : Type) := mkRun {
  r_out : lout V;
  r_events : list event;              (* Resolve / Call / ... events of the whole call, oldest first *)
  r_loaded : option (list byte);      (* the bytes handed to the stock unpickler, if it was called *)
  r_reads : list nat                  (* times at which the CALLER's stream was accessed *)
}.
Arguments mkRun {V} r_out r_events r_loaded r_reads.
Arguments r_out {V} l.
Arguments r_events {V} l.
Arguments r_loaded {V} l.
Arguments r_reads {V} l.

Inductive cres :=
| COk (fs : list finding)
| CErr (a : aerr).

Definition to_dict (fs : list finding) : report := mkReport (sev_name (verdict fs)) fs.

Section Loader.
Variable V : Type.
Variable unpickle : list byte -> ures V * list event.               (* pickle.loads *)
Variable decode : list opc -> option (list op * list (nat * Z)).    (* pickletools argument decoding *)
Variable crepr : const -> string.                                   (* repr of constants (Unparse) *)
Variable std : string -> bool.                                      (* fickle.is_std_module *)

(* check_safety(pickled): decompile, run Analysis.ALL, or raise *)
Definition check (prog : list op) (protos : list (nat * Z)) : cres :=
  match run prog with
  | Err e => CErr (AInterp e)
  | Ok st =>
      match analyze crepr std protos st with
      | Some fs => COk fs
      | None => CErr AUnknown
      end
  end.

(* a bytes object is copied into a BytesIO: the caller has no stream to access *)
Definition parse_reads (k : kind) : list nat :=
  match k with KBytes => [] | _ => [T_PARSE] end.

Definition refuse (x : lexn) (reads : list nat) : lrun V := mkRun (Raise x) [] None reads.

Definition finish (u : ures V * list event) (bs : list byte) (reads : list nat) : lrun V :=
  mkRun (match fst u with UVal v => Return v | URaise w => Raise (XUnpickle w) end)
        (snd u) (Some bs) reads.

(* fickling.load(file, max_acceptable_severity=thr) *)
Definition load (s : stream) (thr : sev) : lrun V :=
  let rd := parse_reads (s_kind s) in
  match load_model (s_kind s) (s_at s T_PARSE) (s_off s) with     (* pickled_data = Pickled.load(file) *)
  | LErr e => refuse (XParse e) rd
  | LOk p =>
      match decode (l_ops p) with                                 (*   (argument content errors) *)
      | None => refuse (XParse LDecode) rd
      | Some (prog, protos) =>
          match check prog protos with                            (* result = check_safety(...) *)
          | CErr a => refuse (XAnalysis a) rd
          | COk fs =>
              if sev_le (verdict fs) thr                          (* result.severity <= max_acc... *)
              then match dumps (l_ops p) with                     (* pickle.loads(pickled_data.dumps()) *)
                   | Err e => refuse (XDumps e) rd
                   | Ok bs => finish (unpickle bs) bs rd
                   end
              else refuse (XUnsafe (to_dict fs)) rd               (* raise UnsafeFileError(file, to_dict()) *)
          end
      end
  end.

(* The alternative the comment in loader.py warns against -- `file.seek(start); pickle.load(file)`:
   analyse the stream, then let the unpickler read it AGAIN.  Not what /repo does; kept as the
   contrast of the time-of-check / time-of-use theorem (and as the model of that mutation). *)
Definition load_reread (s : stream) (thr : sev) : lrun V :=
  let r := load s thr in
  match r_loaded r with
  | Some _ =>
      let bs := skipn (s_off s) (s_at s T_LOAD) in
      finish (unpickle bs) bs (r_reads r ++ [T_LOAD])
  | None => r
  end.

(* the unhooked pickle.load(file): reads the stream when it is called *)
Definition stock_load (s : stream) : lrun V :=
  let bs := skipn (s_off s) (s_at s T_LOAD) in
  finish (unpickle bs) bs [T_LOAD].

(* ---- arming (bindings: Hooks.v, C12) ---- *)
Inductive arming :=
| ADirect (thr : sev)        (* fickling.load(file, max_acceptable_severity=thr) *)
| AHook                      (* fickling.always_check_safety(); pickle.load(file) *)
| AContext (thr_arg : sev).  (* with FicklingContextManager(max_acceptable_severity=thr_arg): pickle.load(file)
                                -- check_safety() is the same with the default argument *)

(* the operations the arming performs: the context manager calls hook.run_hook() in __enter__ and never
   uses its max_acceptable_severity (the wrapped_load lambda it builds is dropped) *)
Definition arm_ops (a : arming) : list hop :=
  match a with
  | ADirect _ => []
  | AHook => [HArm]
  | AContext _ => [HEnter]
  end.

(* pickle.load(file) in hook state hs; None = a binding outside C02 (the ML environment: C07/C12) *)
Definition pickle_load (hs : hstate) (s : stream) : option (lrun V) :=
  match pl hs with
  | Orig => Some (stock_load s)
  | Checked =>                         (* loader.load(file): every other parameter at its default *)
      match pls hs with                (* ... which re-enters through the current pickle.loads *)
      | Orig => Some (load s LIKELY_SAFE)
      | _ => None
      end
  | ML _ => None
  end.

(* a checked load after an arbitrary earlier hook history h *)
Definition armed_load (h : list hop) (a : arming) (s : stream) : option (lrun V) :=
  match a with
  | ADirect thr => Some (load s thr)
  | _ => pickle_load (hrun (hrun h_init h) (arm_ops a)) s
  end.

End Loader.

(* all members of the live Severity enum *)
Definition all_thresholds : list sev := seq 0 nsev.

(* ---- wire ---- *)
Definition show_lerr_class (e : lerr) : string :=
  match e with
  | LEmpty => "Empty" | LDecode => "Decode" | LNotImpl => "NotImpl"
  | LOther x => "Other:" ++ err_name x
  end.

Definition show_aerr (a : aerr) : string :=
  match a with AInterp e => err_name e | AUnknown => "UNKNOWN-ANALYSIS" end.

Fixpoint resolves (l : list event) : list string :=
  match l with
  | [] => []
  | EvResolve m n :: r => (wire_of_string m ++ ":" ++ wire_of_string n) :: resolves r
  | _ :: r => resolves r
  end.

Fixpoint count_calls (l : list event) : nat :=
  match l with
  | [] => 0
  | EvCall _ _ _ _ :: r => S (count_calls r)
  | _ :: r => count_calls r
  end.

Definition show_events (l : list event) : string :=
  "[" ++ String.concat "," (resolves l) ++ "] c" ++ nat_to_string (count_calls l).

Definition show_reads (l : list nat) : string :=
  "r" ++ String.concat "" (map nat_to_string l).
