(* Model of fickling/loader.py (the checked loader, C02) and of the three ways it is armed.

     def load(file, max_acceptable_severity=Severity.LIKELY_SAFE, ...):
         data = Pickled.load(file).dumps()                                   (1) read the first pickle ONCE
         pickled_data = Pickled.load(data)                                   (2) re-parse those immutable bytes
         result = check_safety(pickled=pickled_data, ...)                    (3) analyse
         if result.severity <= max_acceptable_severity:                      (4) threshold
             return pickle.loads(data, *args, **kwargs)                      (5) load the SAME bytes
         else:
             raise UnsafeFileError(file, result.to_dict())                   (6) refuse

   (the tree repaired by "fix: checked load analyses a re-parse of the exact bytes it is going to
   unpickle"; the earlier loader analysed the opcodes of step (1) directly: [load_prefix_core].)

   [load_core] takes the result of step (1) as an ARBITRARY value p1 : lres (list opc) -- whatever
   Pickled.load(file) returned or raised on whatever stream, including a stream that answers every
   read differently; nothing is assumed about it.  [load s thr] is the composition with a well-behaved
   stream: an ORACLE whose content [s_at s t] may differ at every phase t of the call (T_PARSE =
   everything the first Pickled.load reads -- model: Codec.load_model, C06; T_CHECK; T_LOAD).

   The stock unpickler [unpickle] is the ONLY function that produces Resolve / Call events; it is a
   Section variable, so every theorem holds for any unpickler whatsoever (in the correspondence it
   is instantiated with RefVM).  Argument decoding of pickletools ([decode]: from the parsed
   opcodes to the abstract program + PROTO positions; its ValueErrors surface inside Pickled.load)
   is a Section variable too.  Executable definitions only. *)
From Coq Require Import List String ZArith Bool Arith.
From Coq.Strings Require Import Byte.
From Verif Require Import Base Hooks Ops Interp RefVM Codec Analysis Severity.
Import ListNotations.
Open Scope string_scope.

Definition T_PARSE : nat := 0.
Definition T_CHECK : nat := 1.
Definition T_LOAD : nat := 2.

Record stream := mkStream {
  s_kind : kind;                (* bytes object / seekable file object / non-seekable file object *)
  s_off : nat;                  (* offset of a file object when the call is made *)
  s_at : nat -> list byte       (* content by time of access *)
}.

(* ---- what a call can raise ---- *)
Inductive aerr :=
| AInterp (e : err)             (* the symbolic interpreter raised inside check_safety *)
| AUnknown.                     (* an analysis this model does not know (run_all = None) *)

Record report := mkReport {     (* AnalysisResults.to_dict() *)
  rp_severity : string;         (*   ["severity"] = result.severity.name *)
  rp_findings : list finding    (*   ["analysis"], ["detailed_results"]: functions of the findings *)
}.

Inductive lexn :=
| XParse (e : lerr)             (* Pickled.load raised *)
| XAnalysis (a : aerr)          (* check_safety raised *)
| XUnsafe (info : report)       (* UnsafeFileError(file, info) *)
| XDumps (e : err)              (* dumps() raised: never after a successful parse (LoaderProofs) *)
| XUnpickle (what : string).    (* the stock unpickler raised on the accepted bytes *)

Inductive ures (V : Type) :=
| UVal (v : V)
| URaise (what : string).
Arguments UVal {V} v.
Arguments URaise {V} what.

Inductive lout (V : Type) :=
| Return (v : V)
| Raise (x : lexn).
Arguments Return {V} v.
Arguments Raise {V} x.

Record lrun (V : Type) := mkRun {
  r_out : lout V;
  r_events : list event;              (* Resolve / Call / ... events of the whole call, oldest first *)
  r_loaded : option (list byte);      (* the bytes handed to the stock unpickler, if it was called *)
  r_reads : list nat                  (* times at which the CALLER's stream was accessed *)
}.
Arguments mkRun {V} r_out r_events r_loaded r_reads.
Arguments r_out {V} l.
Arguments r_events {V} l.
Arguments r_loaded {V} l.
Arguments r_reads {V} l.

Inductive cres :=
| COk (fs : list finding)
| CErr (a : aerr).

Definition to_dict (fs : list finding) : report := mkReport (sev_name (verdict fs)) fs.

Section Loader.
Variable V : Type.
Variable unpickle : list byte -> ures V * list event.               (* pickle.loads *)
Variable decode : list opc -> option (list op * list (nat * Z)).    (* pickletools argument decoding *)
Variable crepr : const -> string.                                   (* repr of constants (Unparse) *)
Variable std : string -> bool.                                      (* fickle.is_std_module *)

(* check_safety(pickled): decompile, run Analysis.ALL, or raise *)
Definition check (prog : list op) (protos : list (nat * Z)) : cres :=
  match run prog with
  | Err e => CErr (AInterp e)
  | Ok st =>
      match analyze crepr std protos st with
      | Some fs => COk fs
      | None => CErr AUnknown
      end
  end.

(* a bytes object is copied into a BytesIO: the caller has no stream to access *)
Definition parse_reads (k : kind) : list nat :=
  match k with KBytes => [] | _ => [T_PARSE] end.

Definition refuse (x : lexn) (reads : list nat) : lrun V := mkRun (Raise x) [] None reads.

Definition finish (u : ures V * list event) (bs : list byte) (reads : list nat) : lrun V :=
  mkRun (match fst u with UVal v => Return v | URaise w => Raise (XUnpickle w) end)
        (snd u) (Some bs) reads.

(* Pickled.load(data) on an immutable bytes object *)
Definition parse_bytes (data : list byte) : lres loaded := load_model KBytes data 0.

(* loader.load after `Pickled.load(file)` has returned / raised p1 (ANY p1) *)
Definition load_core (p1 : lres (list opc)) (rd : list nat) (thr : sev) : lrun V :=
  match p1 with
  | LErr e => refuse (XParse e) rd                                (* Pickled.load(file) raised *)
  | LOk ops1 =>
      match dumps ops1 with                                       (* data = <that>.dumps() *)
      | Err e => refuse (XDumps e) rd
      | Ok data =>
          match parse_bytes data with                             (* pickled_data = Pickled.load(data) *)
          | LErr e => refuse (XParse e) rd
          | LOk p2 =>
              match decode (l_ops p2) with                        (*   (argument content errors) *)
              | None => refuse (XParse LDecode) rd
              | Some (prog, protos) =>
                  match check prog protos with                    (* result = check_safety(...) *)
                  | CErr a => refuse (XAnalysis a) rd
                  | COk fs =>
                      if sev_le (verdict fs) thr                  (* result.severity <= max_acc... *)
                      then finish (unpickle data) data rd         (* pickle.loads(data) *)
                      else refuse (XUnsafe (to_dict fs)) rd       (* raise UnsafeFileError(file, to_dict()) *)
                  end
              end
          end
      end
  end.

(* Pickled.load(file) on a stream that is stable while it is being parsed *)
Definition first_parse (s : stream) : lres (list opc) :=
  match load_model (s_kind s) (s_at s T_PARSE) (s_off s) with
  | LOk p => LOk (l_ops p)
  | LErr e => LErr e
  end.

(* fickling.load(file, max_acceptable_severity=thr) *)
Definition load (s : stream) (thr : sev) : lrun V :=
  load_core (first_parse s) (parse_reads (s_kind s)) thr.

(* The loader BEFORE the repair: the opcodes of the first parse are analysed directly.  Their decoded
   arguments [args1] come from the tokeniser's own reads, their [o_data] from fickling's re-reads of the
   same regions, so on a stream that answers the two reads differently they are unrelated: args1 is a
   separate, arbitrary input.  Kept only as the witness of the defect (C02_prefix_loader_refuted). *)
Definition load_prefix_core (p1 : lres (list opc)) (args1 : option (list op * list (nat * Z)))
           (rd : list nat) (thr : sev) : lrun V :=
  match p1 with
  | LErr e => refuse (XParse e) rd
  | LOk ops1 =>
      match args1 with
      | None => refuse (XParse LDecode) rd
      | Some (prog, protos) =>
          match check prog protos with
          | CErr a => refuse (XAnalysis a) rd
          | COk fs =>
              if sev_le (verdict fs) thr
              then match dumps ops1 with
                   | Err e => refuse (XDumps e) rd
                   | Ok bs => finish (unpickle bs) bs rd
                   end
              else refuse (XUnsafe (to_dict fs)) rd
          end
      end
  end.

(* The alternative the comment in loader.py warns against -- `file.seek(start); pickle.load(file)`:
   analyse the stream, then let the unpickler read it AGAIN.  Not what /repo does; kept as the
   contrast of the time-of-check / time-of-use theorem (and as the model of that mutation). *)
Definition load_reread (s : stream) (thr : sev) : lrun V :=
  let r := load s thr in
  match r_loaded r with
  | Some _ =>
      let bs := skipn (s_off s) (s_at s T_LOAD) in
      finish (unpickle bs) bs (r_reads r ++ [T_LOAD])
  | None => r
  end.

(* the unhooked pickle.load(file): reads the stream when it is called *)
Definition stock_load (s : stream) : lrun V :=
  let bs := skipn (s_off s) (s_at s T_LOAD) in
  finish (unpickle bs) bs [T_LOAD].

(* ---- arming (bindings: Hooks.v, C12) ---- *)
Inductive arming :=
| ADirect (thr : sev)        (* fickling.load(file, max_acceptable_severity=thr) *)
| AHook                      (* fickling.always_check_safety(); pickle.load(file) *)
| AContext (thr_arg : sev).  (* with FicklingContextManager(max_acceptable_severity=thr_arg): pickle.load(file)
                                -- check_safety() is the same with the default argument *)

(* the operations the arming performs: the context manager calls hook.run_hook() in __enter__ and never
   uses its max_acceptable_severity (the wrapped_load lambda it builds is dropped) *)
Definition arm_ops (a : arming) : list hop :=
  match a with
  | ADirect _ => []
  | AHook => [HArm]
  | AContext _ => [HEnter]
  end.

(* pickle.load(file) in hook state hs, given what the checked loader / the stock unpickler would do with
   that file; None = a binding outside C02 (the ML environment: C07/C12) *)
Definition pickle_load_with (checked : sev -> lrun V) (stock : lrun V) (hs : hstate) : option (lrun V) :=
  match pl hs with
  | Orig => Some stock
  | Checked =>                         (* loader.load(file): every other parameter at its default *)
      match pls hs with                (* ... which re-enters through the current pickle.loads *)
      | Orig => Some (checked LIKELY_SAFE)
      | _ => None
      end
  | ML _ => None
  end.

(* a checked load after an arbitrary earlier hook history h *)
Definition armed_with (checked : sev -> lrun V) (stock : lrun V) (h : list hop) (a : arming)
  : option (lrun V) :=
  match a with
  | ADirect thr => Some (checked thr)
  | _ => pickle_load_with checked stock (hrun (hrun h_init h) (arm_ops a))
  end.

Definition pickle_load (hs : hstate) (s : stream) : option (lrun V) :=
  pickle_load_with (load s) (stock_load s) hs.

Definition armed_load (h : list hop) (a : arming) (s : stream) : option (lrun V) :=
  armed_with (load s) (stock_load s) h a.

(* ... on ANY stream: p1 = what Pickled.load(file) gave, stock = what the stock unpickler would do *)
Definition armed_core (h : list hop) (a : arming) (p1 : lres (list opc)) (rd : list nat) (stock : lrun V)
  : option (lrun V) :=
  armed_with (load_core p1 rd) stock h a.

End Loader.

(* all members of the live Severity enum *)
Definition all_thresholds : list sev := seq 0 nsev.

(* ---- wire ---- *)
Definition show_lerr_class (e : lerr) : string :=
  match e with
  | LEmpty => "Empty" | LDecode => "Decode" | LNotImpl => "NotImpl"
  | LOther x => "Other:" ++ err_name x
  end.

Definition show_aerr (a : aerr) : string :=
  match a with AInterp e => err_name e | AUnknown => "UNKNOWN-ANALYSIS" end.

Fixpoint resolves (l : list event) : list string :=
  match l with
  | [] => []
  | EvResolve m n :: r => (wire_of_string m ++ ":" ++ wire_of_string n) :: resolves r
  | _ :: r => resolves r
  end.

Fixpoint count_calls (l : list event) : nat :=
  match l with
  | [] => 0
  | EvCall _ _ _ _ :: r => S (count_calls r)
  | _ :: r => count_calls r
  end.

Definition show_events (l : list event) : string :=
  "[" ++ String.concat "," (resolves l) ++ "] c" ++ nat_to_string (count_calls l).

Definition show_reads (l : list nat) : string :=
  "r" ++ String.concat "" (map nat_to_string l).
