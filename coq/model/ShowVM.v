(* Canonical text of interpreter / VM states for the correspondence check.  Mutable nodes are
   rendered by content (unfolded, cut at a fixed depth), so both sides can print them without
   agreeing on object numbering. *)
From Coq Require Import List String ZArith Bool Arith.
From Verif Require Import Base Ops Interp RefVM.
Import ListNotations.
Open Scope string_scope.

Definition DEPTH : nat := 14.

Definition sp (l : list string) : string := String.concat " " l.
Definition par (l : list string) : string := "(" ++ sp l ++ ")".

Fixpoint show_expr (fuel : nat) (ns : list node) (e : expr) : string :=
  match fuel with
  | O => "(deep)"
  | S n =>
      let go := show_expr n ns in
      let gopairs := fun kvs => map (fun kv => par [go (fst kv); go (snd kv)]) kvs in
      match e with
      | EConst c => show_const c
      | EName s => par ["name"; wire_of_string s]
      | EVar i => par ["var"; nat_to_string i]
      | ETuple l => par ("tuple" :: map go l)
      | ENode i =>
          match nth_error ns i with
          | Some (NList l) => par ("list" :: map go l)
          | Some (NSet l) => par ("set" :: map go l)
          | Some (NDict kvs) => par ("dict" :: gopairs kvs)
          | None => "(badnode)"
          end
      | ECall f args kw =>
          par ["call"; go f; par (map go args); match kw with Some k => go k | None => "-" end]
      | EStarred x => par ["star"; go x]
      | EAttr x a => par ["attr"; go x; wire_of_string a]
      | ESetLit l => par ("set" :: map go l)
      | EDictLit kvs => par ("dict" :: gopairs kvs)
      end
  end.

Definition show_stmt (ns : list node) (s : stmt) : string :=
  let go := show_expr DEPTH ns in
  match s with
  | SImport m n => par ["import"; wire_of_string m; wire_of_string n]
  | SAssignV i e => par ["assign"; nat_to_string i; go e]
  | SResult e => par ["result"; go e]
  | SSetItemV i k e => par ["setitem"; nat_to_string i; go k; go e]
  | SExpr e => par ["expr"; go e]
  end.

Definition show_body (s : fk) : string := sp (map (show_stmt (nodes s)) (rev (body s))).

Definition show_fk_result (r : res fk) : string :=
  match r with
  | Ok s => "OK " ++ show_body s
  | Err e => "ERR " ++ err_name e
  end.

(* ---- VM values ---- *)
Fixpoint sinsert (x : string) (l : list string) : list string :=
  match l with
  | [] => [x]
  | y :: r => if String.eqb x y then l else if String.leb x y then x :: l else y :: sinsert x r
  end.
Definition ssort (l : list string) : list string := fold_right sinsert [] l.

(* sorting that keeps duplicates *)
Fixpoint sinsert_dup (x : string) (l : list string) : list string :=
  match l with
  | [] => [x]
  | y :: r => if String.leb x y then x :: l else y :: sinsert_dup x r
  end.
Definition ssort_dup (l : list string) : list string := fold_right sinsert_dup [] l.

(* dict semantics on rendered keys: a later assignment to an equal key replaces the value in place *)
Fixpoint dset (k v : string) (l : list (string * string)) : list (string * string) :=
  match l with
  | [] => [(k, v)]
  | (k', v') :: r => if String.eqb k k' then (k, v) :: r else (k', v') :: dset k v r
  end.
Definition dmerge (l : list (string * string)) : list (string * string) :=
  fold_left (fun acc kv => dset (fst kv) (snd kv) acc) l [].

(* Python equality of hashable values identifies True with 1 and False with 0 (also inside tuples and
   frozensets): a set keeps the FIRST of two equal elements, a dict keeps the first KEY and the last
   value.  [norm = true] renders a value up to that identification (used only as the comparison key). *)
Definition show_const_key (c : const) : string :=
  match c with
  | CBool b => show_const (CInt (if b then 1%Z else 0%Z))
  | _ => show_const c
  end.

(* keep the first element for every key *)
Fixpoint first_by_key (seen : list string) (l : list (string * string)) : list string :=
  match l with
  | [] => []
  | (k, x) :: r => if mem_str k seen then first_by_key seen r else x :: first_by_key (k :: seen) r
  end.

(* dict on (key-for-equality, rendered key, rendered value): later assignment to an equal key replaces
   the value in place and keeps the key already there *)
Fixpoint dset3 (kk k v : string) (l : list (string * (string * string))) : list (string * (string * string)) :=
  match l with
  | [] => [(kk, (k, v))]
  | (kk', (k', v')) :: r => if String.eqb kk kk' then (kk', (k', v)) :: r else (kk', (k', v')) :: dset3 kk k v r
  end.
Definition dmerge3 (l : list (string * (string * string))) : list (string * string) :=
  map snd (fold_left (fun acc x => dset3 (fst x) (fst (snd x)) (snd (snd x)) acc) l []).

Fixpoint show_val_gen (norm : bool) (fuel : nat) (h : list hobj) (v : val) : string :=
  match fuel with
  | O => "(deep)"
  | S n =>
      let go := show_val_gen norm n h in
      let key := show_val_gen true n h in
      match v with
      | VConst c => if norm then show_const_key c else show_const c
      | VGlobal m nm => par ["global"; wire_of_string (if is_builtins m then "builtins" else m);
                             wire_of_string nm]
      | VTuple l => par ("tuple" :: map go l)
      | VRef i =>
          match nth_error h i with
          | Some (HList l) => par ("list" :: map go l)
          | Some (HSet l) => par ("set" :: ssort (first_by_key [] (map (fun x => (key x, go x)) l)))
          | Some (HDict kvs) =>
              par ("dict" :: map (fun kv => par [fst kv; snd kv])
                                 (dmerge3 (map (fun kv => (key (fst kv), (go (fst kv), go (snd kv)))) kvs)))
          | None => "(badref)"
          end
      | VFrozen l => par ("frozenset" :: ssort (first_by_key [] (map (fun x => (key x, go x)) l)))
      | VObj k => par ["obj"; nat_to_string k]
      end
  end.
Definition show_val := show_val_gen false.

Definition show_event (h : list hobj) (e : event) : string :=
  let go := show_val DEPTH h in
  match e with
  | EvResolve m n => par ["resolve"; wire_of_string m; wire_of_string n]
  | EvCall f args kw k =>
      (* Python cannot tell "no keyword arguments" from an empty **kwargs dict *)
      par ["call"; go f; par (map go args);
           match kw with
           | Some x => let s := go x in if s =? "(dict)" then "-" else s
           | None => "-"
           end;
           nat_to_string k]
  | EvPersLoad pid k => par ["persload"; go pid; nat_to_string k]
  | EvSetState o st => par ["setstate"; go o; go st]
  | EvSetItem o k v => par ["setitem"; go o; go k; go v]
  end.

Definition show_vm_result (r : res vm) : string :=
  match r with
  | Ok s =>
      match vstopped s with
      | Some v => "OK " ++ show_val DEPTH (heap s) v ++ " | " ++
                  sp (map (show_event (heap s)) (rev (log s)))
      | None => "NOSTOP"
      end
  | Err e => "ERR " ++ err_name e
  end.
