(* Model of fickling.analysis.Severity (operators as implemented), AnalysisResults.severity,
   and the faces that consume it: is_likely_safe, loader.load's threshold test, the CLI exit
   status and the JSON report.  The enum's value tuples come from the generated SevTable. *)
From Coq Require Import List String ZArith Bool Arith.
From Verif Require Import Base SevTable.
Import ListNotations.
Open Scope string_scope.

Definition sval := (Z * string)%type.

(* Python tuple comparison of (int, str) values *)
Definition tuple_lt (a b : sval) : bool :=
  (fst a <? fst b)%Z || ((fst a =? fst b)%Z && String.ltb (snd a) (snd b)).
Definition tuple_eq (a b : sval) : bool :=
  (fst a =? fst b)%Z && String.eqb (snd a) (snd b).

(* a severity is an index into the table (definition order of the enum) *)
Definition sev := nat.
Definition nsev : nat := List.length sev_table.
Definition default_row : string * sval := ("?", ((-1)%Z, "")).
Definition row (s : sev) : string * sval := nth s sev_table default_row.
Definition sev_name (s : sev) : string := fst (row s).
Definition sev_val (s : sev) : sval := snd (row s).

(* operators exactly as analysis.py:80-93 writes them (both operands are Severity members) *)
Definition sev_lt (a b : sev) : bool := tuple_lt (sev_val a) (sev_val b).      (* __lt__ *)
Definition sev_gt (a b : sev) : bool := sev_lt b a.                            (* __gt__ = other < self *)
Definition sev_eq (a b : sev) : bool := tuple_eq (sev_val b) (sev_val a).      (* __eq__ *)
Definition sev_ge (a b : sev) : bool := sev_gt a b || sev_eq a b.              (* __ge__ *)
Definition sev_le (a b : sev) : bool := sev_lt a b || sev_eq a b.              (* __le__ *)
Definition sev_ne (a b : sev) : bool := negb (sev_eq a b).                     (* default __ne__ *)

(* the documented ranking (README / enum docstring), lowest first *)
Definition documented : list string :=
  ["LIKELY_SAFE"; "POSSIBLY_UNSAFE"; "SUSPICIOUS"; "LIKELY_UNSAFE";
   "LIKELY_OVERTLY_MALICIOUS"; "OVERTLY_MALICIOUS"].

Fixpoint index_of (x : string) (l : list string) : option nat :=
  match l with
  | [] => None
  | y :: r => if String.eqb x y then Some 0
              else match index_of x r with Some n => Some (S n) | None => None end
  end.

Definition doc_rank (s : sev) : nat :=
  match index_of (sev_name s) documented with Some n => n | None => 99 end.

Fixpoint find_sev (name : string) (i : nat) (l : list (string * sval)) : option sev :=
  match l with
  | [] => None
  | (n, _) :: r => if String.eqb n name then Some i else find_sev name (S i) r
  end.
Definition sev_of_name (name : string) : option sev := find_sev name 0 sev_table.

Definition LIKELY_SAFE : sev :=
  match sev_of_name "LIKELY_SAFE" with Some s => s | None => 0 end.

(* Python's max(): keeps the first maximal element, compares with `>` *)
Fixpoint py_max (cur : sev) (l : list sev) : sev :=
  match l with
  | [] => cur
  | x :: r => py_max (if sev_gt x cur then x else cur) r
  end.

(* AnalysisResults.severity over the severities of the reported findings *)
Definition severity (rs : list sev) : sev :=
  match rs with
  | [] => LIKELY_SAFE
  | x :: r => py_max x r
  end.

(* ---- faces ---- *)
(* a file = list of stacked pickles, each with the severities of its findings *)
Definition pickle_findings := list sev.

(* fickling.is_likely_safe(path): first pickle only *)
Definition face_is_likely_safe (first : pickle_findings) : bool :=
  sev_eq (severity first) LIKELY_SAFE.

(* bool(check_safety(p)) -- AnalysisResults.__bool__: all(map(bool, sorted(self.results))), where
   AnalysisResult.__bool__ is `self.severity == Severity.LIKELY_SAFE` (sorting does not change `all`) *)
Definition face_bool (first : pickle_findings) : bool :=
  forallb (fun r => sev_eq r LIKELY_SAFE) first.

(* loader.load: `if result.severity <= max_acceptable_severity: return ... else: raise` *)
Definition face_loader_raises (thr : sev) (first : pickle_findings) : bool :=
  negb (sev_le (severity first) thr).

(* cli --check-safety: was_safe is cleared by any pickle with severity > LIKELY_SAFE;
   return [1, 0][was_safe] *)
Definition face_cli_exit (ps : list pickle_findings) : nat :=
  if forallb (fun p => negb (sev_gt (severity p) LIKELY_SAFE)) ps then 0 else 1.

(* one JSON document per stacked pickle, "severity": severity.name *)
Definition face_json (ps : list pickle_findings) : list string :=
  map (fun p => sev_name (severity p)) ps.

(* ---- wire ---- *)
Definition show_faces (thr : sev) (ps : list pickle_findings) : string :=
  let first := match ps with p :: _ => p | [] => [] end in
  "(faces " ++ show_bool (face_is_likely_safe first) ++ " "
            ++ show_bool (face_bool first) ++ " "
            ++ show_bool (face_loader_raises thr first) ++ " "
            ++ nat_to_string (face_cli_exit ps) ++ " ("
            ++ String.concat " " (face_json ps) ++ "))".

Definition show_ops (a b : sev) : string :=
  String.concat " " (map show_bool
    [sev_lt a b; sev_le a b; sev_eq a b; sev_ne a b; sev_gt a b; sev_ge a b]).
