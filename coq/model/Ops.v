(* Abstract pickle opcodes shared by the fickling symbolic interpreter model (Interp.v) and the
   reference pickle VM model (RefVM.v).  Opcodes whose run() methods / VM handlers are the same
   function of the decoded argument are merged into one constructor; [family] records the merge
   so that the generated OpTable can be checked against it. *)
From Coq Require Import List String ZArith Bool.
From Verif Require Import Base.
Import ListNotations.
Open Scope string_scope.

Inductive const :=
| CInt (z : Z)
| CStr (s : string)      (* text, as its UTF-8 bytes *)
| CBytes (s : string)
| CFloat (bits : string) (* the 8 big-endian IEEE bytes; never compared as a float *)
| CBool (b : bool)
| CNone.

Inductive op :=
| OConst (c : const)
| OMark | OStop | OPop | OPopMark | ODup
| OEmptyList | OEmptyDict | OEmptySet | OEmptyTuple
| OAppend | OAppends | OList | OTuple | OTuple1 | OTuple2 | OTuple3
| ODict | OSetItem | OSetItems | OAddItems | OFrozenSet
| OGlobal (m n : string) | OStackGlobal | OInst (m n : string)
| OObj | ONewObj | ONewObjEx | OReduce | OBuild | OBinPersId
| OPut (k : Z) | OGet (k : Z) | OMemoize
| ONoop          (* PROTO, FRAME *)
| ONoRun.        (* a class without run(): PERSID *)

Definition const_eqb (a b : const) : bool :=
  match a, b with
  | CInt x, CInt y => Z.eqb x y
  | CStr x, CStr y => String.eqb x y
  | CBytes x, CBytes y => String.eqb x y
  | CFloat x, CFloat y => String.eqb x y
  | CBool x, CBool y => Bool.eqb x y
  | CNone, CNone => true
  | _, _ => false
  end.

(* pickletools opcode name -> family of abstract op it is merged into (None = no model:
   fickling must refuse it) *)
Definition family (name : string) : option string :=
  if mem_str name ["INT"; "BININT"; "BININT1"; "BININT2"; "LONG"; "LONG1"; "LONG4"; "STRING";
                   "BINSTRING"; "SHORT_BINSTRING"; "BINBYTES"; "SHORT_BINBYTES"; "BINBYTES8";
                   "UNICODE"; "SHORT_BINUNICODE"; "BINUNICODE"; "BINUNICODE8"; "BINFLOAT";
                   "NONE"; "NEWTRUE"; "NEWFALSE"] then Some "CONST"
  else if mem_str name ["PUT"; "BINPUT"; "LONG_BINPUT"] then Some "PUT"
  else if mem_str name ["GET"; "BINGET"; "LONG_BINGET"] then Some "GET"
  else if mem_str name ["PROTO"; "FRAME"] then Some "NOOP"
  else if mem_str name ["MARK"; "STOP"; "POP"; "POP_MARK"; "DUP"; "EMPTY_LIST"; "EMPTY_DICT";
                        "EMPTY_SET"; "EMPTY_TUPLE"; "APPEND"; "APPENDS"; "LIST"; "TUPLE"; "TUPLE1";
                        "TUPLE2"; "TUPLE3"; "DICT"; "SETITEM"; "SETITEMS"; "ADDITEMS"; "FROZENSET";
                        "GLOBAL"; "STACK_GLOBAL"; "INST"; "OBJ"; "NEWOBJ"; "NEWOBJ_EX"; "REDUCE";
                        "BUILD"; "BINPERSID"; "MEMOIZE"] then Some name
  else None.

(* ---- wire ---- *)
Definition const_of_sexp (s : sexp) : option const :=
  match s with
  | SList [Atom k; Atom a] =>
      if k =? "int" then match z_of_string a with Some z => Some (CInt z) | None => None end
      else if k =? "str" then match string_of_wire a with Some x => Some (CStr x) | None => None end
      else if k =? "bytes" then match string_of_wire a with Some x => Some (CBytes x) | None => None end
      else if k =? "float" then match string_of_wire a with Some x => Some (CFloat x) | None => None end
      else if k =? "bool" then Some (CBool (a =? "T"))
      else None
  | Atom "none" => Some CNone
  | _ => None
  end.

Definition op_of_sexp (s : sexp) : option op :=
  match s with
  | Atom a =>
      if a =? "MARK" then Some OMark else if a =? "STOP" then Some OStop
      else if a =? "POP" then Some OPop else if a =? "POP_MARK" then Some OPopMark
      else if a =? "DUP" then Some ODup else if a =? "EMPTY_LIST" then Some OEmptyList
      else if a =? "EMPTY_DICT" then Some OEmptyDict else if a =? "EMPTY_SET" then Some OEmptySet
      else if a =? "EMPTY_TUPLE" then Some OEmptyTuple else if a =? "APPEND" then Some OAppend
      else if a =? "APPENDS" then Some OAppends else if a =? "LIST" then Some OList
      else if a =? "TUPLE" then Some OTuple else if a =? "TUPLE1" then Some OTuple1
      else if a =? "TUPLE2" then Some OTuple2 else if a =? "TUPLE3" then Some OTuple3
      else if a =? "DICT" then Some ODict else if a =? "SETITEM" then Some OSetItem
      else if a =? "SETITEMS" then Some OSetItems else if a =? "ADDITEMS" then Some OAddItems
      else if a =? "FROZENSET" then Some OFrozenSet else if a =? "STACK_GLOBAL" then Some OStackGlobal
      else if a =? "OBJ" then Some OObj else if a =? "NEWOBJ" then Some ONewObj
      else if a =? "NEWOBJ_EX" then Some ONewObjEx else if a =? "REDUCE" then Some OReduce
      else if a =? "BUILD" then Some OBuild else if a =? "BINPERSID" then Some OBinPersId
      else if a =? "MEMOIZE" then Some OMemoize else if a =? "NOOP" then Some ONoop
      else if a =? "NORUN" then Some ONoRun
      else None
  | SList [Atom "CONST"; c] =>
      match const_of_sexp c with Some x => Some (OConst x) | None => None end
  | SList [Atom "GLOBAL"; Atom m; Atom n] =>
      match string_of_wire m, string_of_wire n with
      | Some x, Some y => Some (OGlobal x y) | _, _ => None end
  | SList [Atom "INST"; Atom m; Atom n] =>
      match string_of_wire m, string_of_wire n with
      | Some x, Some y => Some (OInst x y) | _, _ => None end
  | SList [Atom "PUT"; Atom k] =>
      match z_of_string k with Some z => Some (OPut z) | None => None end
  | SList [Atom "GET"; Atom k] =>
      match z_of_string k with Some z => Some (OGet z) | None => None end
  | _ => None
  end.

Fixpoint ops_of_sexps (l : list sexp) : option (list op) :=
  match l with
  | [] => Some []
  | x :: r => match op_of_sexp x, ops_of_sexps r with
              | Some o, Some t => Some (o :: t)
              | _, _ => None
              end
  end.

Definition show_const (c : const) : string :=
  match c with
  | CInt z => "(int " ++ z_to_string z ++ ")"
  | CStr s => "(str " ++ wire_of_string s ++ ")"
  | CBytes s => "(bytes " ++ wire_of_string s ++ ")"
  | CFloat s => "(float " ++ wire_of_string s ++ ")"
  | CBool b => "(bool " ++ show_bool b ++ ")"
  | CNone => "none"
  end.
