(* Wire commands of the hook-lifecycle model (C12). *)
From Coq Require Import List String Bool Arith.
From Verif Require Import Base Dispatch Allowlist Hooks.
Import ListNotations.
Open Scope string_scope.

Definition as_wire_string (s : sexp) : option string :=
  match s with Atom a => string_of_wire a | _ => None end.

Definition as_gname (s : sexp) : option gname :=
  match s with
  | SList [m; n] =>
      match as_wire_string m, as_wire_string n with
      | Some a, Some b => Some (a, b)
      | _, _ => None
      end
  | _ => None
  end.

Definition as_gnames (s : sexp) : option (list gname) :=
  match s with SList l => opt_map as_gname l | _ => None end.

Definition as_bool (s : sexp) : option bool :=
  match s with
  | Atom a => if a =? "T" then Some true else if a =? "F" then Some false else None
  | _ => None
  end.

Definition as_pickle (s : sexp) : option pickle :=
  match s with
  | SList [f; gs] =>
      match as_bool f, as_gnames gs with
      | Some b, Some l => Some (mkP b l)
      | _, _ => None
      end
  | _ => None
  end.

Definition as_entry (s : sexp) : option entry :=
  match s with
  | Atom a =>
      if a =? "pl" then Some PLoad else if a =? "pls" then Some PLoads
      else if a =? "cl" then Some CLoad else if a =? "cls" then Some CLoads
      else if a =? "unp" then Some PUnp else None
  | _ => None
  end.

Definition as_hop (s : sexp) : option hop :=
  match s with
  | Atom a =>
      if a =? "arm" then Some HArm else if a =? "rm" then Some HRemove
      else if a =? "enter" then Some HEnter else if a =? "leave" then Some HLeave
      else if a =? "leavex" then Some HLeaveExc else if a =? "mk" then Some HMake else None
  | SList [Atom a; x] =>
      if a =? "act" then match as_gnames x with Some l => Some (HActivate l) | None => None end
      else None
  | SList [Atom a; e; p] =>
      if a =? "probe" then
        match as_entry e, as_pickle p with
        | Some e', Some p' => Some (HProbe e' p')
        | _, _ => None
        end
      else None
  | _ => None
  end.

Definition handle_hooks (cmd : string) (args : list sexp) : option string :=
  if cmd =? "hooks" then
    match args with
    | [SList ps; SList ops] =>
        match opt_map as_pickle ps, opt_map as_hop ops with
        | Some pks, Some h => Some (join "|" (show_run h_init pks h))
        | _, _ => None
        end
    | _ => None
    end
  else None.
