(* Codec: model of the parse / re-serialise path of fickling (C06).

   - [genops] / [tokenize]: pickletools.genops AS FAR AS FICKLING DEPENDS ON IT: for every token
     its opcode (row of the regenerated OpTable), its start position and its total encoded
     length; stops after STOP; errors as values (unknown opcode byte, truncated argument,
     negative / over-large byte count, no STOP before the end of the data).  Argument CONTENT
     is not validated (int("abc"), bad escapes, utf-8 errors ...): the model accepts a superset.
   - [load_stream] / [load_model]: Pickled.load written out literally, including how each opcode
     gets its [data] (fixed-width arguments are read at once; everything else has data = None and
     is back-filled from bytes[prev.pos : pos] when the NEXT token arrives; the last opcode is
     never back-filled), Opcode.__new__ refusing opcodes without a class, the mapping of
     ValueError to EmptyPickleError / PickleDecodeError, first_pos, the final seek, and the three
     stream kinds of Pickled.make_stream.  A non-seekable input is parsed through fickle._RecordingReader
     ([load_loop_rec] / [load_stream_rec]): bytes are taken from the caller's stream only as genops asks
     for them, every seek()/read() of the loop body is answered from the bytes recorded so far, and the
     caller's stream ends up exactly behind the first pickle.
   - [dumps], [stacked_load] (StackedPickle.load).

   Executable definitions only -- the proofs are in proofs/CodecProofs.v. *)
From Coq Require Import List String Ascii ZArith NArith Bool Arith.
From Coq.Strings Require Import Byte.
From Verif Require Import Base OpTable.
Import ListNotations.
Local Open Scope nat_scope.

(* ---------- the regenerated opcode table ---------- *)
Definition oprow : Type := (N * (string * (Z * (string * (bool * bool)))))%type.
Definition row_code (r : oprow) : N := fst r.
Definition row_name (r : oprow) : string := fst (snd r).
Definition row_n (r : oprow) : Z := fst (snd (snd r)).                 (* info.arg.n; 0 when info.arg is None *)
Definition row_reader (r : oprow) : string := fst (snd (snd (snd r))). (* "none" when info.arg is None *)
Definition row_has_class (r : oprow) : bool := fst (snd (snd (snd (snd r)))).
Definition row_has_run (r : oprow) : bool := snd (snd (snd (snd (snd r)))).

Fixpoint find_code (c : N) (t : list oprow) : option oprow :=
  match t with
  | [] => None
  | r :: rest => if N.eqb (row_code r) c then Some r else find_code c rest
  end.

(* pickletools.code2op.get(code) *)
Definition lookup (b : byte) : option oprow := find_code (Byte.to_N b) op_table.

(* ---------- how many bytes each pickletools reader consumes ---------- *)
Inductive rkind :=
| RNone                            (* info.arg is None *)
| RFixed (n : nat)                 (* f.read(n), ValueError unless n bytes came back *)
| RLine                            (* f.readline(), ValueError unless it ends in \n *)
| RLine2                           (* two such lines (read_stringnl_noescape_pair) *)
| RPre (w : nat) (signed : bool).  (* w-byte little-endian count, then that many bytes *)

(* written from the reader functions of CPython 3.12 pickletools.py *)
Definition reader_kinds : list (string * rkind) :=
  [("none", RNone);
   ("read_uint1", RFixed 1); ("read_uint2", RFixed 2); ("read_int4", RFixed 4);
   ("read_uint4", RFixed 4); ("read_uint8", RFixed 8); ("read_float8", RFixed 8);
   ("read_stringnl", RLine); ("read_stringnl_noescape", RLine); ("read_unicodestringnl", RLine);
   ("read_decimalnl_short", RLine); ("read_decimalnl_long", RLine); ("read_floatnl", RLine);
   ("read_stringnl_noescape_pair", RLine2);
   ("read_string1", RPre 1 false); ("read_bytes1", RPre 1 false);
   ("read_unicodestring1", RPre 1 false); ("read_long1", RPre 1 false);
   ("read_string4", RPre 4 true); ("read_long4", RPre 4 true);
   ("read_bytes4", RPre 4 false); ("read_unicodestring4", RPre 4 false);
   ("read_bytes8", RPre 8 false); ("read_bytearray8", RPre 8 false);
   ("read_unicodestring8", RPre 8 false)].

Definition reader_kind (r : string) : option rkind := assoc_str r reader_kinds.

Definition maxsize : N := 9223372036854775807%N.   (* sys.maxsize *)

(* little-endian unsigned value *)
Fixpoint le_N (l : list byte) : N :=
  match l with
  | [] => 0%N
  | b :: r => (Byte.to_N b + 256 * le_N r)%N
  end.

(* length of the first line INCLUDING its newline; None when there is no newline *)
Fixpoint line_len (l : list byte) : option nat :=
  match l with
  | [] => None
  | b :: r => if Byte.eqb b x0a then Some 1
              else match line_len r with Some n => Some (S n) | None => None end
  end.

(* number of argument bytes the reader consumes from [args] (the bytes after the code byte) *)
Definition arg_len (k : rkind) (args : list byte) : res nat :=
  match k with
  | RNone => Ok 0
  | RFixed n => if Nat.eqb (List.length (firstn n args)) n then Ok n else Err EValue
  | RLine => match line_len args with Some n => Ok n | None => Err EValue end
  | RLine2 =>
      match line_len args with
      | Some n => match line_len (skipn n args) with
                  | Some m => Ok (n + m)
                  | None => Err EValue
                  end
      | None => Err EValue
      end
  | RPre w sg =>
      let hd := firstn w args in
      if negb (Nat.eqb (List.length hd) w) then Err EValue            (* count itself truncated *)
      else
        let n := le_N hd in
        if sg && N.leb (2 ^ (8 * N.of_nat w - 1)) n then Err EValue   (* signed count < 0 *)
        else if N.ltb maxsize n then Err EValue                       (* count > sys.maxsize *)
        else if N.ltb (N.of_nat (List.length (skipn w args))) n then Err EValue  (* payload truncated *)
        else Ok (w + N.to_nat n)
  end.

(* one iteration of genops: (opcode, total token length) of the token at the head of [rest] *)
Definition next_token (rest : list byte) : res (oprow * nat) :=
  match rest with
  | [] => Err EValue                       (* "pickle exhausted before seeing STOP" *)
  | c :: args =>
      match lookup c with
      | None => Err EValue                 (* "at position ..., opcode ... unknown" *)
      | Some row =>
          match reader_kind (row_reader row) with
          | None => Err EUnmodelled        (* a reader this model does not know: decline *)
          | Some k => match arg_len k args with
                      | Ok n => Ok (row, S n)
                      | Err e => Err e
                      end
          end
      end
  end.

Record token := mkTok { t_row : oprow; t_pos : nat; t_len : nat }.

Inductive tstatus :=
| TDone              (* STOP was delivered *)
| TErr (e : err).    (* genops raised after delivering the tokens so far *)

Definition stop_code : N := 46%N.   (* genops: `if code == b'.'` *)

(* the generator loop of genops: tokens delivered, then how it ended *)
Fixpoint genops (fuel : nat) (rest : list byte) (pos : nat) : list token * tstatus :=
  match fuel with
  | O => ([], TErr EFuel)
  | S f =>
      match next_token rest with
      | Err e => ([], TErr e)
      | Ok (row, len) =>
          let t := mkTok row pos len in
          if N.eqb (row_code row) stop_code then ([t], TDone)
          else let (ts, st) := genops f (skipn len rest) (len + pos) in (t :: ts, st)
      end
  end.

(* genops on a stream over buffer [buf] positioned at [start]; every token takes >= 1 byte, so
   [S (length rest)] iterations always suffice (CodecProofs.genops_no_fuel) *)
Definition genops_at (buf : list byte) (start : nat) : list token * tstatus :=
  let rest := skipn start buf in genops (S (List.length rest)) rest start.

Definition tokenize (bs : list byte) (pos : nat) : res (list token) :=
  match genops_at bs pos with
  | (ts, TDone) => Ok ts
  | (_, TErr e) => Err e
  end.

(* ---------- Pickled.load ---------- *)
Record opc := mkOpc { o_row : oprow; o_pos : nat; o_data : option (list byte) }.

(* stream.seek(p); stream.read(n) on a BytesIO-like stream over [buf] *)
Definition read_at (buf : list byte) (p n : nat) : list byte := firstn n (skipn p buf).

Definition argless (r : oprow) : bool :=        (* info.arg is None or info.arg.n == 0 *)
  String.eqb (row_reader r) "none" || Z.eqb (row_n r) 0.

(* the back-fill of opcodes[-1] when the next token (at [pos]) arrives; [acc] is newest-first *)
Definition backfill (buf : list byte) (acc : list opc) (pos : nat) : list opc :=
  match acc with
  | prev :: older =>
      match o_data prev with
      | None =>
          if Nat.ltb (o_pos prev) pos
          then mkOpc (o_row prev) (o_pos prev) (Some (read_at buf (o_pos prev) (pos - o_pos prev))) :: older
          else acc
      | Some _ => acc
      end
  | [] => acc
  end.

(* the `data` the new opcode is constructed with; Err = the short-read PickleDecodeError *)
Definition immediate_data (buf : list byte) (t : token) : res (option (list byte)) :=
  let r := t_row t in
  if argless r then Ok None
  else if Z.ltb 0 (row_n r) then
    let want := 1 + Z.to_nat (row_n r) in          (* len(info.code) + info.arg.n *)
    let d := read_at buf (t_pos t) want in
    if Nat.eqb (List.length d) want then Ok (Some d) else Err EValue
  else Ok None.

Inductive lerr :=
| LEmpty             (* EmptyPickleError *)
| LDecode            (* PickleDecodeError *)
| LNotImpl           (* NotImplementedError from Opcode.__new__ *)
| LOther (e : err).  (* the model declines (unknown reader) / fuel *)

Inductive lres (A : Type) :=
| LOk (a : A)
| LErr (e : lerr).
Arguments LOk {A} a.
Arguments LErr {A} e.

(* `except ValueError: if opcodes: raise PickleDecodeError else: raise EmptyPickleError` *)
Definition value_error (acc : list opc) : lerr :=
  match acc with [] => LEmpty | _ :: _ => LDecode end.

(* the body of `for info, arg, pos in genops(pickled)` folded over the delivered tokens, then the
   way genops ended.  [acc] = opcodes, newest first. *)
Fixpoint load_loop (buf : list byte) (ts : list token) (st : tstatus) (acc : list opc)
  : lres (list opc) :=
  match ts with
  | [] =>
      match st with
      | TDone => LOk acc
      | TErr EValue => LErr (value_error acc)
      | TErr e => LErr (LOther e)
      end
  | t :: more =>
      let acc1 := backfill buf acc (t_pos t) in
      match immediate_data buf t with
      | Err _ => LErr (value_error acc1)
      | Ok d =>
          if row_has_class (t_row t)
          then load_loop buf more st (mkOpc (t_row t) (t_pos t) d :: acc1)
          else LErr LNotImpl
      end
  end.

(* Pickled.load on a seekable stream over [buf] positioned at [start]:
   (opcodes oldest-first, position the stream is left at) *)
Definition load_stream (buf : list byte) (start : nat) : lres (list opc * nat) :=
  let first_pos := start in
  let (ts, st) := genops_at buf start in
  match load_loop buf ts st [] with
  | LErr e => LErr e
  | LOk acc =>
      match acc with
      | last :: _ =>
          let last_pos := match o_data last with
                          | Some d => List.length d + o_pos last
                          | None => 1 + o_pos last            (* len(info.code) *)
                          end in
          LOk (rev acc, last_pos)
      | [] => LOk ([], first_pos)
      end
  end.

(* ---------- Pickled.load through fickle._RecordingReader (non-seekable input) ----------
   [buf] = what the caller's stream still holds when the call is made; the reader's tell() counts from
   0.  genops only ever calls read(n) / readline() for the bytes of the token it is decoding (no
   look-ahead), so when the loop body runs for token [t] the reader has taken exactly the first
   [t_len t + t_pos t] bytes from the caller's stream: [seen].  The body's seek()s go back to positions
   <= that frontier and its read()s are answered from [seen] alone (a seek beyond it raises). *)
Definition recorded (buf : list byte) (t : token) : list byte := firstn (t_len t + t_pos t) buf.

Fixpoint load_loop_rec (buf : list byte) (ts : list token) (st : tstatus) (acc : list opc)
  : lres (list opc) :=
  match ts with
  | [] =>
      match st with
      | TDone => LOk acc
      | TErr EValue => LErr (value_error acc)
      | TErr e => LErr (LOther e)
      end
  | t :: more =>
      let seen := recorded buf t in
      let acc1 := backfill seen acc (t_pos t) in
      match immediate_data seen t with
      | Err _ => LErr (value_error acc1)
      | Ok d =>
          if row_has_class (t_row t)
          then load_loop_rec buf more st (mkOpc (t_row t) (t_pos t) d :: acc1)
          else LErr LNotImpl
      end
  end.

(* (opcodes, position of the reader = number of bytes taken from the caller's stream).  The final
   seek(last_pos) goes to the end of the STOP token, which is where the reader already is. *)
Definition load_stream_rec (buf : list byte) (start : nat) : lres (list opc * nat) :=
  let first_pos := start in
  let (ts, st) := genops_at buf start in
  match load_loop_rec buf ts st [] with
  | LErr e => LErr e
  | LOk acc =>
      match acc with
      | last :: _ =>
          let last_pos := match o_data last with
                          | Some d => List.length d + o_pos last
                          | None => 1 + o_pos last
                          end in
          LOk (rev acc, last_pos)
      | [] => LOk ([], first_pos)
      end
  end.

Inductive kind :=
| KBytes          (* bytes / bytearray: BytesIO(data), position 0 *)
| KSeekable       (* the caller's seekable stream, used as is, at its current offset *)
| KNonSeekable.   (* _RecordingReader(data): reads through to the caller's stream on demand *)

Record loaded := mkLoaded {
  l_ops : list opc;
  l_end : nat;              (* position of the stream fickling parsed (in that stream's coordinates) *)
  l_caller : option nat     (* position of the CALLER's stream afterwards; None for a bytes object *)
}.

Definition load_model (k : kind) (bs : list byte) (off : nat) : lres loaded :=
  match k with
  | KBytes =>
      match load_stream bs 0 with
      | LOk (ops, e) => LOk (mkLoaded ops e None)
      | LErr x => LErr x
      end
  | KSeekable =>
      match load_stream bs off with
      | LOk (ops, e) => LOk (mkLoaded ops e (Some e))
      | LErr x => LErr x
      end
  | KNonSeekable =>
      (* the caller's stream has handed out exactly the e bytes the reader took *)
      match load_stream_rec (skipn off bs) 0 with
      | LOk (ops, e) => LOk (mkLoaded ops e (Some (off + e)))
      | LErr x => LErr x
      end
  end.

(* what the caller can still read from its stream afterwards *)
Definition caller_rest (bs : list byte) (r : loaded) : option (list byte) :=
  match l_caller r with
  | Some p => Some (skipn p bs)
  | None => None
  end.

(* ---------- dumps ---------- *)
Definition code_byte (r : oprow) : byte :=
  match Byte.of_N (row_code r) with Some b => b | None => x00 end.

(* Opcode.encode() of an opcode that kept no source bytes.  Opcode.encode_body returns b"" for an
   argument-less opcode; for the others the subclasses re-encode from `arg`, which this model does
   not carry (C15's model does): declined.  Never reached after a successful load. *)
Definition encode (o : opc) : res (list byte) :=
  if argless (o_row o) then Ok [code_byte (o_row o)] else Err EUnmodelled.

(* the `data` property *)
Definition opc_data (o : opc) : res (list byte) :=
  match o_data o with
  | Some d => Ok d
  | None => encode o
  end.

Fixpoint dumps (ops : list opc) : res (list byte) :=
  match ops with
  | [] => Ok []
  | o :: r =>
      match opc_data o, dumps r with
      | Ok d, Ok t => Ok (d ++ t)%list
      | Err e, _ => Err e
      | _, Err e => Err e
      end
  end.

(* ---------- StackedPickle.load ---------- *)
Fixpoint stacked_loop (fuel : nat) (buf : list byte) (pos : nat) (acc : list (list opc))
  : lres (list (list opc) * nat) :=
  match fuel with
  | O => LErr (LOther EFuel)
  | S f =>
      match load_stream buf pos with
      | LErr LEmpty => LOk (rev acc, pos)                 (* except EmptyPickleError: break *)
      | LErr e => LErr e                                  (* anything else propagates *)
      | LOk (ops, e) =>
          match ops with
          | [] => LOk (rev acc, pos)                      (* if len(p) == 0: break *)
          | _ :: _ => stacked_loop f buf e (ops :: acc)
          end
      end
  end.

(* (pickles, end of the last accepted pickle) in the coordinates of the stream fickling parses;
   every successful load consumes >= 1 byte, so the fuel never runs out
   (CodecProofs.stacked_no_fuel) *)
Definition stacked_stream (buf : list byte) (start : nat) : lres (list (list opc) * nat) :=
  match stacked_loop (2 + (List.length buf - start)) buf start [] with
  | LOk ([], _) => LErr LEmpty                            (* "No pickle files detected" *)
  | r => r
  end.

(* StackedPickle.load wraps a non-seekable input ONCE (make_stream); the Pickled.load calls of its loop
   see a reader that answers seekable() with True and share it, so positions keep counting from the first
   pickle and every call starts at the reader's frontier: [stacked_stream] over what the caller's stream
   held (load_stream_rec = load_stream, CodecProofs.load_stream_rec_eq). *)
Definition stacked_load (k : kind) (bs : list byte) (off : nat) : lres (list (list opc) * nat) :=
  match k with
  | KBytes => stacked_stream bs 0
  | KSeekable => stacked_stream bs off
  | KNonSeekable => stacked_stream (skipn off bs) 0
  end.
