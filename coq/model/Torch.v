(* Model of fickling/pytorch.py: PyTorchModelWrapper.validate_file_format and
   inject_payload(payload, output_path, injection="insertion", overwrite=...).
   A zip file is its ordered list of (member name, member bytes); the container itself (compression,
   extra fields, alignment, timestamps) is not modelled.  The pickle-level injection
   (Pickled.load; insert_python_exec(payload); dumps) is the abstract function [inj]; the integrator
   instantiates it with the C08 injection model.  Executable definitions only. *)
From Coq Require Import List String Bool Arith.
From Verif Require Import Base Poly.
Import ListNotations.
Open Scope string_scope.

Definition member := (string * string)%type.       (* (name, bytes) *)
Definition archive := list member.

(* item.filename.endswith("/data.pkl") *)
Definition is_model (n : string) : bool := ends_with "/data.pkl" n.

(* number of members the rewrite loop treats as the model pickle *)
Definition count_model (a : archive) : nat :=
  List.length (filter (fun e => is_model (fst e)) a).
Definition unique_data_pkl (a : archive) : bool := Nat.eqb (count_model a) 1.

(* PyTorchModelWrapper.pickled: the FIRST member whose name ends with "/data.pkl" *)
Definition first_model (a : archive) : option string :=
  match find (fun e : member => is_model (fst e)) a with
  | Some e => Some (snd e)
  | None => None
  end.

Section Inject.
  Variable inj : string -> string.

  (* the rewrite loop (pytorch.py:140-147): every member whose name ends with "/data.pkl" receives
     pickled.dumps(), i.e. the injected pickle of the FIRST such member; everything else is copied *)
  Definition rewrite (a : archive) (injected : string) : archive :=
    map (fun e : member => if is_model (fst e) then (fst e, injected) else e) a.

  (* None = ValueError("data.pkl not found in the zip archive") *)
  Definition inject_insertion (a : archive) : option archive :=
    match first_model a with
    | None => None
    | Some b0 => Some (rewrite a (inj b0))
    end.
End Inject.

(* ---------- validate_file_format (pytorch.py:41-101) over the identified formats ---------- *)
Definition validate (formats : list string) (force : bool) : res unit :=
  do _ <- (match formats with
           | [] => if force then Ok tt else Err EValue
           | _ => Ok tt
           end);
  do _ <- (if negb (mem_str F_PT13 formats) && negb (mem_str F_TS14 formats) then
             if mem_str F_PKL formats then (if force then Ok tt else Err EValue)
             else (if force then Ok tt else Err ENotImpl)
           else Ok tt);
  match formats with
  | [] => Err EIndex                      (* self._formats[0] on an empty list (force=True) *)
  | _ :: _ => Ok tt
  end.

(* ---------- file level ---------- *)
Definition tfs := list (string * archive).

Fixpoint flookup (fs : tfs) (p : string) : option archive :=
  match fs with
  | [] => None
  | (q, a) :: r => if String.eqb q p then Some a else flookup r p
  end.

Fixpoint fremove (fs : tfs) (p : string) : tfs :=
  match fs with
  | [] => []
  | (q, a) :: r => if String.eqb q p then fremove r p else (q, a) :: fremove r p
  end.

Definition fwrite (fs : tfs) (p : string) (a : archive) : tfs := (p, a) :: fremove fs p.

Inductive t_outcome :=
| TDone
| TRaised (e : err).

Section InjectFile.
  Variable inj : string -> string.

  (* inject_payload(payload, out, injection="insertion", overwrite) on the wrapper of [path];
     [formats] is what identify_pytorch_file_format says about the file (C17) *)
  Definition inject_payload (fs : tfs) (path out : string) (formats : list string)
             (force overwrite : bool) : t_outcome * tfs :=
    match flookup fs path with
    | None => (TRaised EValue, fs)                         (* FileNotFoundError *)
    | Some a =>
        match validate formats force with
        | Err e => (TRaised e, fs)                         (* refused before anything is written *)
        | Ok _ =>
            match inject_insertion inj a with
            | None => (TRaised EValue, fs)
            | Some a' =>
                (* zipfile.ZipFile(output_path, "w") ... writestr for every member *)
                let fs1 := fwrite fs out a' in
                if overwrite then
                  (* Path(output_path).rename(self.path); then remove output_path if it still exists *)
                  let fs2 := fwrite (fremove fs1 out) path a' in
                  (TDone, fremove fs2 out)
                else (TDone, fs1)
            end
        end
    end.
End InjectFile.

(* ---------- text output for the correspondence ---------- *)
Definition member_eqb (x y : member) : bool := String.eqb (fst x) (fst y) && String.eqb (snd x) (snd y).

Fixpoint archive_eqb (a b : archive) : bool :=
  match a, b with
  | [], [] => true
  | x :: r, y :: t => member_eqb x y && archive_eqb r t
  | _, _ => false
  end.

(* members of the result relative to the input, position by position:
   "=" byte-identical to the input member at that position, otherwise the bytes in hex *)
Fixpoint show_members (orig res : archive) : string :=
  match res with
  | [] => ""
  | (n, b) :: t =>
      let same := match orig with
                  | (n0, b0) :: _ => String.eqb n n0 && String.eqb b b0
                  | [] => false
                  end in
      " (" ++ wire_of_string n ++ " " ++ (if same then "=" else wire_of_string b) ++ ")"
      ++ show_members (match orig with [] => [] | _ :: r => r end) t
  end.

Definition show_archive (orig res : archive) : string := "(" ++ show_members orig res ++ ")".

Definition show_toutcome (o : t_outcome) : string :=
  match o with
  | TDone => "done"
  | TRaised e => "raised " ++ err_name e
  end.

(* each path afterwards: "same" as before at that path, "injected", or "other" *)
Definition show_tfs (before : tfs) (injected : option archive) (after : tfs) : string :=
  "(" ++ String.concat " "
    (map (fun e : string * archive =>
            "(" ++ wire_of_string (fst e) ++ " " ++
            (match flookup before (fst e) with
             | Some a0 => if archive_eqb a0 (snd e) then "same"
                          else match injected with
                               | Some a' => if archive_eqb a' (snd e) then "injected" else "other"
                               | None => "other"
                               end
             | None => match injected with
                       | Some a' => if archive_eqb a' (snd e) then "injected" else "other"
                       | None => "other"
                       end
             end) ++ ")") after) ++ ")".
