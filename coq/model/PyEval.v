(* C05 layer B: a mini-Python evaluator for exactly the statement / expression subset that
   fickling's interpreter (Interp.v) emits, run against the same inert-stub world as the reference
   VM (RefVM.v): imports bind stand-in globals, every other name is an implicit builtin stand-in,
   calling a stand-in logs EvCall and returns a fresh opaque object, x.__setstate__(s) logs
   EvSetState, x[k] = v on a stand-in logs EvSetItem,
   UNPICKLER.persistent_load(pid) logs EvPersLoad.

   A mutable node (ast.List / ast.Set / ast.Dict object of fickling) is PRINTED by ast.unparse as a
   list / set / dict DISPLAY of its FINAL contents wherever it is referenced; evaluating a display
   allocates a fresh object every time.  Hence the evaluator takes the final node table [ns].

   Values, heap objects and events are RefVM's, so results are directly comparable.
   Definitions only; the fuel bounds the nesting depth of the expression being evaluated
   (Err EFuel when exhausted: cyclic node graphs have no finite print-out). *)
From Coq Require Import List String Ascii ZArith Bool Arith.
From Verif Require Import Base Ops Interp RefVM.
Import ListNotations.
Open Scope string_scope.

(* ---------- observational equality of (value, heap) pairs ---------- *)

(* all spellings of the builtins module denote the same module *)
Definition gnorm (m : string) : string := if is_builtins m then "builtins" else m.

Fixpoint forallb2 {A B} (f : A -> B -> bool) (l : list A) (l' : list B) : bool :=
  match l, l' with
  | [], [] => true
  | a :: r, b :: r' => f a b && forallb2 f r r'
  | _, _ => false
  end.

(* [same_shape n h1 h2 a b]: value a in heap h1 and value b in heap h2 unfold to the SAME finite
   tree of depth < n.  Heap addresses are ignored (VRef i vs VRef j: same container kind and,
   recursively, same contents -- sets and dicts by their insertion histories, which determine the
   Python set / dict); opaque objects are compared by creation index, stand-in globals by
   (module up to the spelling of builtins, name).  A cyclic value has no finite unfolding, so
   [same_shape n h h v v = true] is also the statement "v is acyclic, of depth < n". *)
Fixpoint same_shape (n : nat) (h1 h2 : list hobj) (a b : val) : bool :=
  match n with
  | O => false
  | S k =>
      let go := same_shape k h1 h2 in
      match a, b with
      | VConst c, VConst c' => const_eqb c c'
      | VGlobal m1 n1, VGlobal m2 n2 => String.eqb (gnorm m1) (gnorm m2) && String.eqb n1 n2
      | VTuple l, VTuple l' => forallb2 go l l'
      | VFrozen l, VFrozen l' => forallb2 go l l'
      | VObj x, VObj y => Nat.eqb x y
      | VRef i, VRef j =>
          match nth_error h1 i, nth_error h2 j with
          | Some (HList l), Some (HList l') => forallb2 go l l'
          | Some (HSet l), Some (HSet l') => forallb2 go l l'
          | Some (HDict kvs), Some (HDict kvs') =>
              forallb2 (fun p q => go (fst p) (fst q) && go (snd p) (snd q)) kvs kvs'
          | _, _ => false
          end
      | _, _ => false
      end
  end.

Definition same_opt (n : nat) (h1 h2 : list hobj) (a b : option val) : bool :=
  match a, b with
  | None, None => true
  | Some x, Some y => same_shape n h1 h2 x y
  | _, _ => false
  end.

(* events: same kind, same callee / arguments / state up to same_shape, results numbered alike *)
Definition same_event (n : nat) (h1 h2 : list hobj) (a b : event) : bool :=
  let go := same_shape n h1 h2 in
  match a, b with
  | EvResolve m1 n1, EvResolve m2 n2 => String.eqb m1 m2 && String.eqb n1 n2
  | EvCall f args kw k, EvCall f' args' kw' k' =>
      go f f' && forallb2 go args args' && same_opt n h1 h2 kw kw' && Nat.eqb k k'
  | EvPersLoad p k, EvPersLoad p' k' => go p p' && Nat.eqb k k'
  | EvSetState o s, EvSetState o' s' => go o o' && go s s'
  | EvSetItem o k v, EvSetItem o' k' v' => go o o' && go k k' && go v v'
  | _, _ => false
  end.

(* the decompiled program never imports a builtins global: those resolve implicitly *)
Definition visible_event (e : event) : bool :=
  match e with
  | EvResolve m _ => negb (is_builtins m)
  | _ => true
  end.

(* ---------- evaluator state ---------- *)
Record pst := mkPst {
  pimports : list (string * string);   (* imported name -> module, newest first *)
  pvars : list (nat * val);            (* _var<i> bindings, newest first *)
  pheap : list hobj;
  plog : list event;                   (* newest first *)
  pnobj : nat;
  presult : option val
}.

Definition pst_init : pst := mkPst [] [] [] [] 0 None.

Fixpoint lookup_var (i : nat) (l : list (nat * val)) : option val :=
  match l with
  | [] => None
  | (j, v) :: r => if Nat.eqb i j then Some v else lookup_var i r
  end.

(* in the inert-stub world EVERY unbound name is an implicit builtin stand-in -- also a _var<i> that
   is used before its assignment (finding D15) *)
Definition var_value (i : nat) (l : list (nat * val)) : val :=
  match lookup_var i l with
  | Some v => v
  | None => VGlobal "builtins" (var_name i)
  end.

(* a name is the imported stand-in if imported, the implicit builtin stand-in otherwise *)
Definition lookup_name (n : string) (imps : list (string * string)) : val :=
  match assoc_str n imps with
  | Some m => VGlobal m n
  | None => VGlobal "builtins" n
  end.

Definition with_heap (s : pst) (h : list hobj) : pst :=
  mkPst (pimports s) (pvars s) h (plog s) (pnobj s) (presult s).
Definition plog_add (e : event) (s : pst) : pst :=
  mkPst (pimports s) (pvars s) (pheap s) (e :: plog s) (pnobj s) (presult s).
Definition pfresh (s : pst) : nat * pst :=
  (pnobj s, mkPst (pimports s) (pvars s) (pheap s) (plog s) (S (pnobj s)) (presult s)).
Definition pbind (i : nat) (v : val) (s : pst) : pst :=
  mkPst (pimports s) ((i, v) :: pvars s) (pheap s) (plog s) (pnobj s) (presult s).

(* ---------- expressions: pure except for allocation ---------- *)
Definition alloc_obj (o : hobj) (hp : list hobj) : val * list hobj :=
  (VRef (List.length hp), (hp ++ [o])%list).

Definition mk_list (vs : list val) (hp : list hobj) : res (val * list hobj) :=
  Ok (alloc_obj (HList vs) hp).
Definition mk_set (vs : list val) (hp : list hobj) : res (val * list hobj) :=
  if forallb hashable vs then Ok (alloc_obj (HSet vs) hp) else Err EType.
Definition mk_dict (kvs : list (val * val)) (hp : list hobj) : res (val * list hobj) :=
  if forallb (fun kv => hashable (fst kv)) kvs then Ok (alloc_obj (HDict kvs) hp) else Err EType.

(* frozenset({...}): the one call fickling nests inside expressions (opcode FROZENSET) *)
Definition frozenset_arg (e : expr) : option (list expr) :=
  match e with
  | ECall (EName s) [ESetLit l] None => if s =? "frozenset" then Some l else None
  | _ => None
  end.

Section Eval.
Variable ns : list node.                   (* FINAL node table of the decompilation *)
Variable imps : list (string * string).
Variable vars : list (nat * val).

Definition evaluator := expr -> list hobj -> res (val * list hobj).

(* left to right *)
Fixpoint eval_seq (ev : evaluator) (l : list expr) (hp : list hobj) : res (list val * list hobj) :=
  match l with
  | [] => Ok ([], hp)
  | e :: r => do '(v, hp1) <- ev e hp; do '(vs, hp2) <- eval_seq ev r hp1; Ok (v :: vs, hp2)
  end.

(* dict display: key, then value, pair by pair *)
Fixpoint eval_pairs (ev : evaluator) (l : list (expr * expr)) (hp : list hobj)
  : res (list (val * val) * list hobj) :=
  match l with
  | [] => Ok ([], hp)
  | (k, x) :: r =>
      do '(kv, hp1) <- ev k hp; do '(xv, hp2) <- ev x hp1;
      do '(t, hp3) <- eval_pairs ev r hp2; Ok ((kv, xv) :: t, hp3)
  end.

Fixpoint eval (fuel : nat) (e : expr) (hp : list hobj) : res (val * list hobj) :=
  match fuel with
  | O => Err EFuel
  | S n =>
      let go := eval n in
      match e with
      | EConst c => Ok (VConst c, hp)
      | EName s => Ok (lookup_name s imps, hp)
      | EVar i => Ok (var_value i vars, hp)
      | ETuple l => do '(vs, hp1) <- eval_seq go l hp; Ok (VTuple vs, hp1)
      | ENode i =>
          match nth_error ns i with
          | Some (NList l) => do '(vs, hp1) <- eval_seq go l hp; mk_list vs hp1
          | Some (NSet l) => do '(vs, hp1) <- eval_seq go l hp; mk_set vs hp1
          | Some (NDict kvs) => do '(ps, hp1) <- eval_pairs go kvs hp; mk_dict ps hp1
          | None => Err EUnmodelled
          end
      | ESetLit l => do '(vs, hp1) <- eval_seq go l hp; mk_set vs hp1
      | EDictLit kvs => do '(ps, hp1) <- eval_pairs go kvs hp; mk_dict ps hp1
      | ECall _ _ _ =>
          match frozenset_arg e with
          | Some l =>
              do '(vs, hp1) <- eval_seq go l hp;
              if forallb hashable vs then Ok (VFrozen vs, hp1) else Err EType
          | None => Err EUnmodelled      (* every other call is bound to a variable by fickling *)
          end
      | EStarred _ => Err EUnmodelled
      | EAttr _ _ => Err EUnmodelled
      end
  end.

(* call arguments, with *x spliced *)
Fixpoint eval_args (fuel : nat) (l : list expr) (hp : list hobj) : res (list val * list hobj) :=
  match l with
  | [] => Ok ([], hp)
  | EStarred x :: r =>
      do '(v, hp1) <- eval fuel x hp;
      do items <- match v with
                  | VTuple t => Ok t
                  | VRef i => match nth_error hp1 i with
                              | Some (HList t) => Ok t
                              | _ => Err EUnmodelled
                              end
                  | _ => Err EUnmodelled
                  end;
      do '(vs, hp2) <- eval_args fuel r hp1; Ok ((items ++ vs)%list, hp2)
  | e :: r =>
      do '(v, hp1) <- eval fuel e hp; do '(vs, hp2) <- eval_args fuel r hp1; Ok (v :: vs, hp2)
  end.

End Eval.

(* ---------- statements ---------- *)
Definition peval (ns : list node) (fuel : nat) (e : expr) (s : pst) : res (val * pst) :=
  do '(v, hp) <- eval ns (pimports s) (pvars s) fuel e (pheap s); Ok (v, with_heap s hp).

Definition imported (n : string) (s : pst) : bool :=
  match assoc_str n (pimports s) with Some _ => true | None => false end.

Definition is_pers_load (f : expr) : bool :=
  match f with
  | EAttr (EName u) a => (u =? "UNPICKLER") && (a =? "persistent_load")
  | _ => false
  end.

(* a call statement: f(args, **kw) *)
Definition exec_call (ns : list node) (fuel : nat) (f : expr) (args : list expr) (kw : option expr)
           (s : pst) : res (val * pst) :=
  if is_pers_load f then
    if imported "UNPICKLER" s then Err EType      (* a stand-in has no persistent_load attribute *)
    else match args, kw with
         | [pid], None =>
             do '(p, s1) <- peval ns fuel pid s;
             let '(k, s2) := pfresh s1 in Ok (VObj k, plog_add (EvPersLoad p k) s2)
         | _, _ => Err EUnmodelled
         end
  else
  match f with
  | EAttr x a =>
      do '(o, s1) <- peval ns fuel x s;
      if negb (callable o) then Err EUnmodelled
      else if a =? "__setstate__" then
        match args, kw with
        | [st], None =>
            do '(sv, s2) <- peval ns fuel st s1; Ok (VConst CNone, plog_add (EvSetState o sv) s2)
        | _, _ => Err EUnmodelled
        end
      else Err EUnmodelled
  | _ =>
      do '(fv, s1) <- peval ns fuel f s;
      if negb (callable fv) then Err EType else
      do '(avs, hp2) <- eval_args ns (pimports s1) (pvars s1) fuel args (pheap s1);
      let s2 := with_heap s1 hp2 in
      do '(kwv, s3) <- match kw with
                       | None => Ok (None, s2)
                       | Some k =>
                           do '(d, s3) <- peval ns fuel k s2;
                           match d with
                           | VRef i => match nth_error (pheap s3) i with
                                       | Some (HDict _) => Ok (Some d, s3)
                                       | _ => Err EType
                                       end
                           | _ => Err EType
                           end
                       end;
      let '(k, s4) := pfresh s3 in Ok (VObj k, plog_add (EvCall fv avs kwv k) s4)
  end.

Fixpoint prefix_str (p s : string) : bool :=
  match p, s with
  | EmptyString, _ => true
  | String a p', String b s' => Ascii.eqb a b && prefix_str p' s'
  | _, _ => false
  end.

Definition exec_stmt (ns : list node) (fuel : nat) (st : stmt) (s : pst) : res pst :=
  match st with
  | SImport m n =>
      (* `from m import _var0` would collide with fickling's own variables: outside the model *)
      if prefix_str "_var" n then Err EUnmodelled
      else Ok (mkPst ((n, m) :: pimports s) (pvars s) (pheap s) (EvResolve m n :: plog s) (pnobj s)
                     (presult s))
  | SAssignV i e =>
      do '(v, s1) <- match e with
                     | ECall f args kw => exec_call ns fuel f args kw s
                     | _ => peval ns fuel e s
                     end;
      Ok (pbind i v s1)
  | SResult e =>
      do '(v, s1) <- peval ns fuel e s;
      Ok (mkPst (pimports s1) (pvars s1) (pheap s1) (plog s1) (pnobj s1) (Some v))
  | SExpr e =>
      match e with
      | ECall f args kw =>
          match frozenset_arg e with
          | Some _ => do '(_, s1) <- peval ns fuel e s; Ok s1
          | None => do '(_, s1) <- exec_call ns fuel f args kw s; Ok s1
          end
      | _ => do '(_, s1) <- peval ns fuel e s; Ok s1
      end
  | SSetItemV i k e =>
      (* Python evaluates the right-hand side, then the target object, then the index *)
      do '(v, s1) <- peval ns fuel e s;
      let o := var_value i (pvars s1) in
      if negb (callable o) then Err EUnmodelled else
      do '(kv, s2) <- peval ns fuel k s1; Ok (plog_add (EvSetItem o kv v) s2)
  end.

Fixpoint exec_module (ns : list node) (fuel : nat) (l : list stmt) (s : pst) : res pst :=
  match l with
  | [] => Ok s
  | st :: r => do s1 <- exec_stmt ns fuel st s; exec_module ns fuel r s1
  end.

(* the decompiled program of a finished interpreter state, and of an opcode program *)
Definition py_eval_fk (fuel : nat) (f : fk) : res pst :=
  exec_module (nodes f) fuel (rev (body f)) pst_init.
Definition py_run (fuel : nat) (p : list op) : res pst :=
  do f <- run p; py_eval_fk fuel f.

(* ---------- the call-free data fragment ---------- *)
Definition data_op (o : op) : bool :=
  match o with
  | OConst _ | OMark | OStop | OPop | OPopMark | ODup
  | OEmptyList | OEmptyDict | OEmptySet | OEmptyTuple
  | OAppend | OAppends | OList | OTuple | OTuple1 | OTuple2 | OTuple3
  | ODict | OSetItem | OSetItems | OAddItems | OFrozenSet
  | OPut _ | OGet _ | OMemoize | ONoop => true
  | _ => false
  end.

(* a well-formed VM value: every frozenset holds hashable elements, and every stand-in leaf
   (global / opaque object) satisfies [P].  VRef is a leaf here: heap objects are checked one by one *)
Fixpoint wfv (P : val -> bool) (v : val) : bool :=
  match v with
  | VConst _ => true
  | VGlobal _ _ => P v
  | VObj _ => P v
  | VRef _ => true
  | VTuple l => forallb (wfv P) l
  | VFrozen l => forallb hashable l && forallb (wfv P) l
  end.

Definition obj_wf (P : val -> bool) (o : hobj) : bool :=
  match o with
  | HList l => forallb (wfv P) l
  | HSet l => forallb hashable l && forallb (wfv P) l
  | HDict kvs => forallb (fun kv => hashable (fst kv) && (wfv P (fst kv) && wfv P (snd kv))) kvs
  end.

Definition event_wf (P : val -> bool) (e : event) : bool :=
  match e with
  | EvResolve _ _ => true
  | EvCall f args kw _ =>
      callable f && wfv P f && forallb (wfv P) args &&
      match kw with Some k => wfv P k | None => true end
  | EvPersLoad p _ => wfv P p
  | EvSetState o s => wfv P o && wfv P s
  | EvSetItem o k v => wfv P o && (wfv P k && wfv P v)
  end.

Definition vm_wf (P : val -> bool) (s : vm) : bool :=
  forallb (wfv P) (cur s) && forallb (forallb (wfv P)) (meta s) &&
  forallb (fun kv => wfv P (snd kv)) (vmemo s) && forallb (obj_wf P) (heap s) &&
  forallb (event_wf P) (log s) &&
  match vstopped s with Some v => wfv P v | None => true end.

Definition no_standin (v : val) : bool := false.     (* plain data: no stand-in at all *)
Definition any_standin (v : val) : bool := true.

(* stand-in leaves: equal up to the spelling of the builtins module *)
Definition leaf_same (a b : val) : bool :=
  match a, b with
  | VGlobal m1 n1, VGlobal m2 n2 => String.eqb (gnorm m1) (gnorm m2) && String.eqb n1 n2
  | VObj x, VObj y => Nat.eqb x y
  | _, _ => false
  end.

(* ---------- syntactic side conditions on the decompiled program ---------- *)
(* [fits n ns bound okname e]: e prints (through the final nodes) within nesting depth n and mentions
   only variables _var<i> with i < bound and only names accepted by [okname] *)
Fixpoint fits (n : nat) (ns : list node) (bound : nat) (okname : string -> bool) (e : expr) : bool :=
  match n with
  | O => false
  | S k =>
      let go := fits k ns bound okname in
      let gop := fun kv : expr * expr => go (fst kv) && go (snd kv) in
      match e with
      | EConst _ => true
      | EName s => okname s
      | EVar i => Nat.ltb i bound
      | ETuple l => forallb go l
      | ENode i => match nth_error ns i with
                   | Some (NList l) | Some (NSet l) => forallb go l
                   | Some (NDict kvs) => forallb gop kvs
                   | None => false
                   end
      | ECall f args kw =>
          match frozenset_arg e with
          | Some l => forallb go l
          | None => go f && forallb go args && match kw with Some x => go x | None => true end
          end
      | EStarred x => go x
      | EAttr x _ => go x
      | ESetLit l => forallb go l
      | EDictLit kvs => forallb gop kvs
      end
  end.

(* ---------- side conditions of the call fragment (C05_eval_agrees) ---------- *)
Fixpoint nassign (b : list stmt) : nat :=
  match b with
  | [] => 0
  | SAssignV _ _ :: r => S (nassign r)
  | _ :: r => nassign r
  end.

Fixpoint imports_of_body (b : list stmt) : list (string * string) :=   (* name -> module, newest first *)
  match b with
  | [] => []
  | SImport m n :: r => (n, m) :: imports_of_body r
  | _ :: r => imports_of_body r
  end.

(* a name may be used where it is already imported, or if it is never imported (a builtin) *)
Definition okname_at (all : list string) (imps : list (string * string)) (s : string) : bool :=
  mem_str s (map fst imps) || negb (mem_str s all).

(* one statement, given the number of variables and the imports defined BEFORE it: every expression
   in it prints within depth n and uses only earlier variables / imports.  false on statement forms
   fickling never emits (an expression statement other than x.__setstate__(s)). *)
Definition stmt_fits (n : nat) (ns : list node) (bound : nat) (all : list string)
           (imps : list (string * string)) (st : stmt) : bool :=
  let ft := fits n ns bound (okname_at all imps) in
  match st with
  | SImport _ nm => negb (prefix_str "_var" nm)
  | SAssignV _ (ECall f args kw) =>
      if is_pers_load f then
        match args, kw with
        | [pid], None => ft pid && negb (mem_str "UNPICKLER" (map fst imps))
        | _, _ => false
        end
      else ft f && forallb ft args && match kw with Some k => ft k | None => true end
  | SAssignV _ e => ft e       (* alias of a stand-in: BUILD / SETITEM(S) target *)
  | SResult e => ft e
  | SExpr (ECall (EAttr (EVar i) a) [st] None) => (a =? "__setstate__") && Nat.ltb i bound && ft st
  | SExpr _ => false
  | SSetItemV i k e => Nat.ltb i bound && ft k && ft e
  end.

(* [body_fits n ns all b] (b newest first): every statement prints within depth n and uses only
   variables assigned and names imported by EARLIER statements (or never-imported builtin names):
   the observable core of "no mutation after capture" (finding D15) *)
Fixpoint body_fits (n : nat) (ns : list node) (all : list string) (b : list stmt) : bool :=
  match b with
  | [] => true
  | st :: r => stmt_fits n ns (nassign r) all (imports_of_body r) st && body_fits n ns all r
  end.

Definition is_result (st : stmt) : bool := match st with SResult _ => true | _ => false end.

Definition defined_before_use (n : nat) (f : fk) : bool :=
  body_fits n (nodes f) (map fst (imports_of_body (body f))) (body f) &&
  match body f with
  | SResult _ :: r => negb (existsb is_result r)
  | _ => false
  end.

(* finding D14: two resolved globals with the same attribute name come from the same module *)
Fixpoint resolves (l : list event) : list (string * string) :=
  match l with
  | [] => []
  | EvResolve m n :: r => (m, n) :: resolves r
  | _ :: r => resolves r
  end.
Definition distinct_attr_names (l : list event) : bool :=
  let rs := resolves l in
  forallb (fun a => forallb (fun b => negb (snd a =? snd b) || (gnorm (fst a) =? gnorm (fst b))) rs) rs.

(* leaf predicate: opaque objects, and globals resolved in log L *)
Definition resolved_in (L : list event) (v : val) : bool :=
  match v with
  | VGlobal m n => existsb (fun p => (fst p =? m) && (snd p =? n)) (resolves L)
  | _ => true
  end.
