(* Cache: the fickling.fickle.Pickled object as a state machine (C13, C14).

   Part 1 (Section Machine) is generic: an opcode list plus the two memoised derived views
   (`_ast`, `_properties`), the read-only queries that fill them, the three primitive mutators
   (insert / __setitem__ / __delitem__, with CPython list index semantics) that reset them, and the
   collections.abc.MutableSequence mix-ins written through those primitives exactly as abc does.
   It is parametric in the interpreter (`Interpreter.interpret`), the visitor (`ASTProperties`),
   the answer functions and the opcode encoding, so the theorems of proofs/CacheProofs.v hold for
   EVERY interpreter / analysis, not just the modelled ones.

   Part 2 instantiates the machine with the existing executable models (Interp.run, Unparse,
   Analysis) for the correspondence with the real object, and threads the iteration order of the
   Python set `defined - used` in Interpreter.unused_assignments through the analyses as a
   parameter [pi] (an arbitrary permutation: the stand-in for PYTHONHASHSEED).

   `Pickled.properties` is modelled as REPAIRED by notes/fix_properties_cache.patch (the cache is
   only filled by a visit that completed).  The behaviour of the unrepaired tree -- an empty
   ASTProperties is cached before the decompilation that may raise -- is [get_props_unrepaired];
   props/C13.v and props/C14.v carry its refutation witnesses.

   Executable definitions only; no proofs in model/. *)
From Coq Require Import List String Ascii ZArith Bool Arith.
From Verif Require Import Base Ops Interp Unparse Severity Analysis AnalysisTable ShowVM.
Import ListNotations.
Local Open Scope nat_scope.
Local Open Scope list_scope.

(* ------------------------------------------------------------------------------------------ *)
(* CPython list index arithmetic                                                               *)
(* ------------------------------------------------------------------------------------------ *)
(* l[i], l[i] = x, del l[i]: a negative index counts from the end; out of range is IndexError *)
Definition py_index (n : nat) (i : Z) : option nat :=
  let j := if (i <? 0)%Z then (i + Z.of_nat n)%Z else i in
  if (j <? 0)%Z then None
  else if (j <? Z.of_nat n)%Z then Some (Z.to_nat j) else None.

(* list.insert(i, x) and slice bounds: negative counts from the end, then clamped to [0, n] *)
Definition py_clamp (n : nat) (i : Z) : nat :=
  let j := if (i <? 0)%Z then (i + Z.of_nat n)%Z else i in
  if (j <? 0)%Z then 0
  else if (Z.of_nat n <? j)%Z then n else Z.to_nat j.

(* l[lo:hi] with step 1 (PySlice_AdjustIndices, then list_ass_slice's `if ihigh < ilow`) *)
Definition py_slice (n : nat) (lo hi : option Z) : nat * nat :=
  let a := match lo with None => 0 | Some i => py_clamp n i end in
  let b := match hi with None => n | Some i => py_clamp n i end in
  (a, Nat.max a b).

Definition list_insert {X} (k : nat) (x : X) (l : list X) : list X := firstn k l ++ x :: skipn k l.
Definition list_set {X} (k : nat) (x : X) (l : list X) : list X := firstn k l ++ x :: skipn (S k) l.
Definition list_del {X} (k : nat) (l : list X) : list X := firstn k l ++ skipn (S k) l.
Definition list_splice {X} (a b : nat) (xs l : list X) : list X := firstn a l ++ xs ++ skipn b l.

Fixpoint index_where {X} (f : X -> bool) (l : list X) : option nat :=
  match l with
  | [] => None
  | y :: r => if f y then Some 0
              else match index_where f r with Some k => Some (S k) | None => None end
  end.

(* ------------------------------------------------------------------------------------------ *)
(* Part 1: the generic machine                                                                 *)
(* ------------------------------------------------------------------------------------------ *)
Set Implicit Arguments.
Section Machine.
Variables X A P R B VA VP VF : Type.
Variable interpret : list X -> res A.        (* Interpreter.interpret(pickled): may raise *)
Variable props_of : A -> res P.              (* ASTProperties().visit(ast): may raise (recursion) *)
Variable ast_view : VA -> A -> R.            (* answers read off `pickled.ast` (unparse, dump) *)
Variable props_view : VP -> P -> R.          (* has_import, has_call, unsafe_imports() ... *)
Variable safety_view : list X -> P -> R.     (* check_safety: the opcodes, .properties, and a FRESH
                                                Interpreter built inside UnusedVariables *)
Variable fresh_view : VF -> list X -> R.     (* answers computed from the opcode sequence alone:
                                                Trace(Interpreter(p)).run(), len, dumps *)
Variable err_ans : err -> R.                 (* the query raised *)
Variable data : X -> res (list B).           (* Opcode.data: kept source bytes or encode() *)
Variable x_eqb : X -> X -> bool.             (* `v is value or v == value` (Opcode has no __eq__) *)

Record pk := mkPk {
  opcodes : list X;              (* self._opcodes *)
  ast_cache : option A;          (* self._ast *)
  props_cache : option P         (* self._properties *)
}.

(* Pickled(opcodes) *)
Definition fresh (l : list X) : pk := mkPk l None None.

(* the `ast` property *)
Definition get_ast (s : pk) : res A * pk :=
  match ast_cache s with
  | Some a => (Ok a, s)
  | None =>
      match interpret (opcodes s) with
      | Ok a => (Ok a, mkPk (opcodes s) (Some a) (props_cache s))
      | Err e => (Err e, s)                          (* the assignment never happens *)
      end
  end.

(* the `properties` property (repaired: only a completed visit is cached) *)
Definition get_props (s : pk) : res P * pk :=
  match props_cache s with
  | Some p => (Ok p, s)
  | None =>
      let (ra, s1) := get_ast s in
      match ra with
      | Err e => (Err e, s1)
      | Ok a =>
          match props_of a with
          | Ok p => (Ok p, mkPk (opcodes s1) (ast_cache s1) (Some p))
          | Err e => (Err e, s1)
          end
      end
  end.

(* ... and as the unrepaired tree has it: `self._properties = ASTProperties()` is assigned BEFORE
   `self._properties.visit(self.ast)`, so a raising decompilation leaves the empty object cached *)
Definition get_props_unrepaired (empty : P) (s : pk) : res P * pk :=
  match props_cache s with
  | Some p => (Ok p, s)
  | None =>
      let (ra, s1) := get_ast s in
      match ra with
      | Err e => (Err e, mkPk (opcodes s1) (ast_cache s1) (Some empty))
      | Ok a =>
          match props_of a with
          | Ok p => (Ok p, mkPk (opcodes s1) (ast_cache s1) (Some p))
          | Err e => (Err e, mkPk (opcodes s1) (ast_cache s1) (Some empty))
          end
      end
  end.

Inductive query :=
| QAst (v : VA)
| QProps (v : VP)
| QSafety
| QFresh (v : VF).

Definition run_query (q : query) (s : pk) : R * pk :=
  match q with
  | QAst v =>
      let (ra, s1) := get_ast s in
      (match ra with Ok a => ast_view v a | Err e => err_ans e end, s1)
  | QProps v =>
      let (rp, s1) := get_props s in
      (match rp with Ok p => props_view v p | Err e => err_ans e end, s1)
  | QSafety =>
      let (rp, s1) := get_props s in
      (match rp with Ok p => safety_view (opcodes s) p | Err e => err_ans e end, s1)
  | QFresh v => (fresh_view v (opcodes s), s)
  end.

Fixpoint run_queries (qs : list query) (s : pk) : pk :=
  match qs with
  | [] => s
  | q :: r => run_queries r (snd (run_query q s))
  end.

(* the answer as a function of the opcode list alone *)
Definition spec_props (l : list X) : res P :=
  match interpret l with Ok a => props_of a | Err e => Err e end.

Definition spec_answer (q : query) (l : list X) : R :=
  match q with
  | QAst v => match interpret l with Ok a => ast_view v a | Err e => err_ans e end
  | QProps v => match spec_props l with Ok p => props_view v p | Err e => err_ans e end
  | QSafety => match spec_props l with Ok p => safety_view l p | Err e => err_ans e end
  | QFresh v => fresh_view v l
  end.

(* ---- dumps(): `b = bytearray(); for opcode in self: b.extend(opcode.data)` ---- *)
Fixpoint dumps_loop (l : list X) (acc : list B) : res (list B) :=
  match l with
  | [] => Ok acc
  | x :: r => match data x with
              | Ok d => dumps_loop r (acc ++ d)
              | Err e => Err e
              end
  end.
Definition dumps (s : pk) : res (list B) := dumps_loop (opcodes s) [].

(* the specification: every opcode's encoding, in order (first failure wins), concatenated *)
Fixpoint all_data (l : list X) : res (list (list B)) :=
  match l with
  | [] => Ok []
  | x :: r => match data x with
              | Ok d => match all_data r with Ok ds => Ok (d :: ds) | Err e => Err e end
              | Err e => Err e
              end
  end.

(* ---- primitive mutators ---- *)
Inductive prim :=
| PInsert (i : Z) (x : X)                        (* insert(i, x) *)
| PSet (i : Z) (x : X)                           (* self[i] = x *)
| PDel (i : Z)                                   (* del self[i] *)
| PSetSlice (lo hi : option Z) (xs : list X)     (* self[lo:hi] = xs *)
| PDelSlice (lo hi : option Z).                  (* del self[lo:hi] *)

Definition apply_prim (p : prim) (l : list X) : res (list X) :=
  let n := List.length l in
  match p with
  | PInsert i x => Ok (list_insert (py_clamp n i) x l)
  | PSet i x => match py_index n i with Some k => Ok (list_set k x l) | None => Err EIndex end
  | PDel i => match py_index n i with Some k => Ok (list_del k l) | None => Err EIndex end
  | PSetSlice lo hi xs => let (a, b) := py_slice n lo hi in Ok (list_splice a b xs l)
  | PDelSlice lo hi => let (a, b) := py_slice n lo hi in Ok (list_splice a b [] l)
  end.

Inductive event :=
| EvPrim (p : prim)       (* a primitive mutator was called with these arguments *)
| EvAns (r : R)           (* a query answered *)
| EvItem (x : X)          (* pop() returned this opcode *)
| EvRaise (e : err).      (* the operation raised *)

(* the list operation happens first; if it raises the caches are untouched; otherwise BOTH
   caches are reset *)
Definition do_prim (p : prim) (s : pk) : pk * list event :=
  match apply_prim p (opcodes s) with
  | Ok l' => (fresh l', [EvPrim p])
  | Err e => (s, [EvPrim p; EvRaise e])
  end.

(* ---- collections.abc.MutableSequence mix-ins (CPython 3.12 _collections_abc.py) ---- *)
(* append(v): self.insert(len(self), v) *)
Definition m_append (x : X) (s : pk) : pk * list event :=
  do_prim (PInsert (Z.of_nat (List.length (opcodes s))) x) s.

(* extend(values): for v in values: self.append(v) *)
Fixpoint m_extend (xs : list X) (s : pk) : pk * list event :=
  match xs with
  | [] => (s, [])
  | x :: r => let (s1, e1) := m_append x s in
              let (s2, e2) := m_extend r s1 in (s2, e1 ++ e2)
  end.

(* pop(i): v = self[i]; del self[i]; return v *)
Definition m_pop (i : Z) (s : pk) : pk * list event :=
  match py_index (List.length (opcodes s)) i with
  | None => (s, [EvRaise EIndex])
  | Some k =>
      match nth_error (opcodes s) k with
      | None => (s, [EvRaise EIndex])
      | Some v => let (s1, e1) := do_prim (PDel i) s in (s1, e1 ++ [EvItem v])
      end
  end.

(* remove(v): del self[self.index(v)]; Sequence.index scans from 0 and raises ValueError *)
Definition m_remove (x : X) (s : pk) : pk * list event :=
  match index_where (x_eqb x) (opcodes s) with
  | None => (s, [EvRaise EValue])
  | Some k => do_prim (PDel (Z.of_nat k)) s
  end.

(* reverse(): n = len(self); for i in range(n//2): self[i], self[n-i-1] = self[n-i-1], self[i] *)
Fixpoint m_reverse_loop (idx : list nat) (n : nat) (s : pk) : pk * list event :=
  match idx with
  | [] => (s, [])
  | i :: r =>
      match nth_error (opcodes s) (n - i - 1), nth_error (opcodes s) i with
      | Some hi, Some lo =>
          let (s1, e1) := do_prim (PSet (Z.of_nat i) hi) s in
          let (s2, e2) := do_prim (PSet (Z.of_nat (n - i - 1)) lo) s1 in
          let (s3, e3) := m_reverse_loop r n s2 in (s3, e1 ++ e2 ++ e3)
      | _, _ => (s, [EvRaise EIndex])
      end
  end.
Definition m_reverse (s : pk) : pk * list event :=
  let n := List.length (opcodes s) in m_reverse_loop (seq 0 (Nat.div n 2)) n s.

(* clear(): try: while True: self.pop()  except IndexError: pass *)
Fixpoint m_clear_loop (fuel : nat) (s : pk) : pk * list event :=
  match fuel with
  | O => (s, [])
  | S f =>
      match py_index (List.length (opcodes s)) (-1) with
      | None => (s, [])
      | Some _ => let (s1, e1) := do_prim (PDel (-1)) s in
                  let (s2, e2) := m_clear_loop f s1 in (s2, e1 ++ e2)
      end
  end.
Definition m_clear (s : pk) : pk * list event := m_clear_loop (S (List.length (opcodes s))) s.

Inductive action :=
| ARead (q : query)
| APrim (p : prim)
| AAppend (x : X)
| AExtend (xs : list X)          (* also `p += xs` (__iadd__ = extend) *)
| AExtendSelf                    (* p.extend(p): `if values is self: values = list(values)` *)
| APop (i : Z)                   (* pop() is pop(-1) *)
| ARemove (x : X)
| AReverse
| AClear.

Definition run_action (a : action) (s : pk) : pk * list event :=
  match a with
  | ARead q => let (r, s1) := run_query q s in (s1, [EvAns r])
  | APrim p => do_prim p s
  | AAppend x => m_append x s
  | AExtend xs => m_extend xs s
  | AExtendSelf => m_extend (opcodes s) s
  | APop i => m_pop i s
  | ARemove x => m_remove x s
  | AReverse => m_reverse s
  | AClear => m_clear s
  end.

Fixpoint run_actions (acts : list action) (s : pk) : pk :=
  match acts with
  | [] => s
  | a :: r => run_actions r (fst (run_action a s))
  end.

(* the per-step event logs, for the correspondence *)
Fixpoint run_log (acts : list action) (s : pk) : list (list event * list X) :=
  match acts with
  | [] => []
  | a :: r => let (s1, ev) := run_action a s in (ev, opcodes s1) :: run_log r s1
  end.

End Machine.
Unset Implicit Arguments.

Arguments mkPk {X A P} _ _ _.
Arguments opcodes {X A P} _.
Arguments ast_cache {X A P} _.
Arguments props_cache {X A P} _.
Arguments fresh {X A P} _.
Arguments QAst {VA VP VF} _.
Arguments QProps {VA VP VF} _.
Arguments QSafety {VA VP VF}.
Arguments QFresh {VA VP VF} _.
Arguments PInsert {X} _ _.
Arguments PSet {X} _ _.
Arguments PDel {X} _.
Arguments PSetSlice {X} _ _ _.
Arguments PDelSlice {X} _ _.
Arguments EvPrim {X R} _.
Arguments EvAns {X R} _.
Arguments EvItem {X R} _.
Arguments EvRaise {X R} _.
Arguments ARead {X VA VP VF} _.
Arguments APrim {X VA VP VF} _.
Arguments AAppend {X VA VP VF} _.
Arguments AExtend {X VA VP VF} _.
Arguments AExtendSelf {X VA VP VF}.
Arguments APop {X VA VP VF} _.
Arguments ARemove {X VA VP VF} _.
Arguments AReverse {X VA VP VF}.
Arguments AClear {X VA VP VF}.

(* ------------------------------------------------------------------------------------------ *)
(* Part 2: the instance used for the correspondence                                            *)
(* ------------------------------------------------------------------------------------------ *)
Open Scope string_scope.

(* an opcode object: its identity (Opcode defines no __eq__, so `==` is `is`), what its run()
   does, its `data` (or the error encode() raises), and its version if it is a PROTO *)
Record xop := mkX {
  x_id : nat;
  x_op : op;
  x_data : res (list string);       (* the bytes as ONE chunk (a singleton list) *)
  x_proto : option Z
}.

Definition xop_eqb (a b : xop) : bool := Nat.eqb (x_id a) (x_id b).

(* (index, version) of the PROTO opcodes: what Duplicate/MisplacedProtoAnalysis enumerate *)
Fixpoint protos_from (i : nat) (l : list xop) : list (nat * Z) :=
  match l with
  | [] => []
  | x :: r => match x_proto x with
              | Some v => (i, v) :: protos_from (S i) r
              | None => protos_from (S i) r
              end
  end.
Definition protos_of (l : list xop) : list (nat * Z) := protos_from 0 l.

Inductive va := VUnparse | VDump.
Inductive vp := VHasImport | VHasCall | VHasNonSetstate | VImports | VUnsafeImports | VNonStdImports
              | VNCalls.
Inductive vf := VTrace | VInterp | VLen | VDumps.

Inductive ans :=
| AErr (e : err)
| AText (s : string)
| ABool (b : bool)
| ANat (n : nat)
| AImports (l : list (string * string))
| ASafety (r : option (list finding))        (* None: an analysis the model does not know *)
| ATrace (executed : list op) (text : string)
| ABytes (r : res (list string)).

Section Instance.
Variable crepr : const -> string.          (* repr of constants (Python's, supplied) *)
Variable std : string -> bool.             (* fickle.is_std_module *)
Variable pi : list (nat * expr) -> list (nat * expr).
   (* iteration order of the set `defined - used`: any permutation (PYTHONHASHSEED) *)

(* ---- self-containing containers ----
   The VM can build a list / dict / set that (directly or through others) contains itself; Python's
   ast.unparse and NodeVisitor then raise RecursionError, and the depth-cut printers of this model
   would unfold the cycle 40 levels deep.  Such results are declined ([EUnmodelled]): the harness
   checks those histories model-free only. *)
Fixpoint expr_refs (fuel : nat) (e : expr) : list nat :=
  match fuel with
  | O => []
  | S n =>
      let go := expr_refs n in
      match e with
      | ENode i => [i]
      | ETuple l | ESetLit l => flat_map go l
      | ECall f args kw =>
          (go f ++ flat_map go args ++ match kw with Some k => go k | None => [] end)%list
      | EStarred x | EAttr x _ => go x
      | EDictLit kvs => (flat_map go (map fst kvs) ++ flat_map go (map snd kvs))%list
      | _ => []
      end
  end.

Definition node_refs (n : node) : list nat :=
  match n with
  | NList l | NSet l => flat_map (expr_refs UDEPTH) l
  | NDict kvs => (flat_map (expr_refs UDEPTH) (map fst kvs) ++ flat_map (expr_refs UDEPTH) (map snd kvs))%list
  end.

Fixpoint nat_union (a b : list nat) : list nat :=
  match a with
  | [] => b
  | x :: r => if nat_mem x b then nat_union r b else x :: nat_union r b
  end.

(* one step of the transitive closure of the "contains" relation between nodes *)
Definition close_step (adj cur : list (list nat)) : list (list nat) :=
  map (fun reach => fold_left (fun acc j => nat_union (nth j adj []) acc) reach reach) cur.

Fixpoint close_n (k : nat) (adj cur : list (list nat)) : list (list nat) :=
  match k with O => cur | S k' => close_n k' adj (close_step adj cur) end.

Fixpoint self_in (i : nat) (reach : list (list nat)) : bool :=
  match reach with
  | [] => false
  | r :: rest => nat_mem i r || self_in (S i) rest
  end.

Definition cyclic (s : fk) : bool :=
  let adj := map node_refs (nodes s) in
  if forallb (fun r => match r with [] => true | _ => false end) adj then false
  else self_in 0 (close_n (List.length adj) adj adj).

Definition inst_interpret (l : list xop) : res fk :=
  match run (map x_op l) with
  | Ok s => if cyclic s then Err EUnmodelled else Ok s
  | Err e => Err e
  end.
Definition inst_props (a : fk) : res fk := Ok a.
   (* the ASTProperties object holds the import / call NODES of the AST it visited: it is
      modelled by that AST; its lists are the functions below *)

Definition p_imports (p : fk) : list (string * string) := imports_of (rev (body p)).
Definition p_calls (p : fk) : list expr := flat_map (stmt_calls (nodes p)) (rev (body p)).

Definition inst_ast_view (v : va) (a : fk) : ans :=
  match v with
  | VUnparse => AText (unparse_module crepr "result" a)
  | VDump => AText (show_body a)
  end.

Definition nonempty {T} (l : list T) : bool := match l with [] => false | _ => true end.

Definition inst_props_view (v : vp) (p : fk) : ans :=
  match v with
  | VHasImport => ABool (nonempty (p_imports p))
  | VHasCall => ABool (nonempty (p_calls p))
  | VHasNonSetstate => ABool (nonempty (filter (fun c => negb (is_setstate_call c)) (p_calls p)))
  | VImports => AImports (p_imports p)
  | VUnsafeImports =>
      AImports (filter (fun mn => mem_str (fst mn) unsafe_imports_modules || (snd mn =? "eval"))
                       (p_imports p))
  | VNonStdImports => AImports (filter (fun mn => negb (std (fst mn))) (p_imports p))
  | VNCalls => ANat (List.length (p_calls p))
  end.

(* Analyzer.analyze: every analysis reads the imports / calls of `pickled.properties` [p], except
   UnusedVariables, which runs a fresh Interpreter [f] and iterates the set in the order [pi] *)
Definition run_analysis2 (name : string) (protos : list (nat * Z)) (p f : fk) (d : dedup)
  : option (list finding * dedup) :=
  if name =? "UnusedVariables"
  then Some (unused_variables_an crepr (nodes f) (pi (unused_vars (nodes f) (rev (body f)))) d)
  else run_analysis crepr std name protos p d.

Fixpoint run_all2 (names : list string) (protos : list (nat * Z)) (p f : fk) (d : dedup)
  : option (list finding) :=
  match names with
  | [] => Some []
  | n :: r =>
      match run_analysis2 n protos p f d with
      | None => None
      | Some (fs, d') =>
          match run_all2 r protos p f d' with
          | Some rest => Some (fs ++ rest)%list
          | None => None
          end
      end
  end.

Definition inst_safety (l : list xop) (p : fk) : ans :=
  match inst_interpret l with
  | Err e => AErr e
  | Ok f => ASafety (run_all2 analysis_order (protos_of l) p f [])
  end.

Definition inst_fresh_view (v : vf) (l : list xop) : ans :=
  match v with
  | VTrace =>
      match traced_from (map x_op l) (fk_init 0) with
      | Ok (executed, s) => if cyclic s then AErr EUnmodelled
                            else ATrace executed (unparse_module crepr "result" s)
      | Err e => AErr e
      end
  | VInterp =>
      match inst_interpret l with
      | Ok s => AText (unparse_module crepr "result" s)
      | Err e => AErr e
      end
  | VLen => ANat (List.length l)
  | VDumps => ABytes (dumps_loop x_data l [])
  end.

Definition iquery := query va vp vf.
Definition iaction := action xop va vp vf.
Definition ipk := @pk xop fk fk.

Definition inst_run_query : iquery -> ipk -> ans * ipk :=
  run_query inst_interpret inst_props inst_ast_view inst_props_view inst_safety inst_fresh_view AErr.
Definition inst_run_queries : list iquery -> ipk -> ipk :=
  run_queries inst_interpret inst_props inst_ast_view inst_props_view inst_safety inst_fresh_view AErr.
Definition inst_spec_answer : iquery -> list xop -> ans :=
  spec_answer inst_interpret inst_props inst_ast_view inst_props_view inst_safety inst_fresh_view AErr.
Definition inst_run_action : iaction -> ipk -> ipk * list (event xop ans) :=
  run_action inst_interpret inst_props inst_ast_view inst_props_view inst_safety inst_fresh_view AErr
             xop_eqb.
Definition inst_run_actions : list iaction -> ipk -> ipk :=
  run_actions inst_interpret inst_props inst_ast_view inst_props_view inst_safety inst_fresh_view AErr
              xop_eqb.
Definition inst_run_log : list iaction -> ipk -> list (list (event xop ans) * list xop) :=
  run_log inst_interpret inst_props inst_ast_view inst_props_view inst_safety inst_fresh_view AErr
          xop_eqb.

(* the unrepaired `properties`: the empty ASTProperties is the properties of an empty module *)
Definition empty_props : fk := fk_init 0.
Definition unrepaired_props_query (v : vp) (s : ipk) : ans * ipk :=
  let (rp, s1) := get_props_unrepaired inst_interpret inst_props empty_props s in
  (match rp with Ok p => inst_props_view v p | Err e => AErr e end, s1).

End Instance.

(* the hash-seed parameter instantiated with the order the model's own scan produces *)
Definition pi_id (l : list (nat * expr)) : list (nat * expr) := l.
