(* wire command for C05 layer B: evaluate the decompiled program of an opcode program with the
   model evaluator PyEval; answer = canonical value + event log (same rendering as vm_run) *)
From Coq Require Import List String ZArith Bool Arith.
From Verif Require Import Base Ops Interp RefVM ShowVM PyEval DispatchVM.
Import ListNotations.
Open Scope string_scope.

Definition PYFUEL : nat := 64.

Definition show_py_result (r : res pst) : string :=
  match r with
  | Ok s =>
      match presult s with
      | Some v => "OK " ++ show_val DEPTH (pheap s) v ++ " | " ++
                  sp (map (show_event (pheap s)) (rev (plog s)))
      | None => "NORESULT"
      end
  | Err e => "ERR " ++ err_name e
  end.

Definition handle_pyeval (cmd : string) (args : list sexp) : option string :=
  if cmd =? "py_eval" then with_prog args (fun p => match run p with
                             | Ok f => show_py_result (py_eval_fk PYFUEL f)
                             | Err _ => "FK-ERR"
                             end)
  else None.
