(* Model of fickling/cli.py: main() on a stack of pickles (C18).

   - [cli_inject]: the --inject branch exactly as its range check and three loops are written:
       if target >= len(stack): stderr, return 1            (before any byte is written)
       for p in stack[:target]: p.dump(stdout)
       p = stack[target]; (warning if its last opcode is not STOP); p.insert_python_eval(...)   (in place)
       p.dump(stdout)
       for p in stack[target + 1:]: p.dump(stdout)
     Python's slice / index semantics for a NEGATIVE target are modelled too (the range check does
     not exclude them): stack[:k] and stack[k+1:] clamp, stack[k] counts from the end or raises
     IndexError; the injection mutates the stack element in place, which the last loop sees when
     target = -1 (stack[0:] is the whole, already mutated, stack).
     Parametric in the pickle type P, the injection [inject : P -> res P] (C08's subject), the
     serialiser [dumps : P -> B] (C06's subject) and [last_is_stop], so that it composes with both
     without depending on either.
   - [cli_decompile]: the decompile / --trace branch: one Interpreter per pickle, first_variable_id =
     the previous interpreter's next_variable_id, result_variable = "result<i>"; an exception of
     pickle i propagates after the programs of pickles 0..i-1 have been printed.

   Executable definitions only -- proofs in proofs/CliProofs.v. *)
From Coq Require Import List String Ascii ZArith Bool Arith.
From Verif Require Import Base Ops Interp.
Import ListNotations.
Open Scope string_scope.
Open Scope list_scope.

(* how main() ends: `return n`, or an uncaught exception (traceback on stderr, process status 1) *)
Inductive status :=
| Exit (code : Z)
| Raised (e : err).

Definition status_ok (st : status) : bool :=
  match st with Exit 0 => true | _ => false end.

(* ---------- Python list slicing / indexing with an integer that may be negative ---------- *)
(* the clamped start/stop of a slice bound k on a sequence of length n *)
Definition slice_bound (n : nat) (k : Z) : nat :=
  if (k <? 0)%Z then Z.to_nat (Z.max 0 (Z.of_nat n + k)) else Nat.min n (Z.to_nat k).
Definition py_upto {A} (k : Z) (l : list A) : list A := firstn (slice_bound (List.length l) k) l.   (* l[:k] *)
Definition py_from {A} (k : Z) (l : list A) : list A := skipn (slice_bound (List.length l) k) l.    (* l[k:] *)
(* l[k]: the position read, None = IndexError *)
Definition py_index (n : nat) (k : Z) : option nat :=
  if (k <? 0)%Z then
    if (0 <=? Z.of_nat n + k)%Z then Some (Z.to_nat (Z.of_nat n + k)) else None
  else if (k <? Z.of_nat n)%Z then Some (Z.to_nat k) else None.

Section Inject.
  Variable P B : Type.
  Variable inject : P -> res P.          (* Pickled.insert_python_eval with the CLI's flags; Err = it raised *)
  Variable dumps : P -> B.               (* what Pickled.dump writes *)
  Variable last_is_stop : P -> bool.     (* isinstance(pickled[-1], Stop) *)

  Record outcome := mkOut {
    o_stdout : list B;       (* one chunk per Pickled.dump call, in order *)
    o_stderr : bool;         (* anything written to stderr (error, warning or traceback) *)
    o_status : status
  }.

  Definition cli_inject (ps : list P) (k : Z) : outcome :=
    if (k >=? Z.of_nat (List.length ps))%Z then mkOut [] true (Exit 1)
    else
      let pre := map dumps (py_upto k ps) in
      match py_index (List.length ps) k with
      | None => mkOut pre true (Raised EIndex)
      | Some i =>
          match nth_error ps i with
          | None => mkOut pre true (Raised EIndex)
          | Some p =>
              let warn := negb (last_is_stop p) in
              match inject p with
              | Err e => mkOut pre true (Raised e)
              | Ok p' =>
                  let ps' := set_nth i p' ps in
                  mkOut (pre ++ dumps p' :: map dumps (py_from (k + 1) ps')) warn (Exit 0)
              end
          end
      end.
End Inject.
Arguments mkOut {B} _ _ _.
Arguments o_stdout {B} _.
Arguments o_stderr {B} _.
Arguments o_status {B} _.
Arguments cli_inject {P B} _ _ _ _ _.

(* ---------- decompile ---------- *)
Record seg := mkSeg {
  sg_index : nat;      (* i: the program binds result<i> *)
  sg_first : nat;      (* first_variable_id *)
  sg_state : fk        (* the interpreter after run(): module body, node heap, next_variable_id = ctr *)
}.
Definition sg_next (g : seg) : nat := ctr (sg_state g).

Fixpoint cli_decompile_from (i var_id : nat) (ps : list (list op)) : list seg * status :=
  match ps with
  | [] => ([], Exit 0)
  | p :: r =>
      match run_from p (fk_init var_id) with
      | Err e => ([], Raised e)
      | Ok s =>
          let '(l, st) := cli_decompile_from (S i) (ctr s) r in
          (mkSeg i var_id s :: l, st)
      end
  end.
Definition cli_decompile (ps : list (list op)) : list seg * status := cli_decompile_from 0 0 ps.

Definition result_name (i : nat) : string := ("result" ++ nat_to_string i)%string.

(* ---------- the names fickling reserves for itself ---------- *)
Definition is_digit (c : ascii) : bool :=
  match c with
  | "0" | "1" | "2" | "3" | "4" | "5" | "6" | "7" | "8" | "9" => true
  | _ => false
  end%char.
Fixpoint all_digits (s : string) : bool :=
  match s with
  | EmptyString => true
  | String c r => is_digit c && all_digits r
  end.
Fixpoint strip_prefix (p s : string) : option string :=
  match p with
  | EmptyString => Some s
  | String a p' =>
      match s with
      | String b s' => if Ascii.eqb a b then strip_prefix p' s' else None
      | EmptyString => None
      end
  end.
(* spelled _var<digits> or result<digits> (zero or more digits) *)
Definition is_reserved (s : string) : bool :=
  match strip_prefix "_var" s with
  | Some r => all_digits r
  | None => match strip_prefix "result" s with
            | Some r => all_digits r
            | None => false
            end
  end.
Definition unres (s : string) : bool := negb (is_reserved s).

Definition op_globals_free (o : op) : bool :=
  match o with
  | OGlobal _ n | OInst _ n => unres n
  | _ => true
  end.
Definition op_consts_free (o : op) : bool :=
  match o with
  | OConst (CStr s) => unres s
  | _ => true
  end.
Definition is_stack_global (o : op) : bool :=
  match o with OStackGlobal => true | _ => false end.
(* no global is imported under a reserved spelling: GLOBAL / INST arguments, and -- only when the
   program contains STACK_GLOBAL, whose name comes from a string on the stack -- its text constants *)
Definition reserved_free (p : list op) : bool :=
  forallb op_globals_free p && (negb (existsb is_stack_global p) || forallb op_consts_free p).

(* ---------- what a decompiled segment binds and reads, as Python names ---------- *)
Inductive atom :=
| AVar (j : nat)        (* the name _var<j> *)
| AName (s : string)    (* any other name *)
| AStr (s : string).    (* a text constant (a potential STACK_GLOBAL argument) *)

Fixpoint expr_atoms (e : expr) : list atom :=
  match e with
  | EConst (CStr s) => [AStr s]
  | EConst _ => []
  | EName s => [AName s]
  | EVar i => [AVar i]
  | ETuple l => flat_map expr_atoms l
  | ENode _ => []
  | ECall f args kw =>
      expr_atoms f ++ flat_map expr_atoms args ++
      match kw with Some k => expr_atoms k | None => [] end
  | EStarred x => expr_atoms x
  | EAttr x _ => expr_atoms x
  | ESetLit l => flat_map expr_atoms l
  | EDictLit kvs => flat_map (fun kv => expr_atoms (fst kv) ++ expr_atoms (snd kv)) kvs
  end.

Definition node_atoms (n : node) : list atom :=
  match n with
  | NList l | NSet l => flat_map expr_atoms l
  | NDict kvs => flat_map (fun kv => expr_atoms (fst kv) ++ expr_atoms (snd kv)) kvs
  end.

Definition atom_name (a : atom) : list string :=
  match a with
  | AVar j => [var_name j]
  | AName s => [s]
  | AStr _ => []
  end.

(* names a statement binds (as the interpreter with result_variable = result<i> prints it) *)
Definition stmt_binds (i : nat) (st : stmt) : list string :=
  match st with
  | SImport _ n => [n]
  | SAssignV j _ => [var_name j]
  | SResult _ => [result_name i]
  | SSetItemV _ _ _ => []
  | SExpr _ => []
  end.
(* _var indices a statement assigns *)
Definition stmt_assigns (st : stmt) : list nat :=
  match st with SAssignV j _ => [j] | _ => [] end.
(* what a statement reads, in its own expression tree (mutable list/set/dict displays are printed
   with the node heap's FINAL contents: those reads are [heap_atoms]) *)
Definition stmt_atoms (st : stmt) : list atom :=
  match st with
  | SImport _ _ => []
  | SAssignV _ e => expr_atoms e
  | SResult e => expr_atoms e
  | SSetItemV j k e => AVar j :: expr_atoms k ++ expr_atoms e
  | SExpr e => expr_atoms e
  end.
Definition heap_atoms (s : fk) : list atom := flat_map node_atoms (nodes s).

Definition seg_body (g : seg) : list stmt := rev (body (sg_state g)).      (* in program order *)
Definition seg_binds (g : seg) : list string := flat_map (stmt_binds (sg_index g)) (seg_body g).
Definition seg_assigns (g : seg) : list nat := flat_map stmt_assigns (seg_body g).
Definition seg_reads (g : seg) : list string :=
  flat_map atom_name (flat_map stmt_atoms (seg_body g) ++ heap_atoms (sg_state g)).
Definition vars_of (l : list atom) : list nat :=
  flat_map (fun a => match a with AVar j => [j] | _ => [] end) l.
