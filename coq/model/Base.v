(* Base definitions shared by every model file: error values, a result monad, S-expressions
   (the wire format of the correspondence driver) and decimal / hex text helpers.
   Executable definitions only -- no proofs in model/. *)
From Coq Require Import List String Ascii ZArith NArith Bool Decimal DecimalString.
Import ListNotations.
Open Scope string_scope.

(* ---- errors as values ---- *)
Inductive err :=
| EIndex        (* IndexError: pop from empty stack *)
| EKey          (* KeyError: memo key missing *)
| EValue        (* ValueError (incl. "Exhausted the stack while searching for a MarkObject") *)
| ENotImpl      (* NotImplementedError: opcode without class / run *)
| EType         (* TypeError / AttributeError of the host language *)
| EUnmodelled   (* the model declines: behaviour outside the modelled fragment *)
| EFuel.        (* fuel exhausted (never on inputs the theorems talk about) *)

Inductive res (A : Type) :=
| Ok (a : A)
| Err (e : err).
Arguments Ok {A} a.
Arguments Err {A} e.

Definition bind {A B} (r : res A) (f : A -> res B) : res B :=
  match r with Ok a => f a | Err e => Err e end.
Notation "'do' x <- r ; k" := (bind r (fun x => k))
  (at level 200, x name, r at level 100, k at level 200).
Notation "'do' ' p <- r ; k" := (bind r (fun x => let 'p := x in k))
  (at level 200, p strict pattern, r at level 100, k at level 200).

Definition err_name (e : err) : string :=
  match e with
  | EIndex => "IndexError" | EKey => "KeyError" | EValue => "ValueError"
  | ENotImpl => "NotImplementedError" | EType => "TypeError"
  | EUnmodelled => "Unmodelled" | EFuel => "Fuel"
  end.

(* ---- S-expressions ---- *)
Inductive sexp :=
| Atom (s : string)
| SList (l : list sexp).

Fixpoint show_sexp (s : sexp) : string :=
  match s with
  | Atom a => a
  | SList l =>
      "(" ++ (fix go (l : list sexp) : string :=
                match l with
                | [] => ""
                | [x] => show_sexp x
                | x :: r => show_sexp x ++ " " ++ go r
                end) l ++ ")"
  end.

(* ---- decimal text ---- *)
Definition z_to_string (z : Z) : string := NilZero.string_of_int (Z.to_int z).
Definition z_of_string (s : string) : option Z :=
  match NilZero.int_of_string s with
  | Some i => Some (Z.of_int i)
  | None => None
  end.
Definition nat_to_string (n : nat) : string := z_to_string (Z.of_nat n).
Definition n_to_string (n : N) : string := z_to_string (Z.of_N n).

(* ---- hex text (lower case, two digits per byte) ---- *)
Definition hex_digit (n : N) : ascii :=
  match n with
  | 0 => "0" | 1 => "1" | 2 => "2" | 3 => "3" | 4 => "4" | 5 => "5" | 6 => "6" | 7 => "7"
  | 8 => "8" | 9 => "9" | 10 => "a" | 11 => "b" | 12 => "c" | 13 => "d" | 14 => "e" | _ => "f"
  end%N%char.

Definition hex_val (c : ascii) : option N :=
  let n := N_of_ascii c in
  if ((48 <=? n) && (n <=? 57))%N then Some (n - 48)%N
  else if ((97 <=? n) && (n <=? 102))%N then Some (n - 87)%N
  else None.

Fixpoint hex_of_string (s : string) : string :=
  match s with
  | EmptyString => EmptyString
  | String c r =>
      let n := N_of_ascii c in
      String (hex_digit (n / 16)) (String (hex_digit (n mod 16)) (hex_of_string r))
  end.

Fixpoint string_of_hex (s : string) : option string :=
  match s with
  | EmptyString => Some EmptyString
  | String a (String b r) =>
      match hex_val a, hex_val b, string_of_hex r with
      | Some x, Some y, Some t => Some (String (ascii_of_N (x * 16 + y)) t)
      | _, _, _ => None
      end
  | _ => None
  end.

(* strings on the wire are "h" ++ hex so that the empty string is still an atom *)
Definition wire_of_string (s : string) : string := "h" ++ hex_of_string s.
Definition string_of_wire (s : string) : option string :=
  match s with
  | String "h" r => string_of_hex r
  | _ => None
  end.

Definition show_bool (b : bool) : string := if b then "T" else "F".

Fixpoint mem_str (x : string) (l : list string) : bool :=
  match l with
  | [] => false
  | y :: r => if String.eqb x y then true else mem_str x r
  end.

Fixpoint assoc_str {A} (x : string) (l : list (string * A)) : option A :=
  match l with
  | [] => None
  | (k, v) :: r => if String.eqb x k then Some v else assoc_str x r
  end.
