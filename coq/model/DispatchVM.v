(* wire commands for the pickle machines *)
From Coq Require Import List String ZArith Bool Arith.
From Verif Require Import Base Ops Interp RefVM Shape ShowVM.
Import ListNotations.
Open Scope string_scope.

Definition with_prog (args : list sexp) (k : list op -> string) : option string :=
  match args with
  | [SList l] => match ops_of_sexps l with
                 | Some p => Some (k p)
                 | None => Some "!bad-program"
                 end
  | _ => None
  end.

Definition handle_vm (cmd : string) (args : list sexp) : option string :=
  if cmd =? "fk_trace" then
    with_prog args (fun p => show_trace shape_fk (trace_from p (fk_init 0)))
  else if cmd =? "vm_trace" then
    with_prog args (fun p => show_trace shape_vm (vtrace_from p vm_init))
  else if cmd =? "fk_run" then with_prog args (fun p => show_fk_result (run p))
  else if cmd =? "vm_run" then with_prog args (fun p => show_vm_result (vrun p))
  else None.
