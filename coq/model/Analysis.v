(* Model of fickling/analysis.py (+ ASTProperties, Pickled.unsafe_imports / non_standard_imports,
   Interpreter.unused_assignments, ml.MLAllowlist): the analyses in Analysis.ALL order over the
   decompiled module, the shared de-duplication set, shorten_code, and the verdict. *)
From Coq Require Import List String Ascii ZArith Bool Arith.
From Verif Require Import Base Ops Interp Unparse Severity AnalysisTable MLTable ReportTable.
Import ListNotations.
Open Scope string_scope.
Local Infix "+++" := (@app _) (at level 60, right associativity).

(* ---------- text helpers ---------- *)
(* Python len(): code points of a UTF-8 byte string = bytes that are not continuation bytes *)
Fixpoint py_len (s : string) : nat :=
  match s with
  | EmptyString => 0
  | String c r =>
      let n := nat_of_ascii c in
      if (128 <=? n)%nat && (n <? 192)%nat then py_len r else S (py_len r)
  end.

(* text before the first "(" , if any *)
Fixpoint before_paren (s : string) : option string :=
  match s with
  | EmptyString => None
  | String c r =>
      if Ascii.eqb c "("%char then Some EmptyString
      else match before_paren r with
           | Some p => Some (String c p)
           | None => None
           end
  end.

Fixpoint rstrip_sp (s : string) : string :=
  match s with
  | EmptyString => EmptyString
  | String c r =>
      match rstrip_sp r with
      | EmptyString => if Ascii.eqb c " "%char then EmptyString else String c EmptyString
      | t => String c t
      end
  end.

(* AnalysisContext.shorten_code on the unparsed text *)
Definition shorten (code : string) : string :=
  if (32 <? py_len code)%nat then
    match before_paren code with
    | Some p => rstrip_sp p ++ "(...)"
    | None => code
    end
  else code.

Fixpoint starts_with (p s : string) : bool :=
  match p, s with
  | EmptyString, _ => true
  | String a p', String b s' => Ascii.eqb a b && starts_with p' s'
  | _, EmptyString => false
  end.

(* ---------- findings ---------- *)
(* values an f-string placeholder / a trigger expression can be bound to *)
Inductive bval := BStr (s : string) | BInt (z : Z).
(* AnalysisResult.trigger: None, one value, a tuple of values, or -- when the construction site passes
   something the model cannot bind to a string / int -- an opaque object (not JSON-serialisable) *)
Inductive trigger := TNone | TVal (b : bval) | TTuple (l : list bval) | TOpaque (src : string).

Record finding := mkFinding {
  f_analysis : string;
  f_sev : string;          (* Severity member name *)
  f_trigger : string;      (* str(trigger), tuple members joined by a blank *)
  f_site : string * nat;   (* (class, index of the AnalysisResult(...) call in its analyze) *)
  f_msg : option string;   (* AnalysisResult.message *)
  f_trig : trigger         (* AnalysisResult.trigger *)
}.

(* ---------- construction sites (generated ReportTable) ---------- *)
Definition site_row := (string * (option string * (option (list mpart) * trsrc)))%type.
Fixpoint find_site (cls : string) (idx : nat) (l : list ((string * nat) * site_row)) : option site_row :=
  match l with
  | [] => None
  | ((c, i), r) :: t => if (c =? cls) && Nat.eqb i idx then Some r else find_site cls idx t
  end.

Definition bval_text (b : bval) : string :=
  match b with BStr s => s | BInt z => z_to_string z end.
Definition benv := list bval.     (* values of the site's placeholders, in order of first occurrence *)
Definition fill_part (env : benv) (p : mpart) : string :=
  match p with
  | MLit s => s
  | MVar k => match nth_error env k with Some b => bval_text b | None => "<?" ++ nat_to_string k ++ ">" end
  end.
Fixpoint bind_all (env : benv) (ks : list nat) : option (list bval) :=
  match ks with
  | [] => Some []
  | x :: r => match nth_error env x, bind_all env r with
              | Some b, Some t => Some (b :: t)
              | _, _ => None
              end
  end.
Definition site_message (cls : string) (idx : nat) (env : benv) : option string :=
  match find_site cls idx report_sites with
  | Some (_, (_, (Some parts, _))) => Some (String.concat "" (map (fill_part env) parts))
  | _ => None
  end.
Definition site_trigger (cls : string) (idx : nat) (env : benv) : trigger :=
  match find_site cls idx report_sites with
  | Some (_, (_, (_, TrNone))) => TNone
  | Some (_, (_, (_, TrRef k))) =>
      match nth_error env k with Some b => TVal b | None => TOpaque "<unbound placeholder>" end
  | Some (_, (_, (_, TrTuple ks))) =>
      match bind_all env ks with Some l => TTuple l | None => TOpaque "<unbound placeholder>" end
  | Some (_, (_, (_, TrOther src))) => TOpaque src
  | None => TOpaque "<no such site>"
  end.

(* the finding built at site (cls, idx): name, severity and str(trigger) as the model states them,
   message and trigger as the live construction site states them under the bindings [env] *)
Definition mkF (cls : string) (idx : nat) (aname sev trig_text : string) (env : benv) : finding :=
  mkFinding aname sev trig_text (cls, idx) (site_message cls idx env) (site_trigger cls idx env).

Definition dedup := list string.    (* AnalysisContext.reported_shortened_code *)

(* ---------- what ASTProperties collects ---------- *)
(* Call nodes reachable from a statement without passing through another Call *)
Fixpoint calls_of (fuel : nat) (ns : list node) (e : expr) : list expr :=
  match fuel with
  | O => []
  | S n =>
      let go := calls_of n ns in
      match e with
      | ECall _ _ _ => [e]
      (* fickling builds ast.Tuple with a Python TUPLE of elts, which NodeVisitor.generic_visit and
         ast.walk do not traverse (they only look into lists): nothing inside a tuple is seen *)
      | ETuple _ => []
      | ESetLit l => flat_map go l
      | ENode i =>
          match nth_error ns i with
          | Some (NList l) | Some (NSet l) => flat_map go l
          | Some (NDict kvs) => flat_map go (map fst kvs) +++ flat_map go (map snd kvs)
          | None => []
          end
      | EStarred x | EAttr x _ => go x
      | EDictLit kvs => flat_map go (map fst kvs) +++ flat_map go (map snd kvs)
      | _ => []
      end
  end.

Definition stmt_calls (ns : list node) (s : stmt) : list expr :=
  match s with
  | SImport _ _ => []
  | SAssignV _ e | SResult e | SExpr e => calls_of UDEPTH ns e
  | SSetItemV _ k e => calls_of UDEPTH ns k +++ calls_of UDEPTH ns e
  end.

Definition is_setstate_call (e : expr) : bool :=
  match e with
  | ECall (EAttr _ a) _ _ => a =? "__setstate__"
  | _ => false
  end.

Definition imports_of (b : list stmt) : list (string * string) :=
  flat_map (fun s => match s with SImport m n => [(m, n)] | _ => [] end) b.

(* ---------- Interpreter.unused_assignments ---------- *)
Fixpoint names_of (fuel : nat) (ns : list node) (e : expr) : list string :=
  match fuel with
  | O => []
  | S n =>
      let go := names_of n ns in
      match e with
      | EConst _ => []
      | EName s => [s]
      | EVar i => [var_name i]
      | ETuple _ => []
      | ESetLit l => flat_map go l
      | ENode i =>
          match nth_error ns i with
          | Some (NList l) | Some (NSet l) => flat_map go l
          | Some (NDict kvs) => flat_map go (map fst kvs) +++ flat_map go (map snd kvs)
          | None => []
          end
      | ECall f args kw => go f +++ flat_map go args +++ match kw with Some k => go k | None => [] end
      | EStarred x | EAttr x _ => go x
      | EDictLit kvs => flat_map go (map fst kvs) +++ flat_map go (map snd kvs)
      end
  end.

(* statements in order, stopping at `result = ...`: (defined variables with their values, used names).
   A subscript assignment only contributes the names of its VALUE (its target is not walked). *)
Fixpoint scan_unused (ns : list node) (b : list stmt) : list (nat * expr) * list string :=
  match b with
  | [] => ([], [])
  | SResult _ :: _ => ([], [])
  | s :: r =>
      let '(d, u) := scan_unused ns r in
      match s with
      | SImport _ _ => (d, u)
      | SAssignV i e => ((i, e) :: d, names_of UDEPTH ns e +++ u)
      | SSetItemV _ _ e => (d, names_of UDEPTH ns e +++ u)
      | SExpr e => (d, names_of UDEPTH ns e +++ u)
      | SResult _ => (d, u)
      end
  end.

(* later assignment to the same variable replaces the earlier one in `assignments` *)
Fixpoint last_def (i : nat) (d : list (nat * expr)) : option expr :=
  match d with
  | [] => None
  | (j, e) :: r => match last_def i r with
                   | Some x => Some x
                   | None => if Nat.eqb i j then Some e else None
                   end
  end.

Fixpoint nat_mem (i : nat) (l : list nat) : bool :=
  match l with [] => false | j :: r => Nat.eqb i j || nat_mem i r end.
Fixpoint nat_dedup (l : list nat) : list nat :=
  match l with
  | [] => []
  | i :: r => if nat_mem i r then nat_dedup r else i :: nat_dedup r
  end.

Definition unused_vars (ns : list node) (b : list stmt) : list (nat * expr) :=
  let '(d, u) := scan_unused ns b in
  flat_map (fun i => if mem_str (var_name i) u then []
                     else match last_def i d with Some e => [(i, e)] | None => [] end)
           (nat_dedup (map fst d)).

(* ---------- the analyses ---------- *)
Section Analyses.
Variable crepr : const -> string.
Variable std : string -> bool.             (* fickle.is_std_module *)

Definition imp_text (mn : string * string) : string := "from " ++ fst mn ++ " import " ++ snd mn.
Definition call_text (ns : list node) (e : expr) : string := unparse_expr crepr UDEPTH ns e.

(* all dotted prefixes, whole name first: node.module.rsplit(".", i)[0] for i in 0..count(".") *)
Fixpoint split_dots (s : string) (cur : string) : list string :=
  match s with
  | EmptyString => [cur]
  | String c r => if Ascii.eqb c "."%char then cur :: split_dots r EmptyString
                  else split_dots r (cur ++ String c EmptyString)
  end.
Fixpoint prefixes_of (parts : list string) (acc : string) (first : bool) : list string :=
  match parts with
  | [] => []
  | p :: r => let a := if first then p else acc ++ "." ++ p in a :: prefixes_of r a false
  end.
Definition dotted_prefixes (m : string) : list string := rev (prefixes_of (split_dots m EmptyString) EmptyString true).

Definition add (t : string) (d : dedup) : dedup := if mem_str t d then d else t :: d.

(* DuplicateProtoAnalysis / MisplacedProtoAnalysis over (index, version) of the PROTO opcodes *)
Definition z_mem (z : Z) (l : list Z) : bool := existsb (Z.eqb z) l.
Definition ordinal_suffix (i : nat) : string :=     (* DuplicateProtoAnalysis._get_suffix *)
  match i with 0 => "st" | 1 => "nd" | 2 => "rd" | _ => "th" end.
(* later PROTOs: the message variant depends on whether the version was seen in an earlier PROTO *)
Fixpoint dup_protos (seen : list Z) (later : list (nat * Z)) : list finding :=
  match later with
  | [] => []
  | (i, v) :: r =>
      mkF "DuplicateProtoAnalysis" (if z_mem v seen then 0 else 1)
          "DuplicateProtoAnalysis" "LIKELY_UNSAFE" (nat_to_string (S i))
          [(BInt (Z.of_nat (S i))); (BStr (ordinal_suffix i))]
      :: dup_protos (v :: seen) r
  end.
Definition proto_findings (protos : list (nat * Z)) : list finding * list finding :=
  let dup := match protos with
             | [] => []
             | (_, v0) :: later => dup_protos [v0] later
             end in
  let mis := flat_map (fun iv => if (2 <=? snd iv)%Z && (0 <? fst iv)%nat
                                 then [mkF "MisplacedProtoAnalysis" 0 "MisplacedProtoAnalysis" "LIKELY_UNSAFE"
                                           (z_to_string (snd iv)) [(BInt (snd iv))]]
                                 else []) protos in
  (dup, mis).

Fixpoint non_standard_imports (imps : list (string * string)) (d : dedup) : list finding * dedup :=
  match imps with
  | [] => ([], d)
  | mn :: r =>
      if std (fst mn) then non_standard_imports r d
      else
        let t := shorten (imp_text mn) in
        let seen := mem_str t d in
        let '(fs, d') := non_standard_imports r (add t d) in
        ((if seen then [] else [mkF "NonStandardImports" 0 "NonStandardImports" "LIKELY_UNSAFE" t
                                         [(BStr t)]]) +++ fs, d')
  end.

Definition in_unsafe_imports (m n : string) : bool :=
  match assoc_str m unsafe_imports with
  | Some names => mem_str n names
  | None => false
  end.

Definition risk_of_module (p : string) : string :=
  match assoc_str p unsafe_modules_info with Some t => t | None => "<?risk>" end.
Definition risk_of_import (m n : string) : string :=
  match assoc_str m unsafe_imports_info with
  | Some l => match assoc_str n l with Some t => t | None => "<?risk>" end
  | None => "<?risk>"
  end.

Fixpoint unsafe_imports_ml (imps : list (string * string)) (d : dedup) : list finding * dedup :=
  match imps with
  | [] => ([], d)
  | mn :: r =>
      let t := shorten (imp_text mn) in
      let mods := flat_map (fun p => if mem_str p unsafe_modules
                                     then [mkF "UnsafeImportsML" 0 "UnsafeImportsML" "LIKELY_OVERTLY_MALICIOUS" t
                                             [(BStr t); (BStr p);
                                              (BStr (risk_of_module p))]]
                                     else []) (dotted_prefixes (fst mn)) in
      let byname :=
        match assoc_str (fst mn) unsafe_imports with
        | Some names => if mem_str (snd mn) names
                        then [mkF "UnsafeImportsML" 1 "UnsafeImportsML" "LIKELY_OVERTLY_MALICIOUS" t
                                [(BStr t); (BStr (snd mn));
                                 (BStr (risk_of_import (fst mn) (snd mn)))]] else []
        | None => if snd mn =? "eval"
                  then [mkF "UnsafeImportsML" 2 "UnsafeImportsML" "LIKELY_OVERTLY_MALICIOUS" t
                          [(BStr t)]] else []
        end in
      let '(fs, d') := unsafe_imports_ml r (add t d) in
      (mods +++ byname +++ fs, d')
  end.

Definition bad_prefix (t : string) : bool :=
  existsb (fun c => starts_with (c ++ "(") t) bad_calls.

Fixpoint bad_calls_an (ns : list node) (calls : list expr) (d : dedup) : list finding * dedup :=
  match calls with
  | [] => ([], d)
  | c :: r =>
      let t := shorten (call_text ns c) in
      if bad_prefix t then
        let '(fs, d') := bad_calls_an ns r (add t d) in
        (mkF "BadCalls" 0 "OvertlyBadEval" "OVERTLY_MALICIOUS" t [(BStr t)] :: fs, d')
      else bad_calls_an ns r d
  end.

Definition overt_prefix (t : string) : bool :=
  existsb (fun c => starts_with c t) overtly_bad_prefixes.

Definition callee_id (e : expr) : option string :=
  match e with
  | ECall (EName s) _ _ => Some s
  | ECall (EVar i) _ _ => Some (var_name i)
  | _ => None
  end.

Fixpoint overtly_bad_evals (ns : list node) (safe : list string) (calls : list expr) (d : dedup)
  : list finding * dedup :=
  match calls with
  | [] => ([], d)
  | c :: r =>
      let skip := match callee_id c with Some s => mem_str s safe | None => false end in
      if skip then overtly_bad_evals ns safe r d
      else
        let t := shorten (call_text ns c) in
        let seen := mem_str t d in
        let '(fs, d') := overtly_bad_evals ns safe r (add t d) in
        ((if overt_prefix t
          then [mkF "OvertlyBadEvals" 0 "OvertlyBadEval" "OVERTLY_MALICIOUS" t [(BStr t)]]
          else if seen then []
          else [mkF "OvertlyBadEvals" 1 "OvertlyBadEval" "LIKELY_UNSAFE" t [(BStr t)]]) +++ fs, d')
  end.

Fixpoint unsafe_imports_an (imps : list (string * string)) (d : dedup) : list finding * dedup :=
  match imps with
  | [] => ([], d)
  | mn :: r =>
      if mem_str (fst mn) unsafe_imports_modules || (snd mn =? "eval") then
        let t := shorten (imp_text mn) in
        let '(fs, d') := unsafe_imports_an r (add t d) in
        (mkF "UnsafeImports" 0 "UnsafeImports" "LIKELY_OVERTLY_MALICIOUS" t [(BStr t)] :: fs, d')
      else unsafe_imports_an r d
  end.

Fixpoint unused_variables_an (ns : list node) (un : list (nat * expr)) (d : dedup) : list finding * dedup :=
  match un with
  | [] => ([], d)
  | (i, e) :: r =>
      let t := shorten (call_text ns e) in
      let '(fs, d') := unused_variables_an ns r (add t d) in
      (mkF "UnusedVariables" 0 "UnusedVariables" "SUSPICIOUS" (var_name i ++ " " ++ t)
            [(BStr (var_name i)); (BStr t)] :: fs, d')
  end.

Fixpoint ml_allowlist_an (imps : list (string * string)) (d : dedup) : list finding * dedup :=
  match imps with
  | [] => ([], d)
  | mn :: r =>
      let t := shorten (imp_text mn) in
      let seen := mem_str t d in
      let here :=
        if seen then []
        else match assoc_str (fst mn) ml_allowlist with
             | None => [mkF "MLAllowlist" 0 "MLAllowlist" "LIKELY_UNSAFE" t [(BStr t)]]
             | Some names => if mem_str (snd mn) names then []
                             else [mkF "MLAllowlist" 1 "MLAllowlist" "LIKELY_UNSAFE" t
                                     [(BStr t); (BStr (snd mn))]]
             end in
      let '(fs, d') := ml_allowlist_an r (add t d) in
      (here +++ fs, d')
  end.

(* one analysis by its class name, threading the shared set *)
Definition run_analysis (name : string) (protos : list (nat * Z)) (s : fk) (d : dedup)
  : option (list finding * dedup) :=
  let b := rev (body s) in
  let ns := nodes s in
  let imps := imports_of b in
  let calls := flat_map (stmt_calls ns) b in
  let safe := map snd (filter (fun mn => std (fst mn)) imps) in
  if name =? "DuplicateProtoAnalysis" then Some (fst (proto_findings protos), d)
  else if name =? "MisplacedProtoAnalysis" then Some (snd (proto_findings protos), d)
  else if name =? "NonStandardImports" then Some (non_standard_imports imps d)
  else if name =? "UnsafeImportsML" then Some (unsafe_imports_ml imps d)
  else if name =? "BadCalls" then Some (bad_calls_an ns calls d)
  else if name =? "OvertlyBadEvals" then
    Some (overtly_bad_evals ns safe (filter (fun c => negb (is_setstate_call c)) calls) d)
  else if name =? "UnsafeImports" then Some (unsafe_imports_an imps d)
  else if name =? "UnusedVariables" then Some (unused_variables_an ns (unused_vars ns b) d)
  else if name =? "MLAllowlist" then Some (ml_allowlist_an imps d)
  else None.       (* an analysis the model does not know: the obligation fails *)

Fixpoint run_all (names : list string) (protos : list (nat * Z)) (s : fk) (d : dedup)
  : option (list finding) :=
  match names with
  | [] => Some []
  | n :: r =>
      match run_analysis n protos s d with
      | None => None
      | Some (fs, d') =>
          match run_all r protos s d' with
          | Some rest => Some (fs +++ rest)
          | None => None
          end
      end
  end.

(* Analyzer.analyze with Analysis.ALL in its generated order *)
Definition analyze (protos : list (nat * Z)) (s : fk) : option (list finding) :=
  run_all analysis_order protos s [].

End Analyses.

Definition finding_sev (f : finding) : sev :=
  match sev_of_name (f_sev f) with Some s => s | None => 0 end.

Definition verdict (fs : list finding) : sev := severity (map finding_sev fs).

(* ---------- the report: AnalysisResults.to_string / detailed_results / to_dict ---------- *)
Inductive json :=
| JStr (s : string)
| JInt (z : Z)
| JList (l : list json)
| JDict (kvs : list (string * json))
| JOpaque (what : string).       (* an object json.dumps refuses (e.g. an ast node) *)

(* what json.dumps accepts: strings, ints, lists and string-keyed dicts of those *)
Fixpoint json_ok (j : json) : bool :=
  match j with
  | JStr _ | JInt _ => true
  | JList l => forallb json_ok l
  | JDict kvs => forallb (fun kv => json_ok (snd kv)) kvs
  | JOpaque _ => false
  end.

Definition json_of_bval (b : bval) : json :=
  match b with BStr s => JStr s | BInt z => JInt z end.
Definition json_of_trigger (t : trigger) : json :=
  match t with
  | TNone => JOpaque "None"              (* never stored: falsy *)
  | TVal b => json_of_bval b
  | TTuple l => JList (map json_of_bval l)
  | TOpaque src => JOpaque src
  end.
(* `if result.trigger:` *)
Definition trigger_truthy (t : trigger) : bool :=
  match t with
  | TNone => false
  | TVal (BStr s) => negb (s =? "")
  | TVal (BInt z) => negb (z =? 0)%Z
  | TTuple l => match l with [] => false | _ => true end
  | TOpaque _ => true
  end.

(* dict assignment: an existing key keeps its position and takes the new value *)
Fixpoint jset (k : string) (v : json) (l : list (string * json)) : list (string * json) :=
  match l with
  | [] => [(k, v)]
  | (k', v') :: r => if k =? k' then (k, v) :: r else (k', v') :: jset k v r
  end.

(* detailed["AnalysisResult"][result.analysis_name] = result.trigger for every truthy trigger *)
Definition detailed_entries (fs : list finding) : list (string * json) :=
  fold_left (fun acc f => if trigger_truthy (f_trig f)
                          then jset (f_analysis f) (json_of_trigger (f_trig f)) acc else acc) fs [].
Definition detailed_results (fs : list finding) : json :=
  match detailed_entries fs with
  | [] => JDict []
  | es => JDict [("AnalysisResult", JDict es)]
  end.

(* str(result) *)
Definition finding_str (f : finding) : string :=
  match f_msg f with Some m => m | None => no_message_text end.

Definition sev_named (n : string) : sev := match sev_of_name n with Some s => s | None => 0 end.
Definition default_verbosity : sev := sev_named "POSSIBLY_UNSAFE".

(* "\n".join(str(r) for r in self.results if verbosity <= r.severity) *)
Definition LF : string := String (ascii_of_nat 10) EmptyString.
Definition to_string (verbosity : sev) (fs : list finding) : string :=
  String.concat LF (map finding_str (filter (fun f => sev_le verbosity (finding_sev f)) fs)).

(* str.strip() leaves nothing: only (ASCII) white space; every message has literal non-blank text *)
Definition is_ws (c : ascii) : bool :=
  let n := nat_of_ascii c in (((9 <=? n) && (n <=? 13)) || ((28 <=? n) && (n <=? 32)))%nat.
Fixpoint blank (s : string) : bool :=
  match s with EmptyString => true | String c r => is_ws c && blank r end.

Definition nothing_found : string := String.concat LF nothing_found_lines.

Definition to_dict (verbosity : sev) (fs : list finding) : json :=
  let msg := to_string verbosity fs in
  JDict [("severity", JStr (sev_name (verdict fs)));
         ("analysis", JStr (if blank msg then nothing_found else msg));
         ("detailed_results", detailed_results fs)].

(* loader.load: check_safety(pickled, json_output_path) writes to_dict(verbosity) to the file; then
   `if result.severity <= max_acceptable_severity` loads, else raises UnsafeFileError(file, result.to_dict()) *)
Inductive load_outcome := Loaded | Unsafe (info : json).
Definition json_file (fs : list finding) : json := to_dict default_verbosity fs.
Definition loader (max_acceptable : sev) (fs : list finding) : load_outcome :=
  if sev_le (verdict fs) max_acceptable then Loaded else Unsafe (to_dict default_verbosity fs).
