(* Model of fickling's symbolic pickle interpreter (fickle.py: Interpreter and every Opcode.run),
   faithful to the current tree (with the fix: commits recorded in KNOWN_FINDINGS.jsonl).
   Mutable AST nodes (ast.List / ast.Set / ast.Dict objects, which fickling mutates in place and
   aliases through the memo and DUP) live in a node heap and are referenced by index. *)
From Coq Require Import List String Ascii ZArith Bool Arith.
From Verif Require Import Base Ops AnalysisTable.
Import ListNotations.
Open Scope string_scope.

Inductive expr :=
| EConst (c : const)
| EName (s : string)                                      (* a global / builtin / literal name *)
| EVar (i : nat)                                          (* fickling's own variable _var<i> *)
| ETuple (l : list expr)
| ENode (i : nat)                                         (* ast.List / ast.Set / ast.Dict object *)
| ECall (f : expr) (args : list expr) (kw : option expr)  (* kw: **kwargs of NEWOBJ_EX *)
| EStarred (e : expr)
| EAttr (e : expr) (a : string)
| ESetLit (l : list expr)                                 (* immutable set display (FROZENSET) *)
| EDictLit (kvs : list (expr * expr)).                    (* dict display that is not a node (no longer emitted) *)

Inductive node :=
| NList (l : list expr)
| NSet (l : list expr)
| NDict (kvs : list (expr * expr)).

Inductive item :=
| IMark
| IE (e : expr).

Inductive stmt :=
| SImport (m n : string)                 (* from m import n *)
| SAssignV (i : nat) (e : expr)          (* _var<i> = e *)
| SResult (e : expr)                     (* result = e *)
| SSetItemV (i : nat) (k e : expr)       (* _var<i>[k] = e *)
| SExpr (e : expr).                      (* e *)

Record fk := mkFk {
  stack : list item;            (* top first *)
  memo : list (Z * expr);       (* one entry per key *)
  nodes : list node;            (* node i = nth i *)
  body : list stmt;             (* newest first *)
  ctr : nat;                    (* _var counter *)
  stopped : bool
}.

Definition fk_init (first_var : nat) : fk :=
  mkFk [] [] [] [] first_var false.

Definition var_name (n : nat) : string := "_var" ++ nat_to_string n.

(* ---- memo as a Python dict: assignment replaces, len counts keys ---- *)
Fixpoint memo_remove {A} (k : Z) (m : list (Z * A)) : list (Z * A) :=
  match m with
  | [] => []
  | (k', v) :: r => if Z.eqb k k' then memo_remove k r else (k', v) :: memo_remove k r
  end.
Definition memo_put {A} (k : Z) (v : A) (m : list (Z * A)) : list (Z * A) := (k, v) :: memo_remove k m.
Fixpoint memo_get {A} (k : Z) (m : list (Z * A)) : option A :=
  match m with
  | [] => None
  | (k', v) :: r => if Z.eqb k k' then Some v else memo_get k r
  end.

(* ---- stack primitives ---- *)
Definition with_stack (s : fk) (st : list item) : fk :=
  mkFk st (memo s) (nodes s) (body s) (ctr s) (stopped s).
Definition push (e : expr) (s : fk) : fk := with_stack s (IE e :: stack s).

(* pop a value; a MarkObject consumed as a value is outside the model (the VM rejects there) *)
Definition pop_val (s : fk) : res (expr * fk) :=
  match stack s with
  | [] => Err EIndex
  | IMark :: _ => Err EUnmodelled
  | IE e :: r => Ok (e, with_stack s r)
  end.

(* pop everything above the topmost mark, and the mark; result is bottom-first *)
Fixpoint split_mark (st : list item) (acc : list expr) : res (list expr * list item) :=
  match st with
  | [] => Err EValue                       (* "Exhausted the stack while searching for a MarkObject!" *)
  | IMark :: r => Ok (acc, r)
  | IE e :: r => split_mark r (e :: acc)
  end.
Definition pop_slice (s : fk) : res (list expr * fk) :=
  do '(items, r) <- split_mark (stack s) [];
  Ok (items, with_stack s r).

Definition top_val (s : fk) : res expr :=
  match stack s with
  | [] => Err EIndex
  | IMark :: _ => Err EUnmodelled
  | IE e :: _ => Ok e
  end.

(* ---- nodes ---- *)
Definition alloc (n : node) (s : fk) : nat * fk :=
  (List.length (nodes s), mkFk (stack s) (memo s) (nodes s ++ [n]) (body s) (ctr s) (stopped s)).

Fixpoint set_nth {A} (i : nat) (x : A) (l : list A) : list A :=
  match l, i with
  | [], _ => []
  | _ :: r, O => x :: r
  | y :: r, S j => y :: set_nth j x r
  end.
Definition set_node (i : nat) (n : node) (s : fk) : fk :=
  mkFk (stack s) (memo s) (set_nth i n (nodes s)) (body s) (ctr s) (stopped s).
Definition get_node (i : nat) (s : fk) : option node := nth_error (nodes s) i.

(* ---- module body ---- *)
Definition emit (st : stmt) (s : fk) : fk :=
  mkFk (stack s) (memo s) (nodes s) (st :: body s) (ctr s) (stopped s).
Definition new_variable (e : expr) (s : fk) : nat * fk :=
  (ctr s, mkFk (stack s) (memo s) (nodes s) (SAssignV (ctr s) e :: body s) (S (ctr s)) (stopped s)).

Definition is_builtins (m : string) : bool := mem_str m builtins_modules.

(* plain identifiers only: no space (GLOBAL's arg is split on ' ') and non-empty *)
Fixpoint has_space (s : string) : bool :=
  match s with
  | EmptyString => false
  | String c r => if Ascii.eqb c " "%char then true else
                  if Ascii.eqb c "010"%char then true else has_space r
  end.
Definition plain (s : string) : bool := negb (has_space s) && negb (s =? "").

Definition emit_import (m n : string) (s : fk) : fk :=
  if is_builtins m then s else emit (SImport m n) s.

Fixpoint pairs_of (l : list expr) : list (expr * expr) :=
  match l with
  | k :: v :: r => (k, v) :: pairs_of r
  | _ => []
  end.

Definition call_with (f args : expr) (kw : option expr) : expr :=
  match args with
  | ETuple l => ECall f l kw
  | _ => ECall f [EStarred args] kw
  end.

Definition bind_call (call : expr) (s : fk) : fk :=
  let '(v, s1) := new_variable call s in push (EVar v) s1.

Definition step (o : op) (s : fk) : res fk :=
  match o with
  | OConst c => Ok (push (EConst c) s)
  | OMark => Ok (with_stack s (IMark :: stack s))
  | OStop =>
      do '(e, s1) <- pop_val s;
      Ok (mkFk (stack s1) (memo s1) (nodes s1) (SResult e :: body s1) (ctr s1) true)
  | OPop =>
      match stack s with
      | [] => Err EIndex
      | _ :: r => Ok (with_stack s r)
      end
  | OPopMark => do '(_, s1) <- pop_slice s; Ok s1
  | ODup => do e <- top_val s; Ok (push e s)
  | OEmptyList => let '(i, s1) := alloc (NList []) s in Ok (push (ENode i) s1)
  | OEmptyDict => let '(i, s1) := alloc (NDict []) s in Ok (push (ENode i) s1)
  | OEmptySet => let '(i, s1) := alloc (NSet []) s in Ok (push (ENode i) s1)
  | OEmptyTuple => Ok (push (ETuple []) s)
  | OAppend =>
      do '(v, s1) <- pop_val s;
      match stack s1 with
      | [] => Err EIndex
      | IE (ENode i) :: _ =>
          match get_node i s1 with
          | Some (NList l) => Ok (set_node i (NList (l ++ [v])) s1)
          | _ => Err EValue
          end
      | _ => Err EValue
      end
  | OAppends =>
      do '(items, s1) <- pop_slice s;
      match stack s1 with
      | [] => Err EIndex
      | IE (ENode i) :: _ =>
          match get_node i s1 with
          | Some (NList l) => Ok (set_node i (NList (l ++ items)) s1)
          | _ => Err EValue
          end
      | _ => Err EValue
      end
  | OList =>
      do '(items, s1) <- pop_slice s;
      let '(i, s2) := alloc (NList items) s1 in Ok (push (ENode i) s2)
  | OTuple => do '(items, s1) <- pop_slice s; Ok (push (ETuple items) s1)
  | OTuple1 => do '(a, s1) <- pop_val s; Ok (push (ETuple [a]) s1)
  | OTuple2 =>
      do '(b, s1) <- pop_val s; do '(a, s2) <- pop_val s1; Ok (push (ETuple [a; b]) s2)
  | OTuple3 =>
      do '(c, s1) <- pop_val s; do '(b, s2) <- pop_val s1; do '(a, s3) <- pop_val s2;
      Ok (push (ETuple [a; b; c]) s3)
  | ODict =>
      do '(items, s1) <- pop_slice s;
      if Nat.even (List.length items) then
        let '(i, s2) := alloc (NDict (pairs_of items)) s1 in Ok (push (ENode i) s2)
      else Err EValue
  | OSetItem =>
      do '(v, s1) <- pop_val s; do '(k, s2) <- pop_val s1; do '(d, s3) <- pop_val s2;
      match d with
      | ENode i =>
          match get_node i s3 with
          | Some (NDict kvs) => Ok (push d (set_node i (NDict (kvs ++ [(k, v)])) s3))
          | _ => let '(name, s4) := new_variable d s3 in
                 Ok (push (EVar name) (emit (SSetItemV name k v) s4))
          end
      | _ => let '(name, s4) := new_variable d s3 in
             Ok (push (EVar name) (emit (SSetItemV name k v) s4))
      end
  | OSetItems =>
      do '(items, s1) <- pop_slice s; do '(d, s2) <- pop_val s1;
      let upd := pairs_of items in
      (* target is not a dict display: one `_var[k] = v` per pair, in order, as the VM performs them *)
      let other :=
        let '(name, s3) := new_variable d s2 in
        Ok (push (EVar name)
              (fold_left (fun st kv => emit (SSetItemV name (fst kv) (snd kv)) st) upd s3)) in
      match d with
      | ENode i =>
          match get_node i s2 with
          | Some (NDict kvs) => Ok (push d (set_node i (NDict (kvs ++ upd)) s2))
          | _ => other
          end
      | _ => other
      end
  | OAddItems =>
      do '(items, s1) <- pop_slice s;
      match stack s1 with
      | [] => Err EValue
      | IE (ENode i) :: _ =>
          match get_node i s1 with
          | Some (NSet l) => Ok (set_node i (NSet (l ++ items)) s1)
          | _ => Err EValue
          end
      | _ => Err EValue
      end
  | OFrozenSet =>
      do '(items, s1) <- pop_slice s;
      Ok (push (ECall (EName "frozenset") [ESetLit items] None) s1)
  | OGlobal m n =>
      if plain m && plain n then Ok (push (EName n) (emit_import m n s)) else Err EUnmodelled
  | OStackGlobal =>
      do '(a, s1) <- pop_val s; do '(m, s2) <- pop_val s1;
      match m, a with
      | EConst (CStr ms), EConst (CStr ns) =>
          if plain ms && plain ns then Ok (push (EName ns) (emit_import ms ns s2))
          else Err EUnmodelled
      | _, _ => Err EUnmodelled
      end
  | OInst m n =>
      do '(items, s1) <- pop_slice s;
      if plain m && plain n then
        Ok (bind_call (ECall (EName n) items None) (emit_import m n s1))
      else Err EUnmodelled
  | OObj =>
      do '(items, s1) <- pop_slice s;
      match items with
      | [] => Err EIndex
      | k :: args => Ok (bind_call (ECall k args None) s1)
      end
  | ONewObj =>
      do '(args, s1) <- pop_val s; do '(c, s2) <- pop_val s1;
      Ok (bind_call (call_with c args None) s2)
  | ONewObjEx =>
      do '(kw, s1) <- pop_val s; do '(args, s2) <- pop_val s1; do '(c, s3) <- pop_val s2;
      Ok (bind_call (call_with c args (Some kw)) s3)
  | OReduce =>
      do '(args, s1) <- pop_val s; do '(f, s2) <- pop_val s1;
      Ok (bind_call (call_with f args None) s2)
  | OBuild =>
      do '(st, s1) <- pop_val s; do '(obj, s2) <- pop_val s1;
      let '(name, s3) := new_variable obj s2 in
      Ok (push (EVar name)
            (emit (SExpr (ECall (EAttr (EVar name) "__setstate__") [st] None)) s3))
  | OBinPersId =>
      do '(pid, s1) <- pop_val s;
      Ok (bind_call (ECall (EAttr (EName "UNPICKLER") "persistent_load") [pid] None) s1)
  | OPut k =>
      do e <- top_val s;
      Ok (mkFk (stack s) (memo_put k e (memo s)) (nodes s) (body s) (ctr s) (stopped s))
  | OGet k =>
      match memo_get k (memo s) with
      | Some e => Ok (push e s)
      | None => Err EKey
      end
  | OMemoize =>
      do e <- top_val s;
      Ok (mkFk (stack s) (memo_put (Z.of_nat (List.length (memo s))) e (memo s)) (nodes s)
               (body s) (ctr s) (stopped s))
  | ONoop => Ok s
  | ONoRun => Err ENotImpl
  end.

(* Interpreter.run: step until STOP (later opcodes are never executed) or the end of the list *)
Fixpoint run_from (p : list op) (s : fk) : res fk :=
  match p with
  | [] => Ok s
  | o :: r => if stopped s then Ok s else do s1 <- step o s; run_from r s1
  end.
Definition run (p : list op) : res fk := run_from p (fk_init 0).

(* every state after each executed opcode (for stepping / tracing) *)
Fixpoint trace_from (p : list op) (s : fk) : list (res fk) :=
  match p with
  | [] => []
  | o :: r => if stopped s then [] else
              match step o s with
              | Ok s1 => Ok s1 :: trace_from r s1
              | Err e => [Err e]
              end
  end.

(* tracing.Trace.run: the same stepping loop, reporting every executed opcode *)
Fixpoint traced_from (p : list op) (s : fk) : res (list op * fk) :=
  match p with
  | [] => Ok ([], s)
  | o :: r => if stopped s then Ok ([], s) else
              do s1 <- step o s; do '(l, s2) <- traced_from r s1; Ok (o :: l, s2)
  end.
