From Coq Require Import List String.
From Verif Require Import Base Dispatch DispatchEffects.
Import ListNotations.
Open Scope string_scope.

Definition handle (s : sexp) : string :=
  match s with
  | SList (Atom cmd :: args) =>
      match handle_sev cmd args with
      | Some r => r
      | None =>
      match handle_effects cmd args with
      | Some r => r
      | None => "!unknown-or-malformed " ++ cmd
      end
      end
  | _ => "!malformed"
  end.
