From Coq Require Import List String.
From Verif Require Import Base Dispatch DispatchHooks DispatchAllowlist DispatchMLNest.
Import ListNotations.
Open Scope string_scope.

Definition handle (s : sexp) : string :=
  match s with
  | SList (Atom cmd :: args) =>
      match handle_sev cmd args with
      | Some r => r
      | None =>
      match handle_hooks cmd args with
      | Some r => r
      | None =>
      match handle_allow cmd args with
      | Some r => r
      | None =>
      match handle_mlnest cmd args with
      | Some r => r
      | None => "!unknown-or-malformed " ++ cmd
      end
      end
      end
      end
  | _ => "!malformed"
  end.
