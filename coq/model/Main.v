From Coq Require Import List String.
From Verif Require Import Base Dispatch DispatchVM DispatchPoly DispatchTorch DispatchCodec DispatchAnalysis
  DispatchHooks DispatchAllowlist DispatchMLNest DispatchEffects
  DispatchCli
  DispatchInject
  DispatchLoader
  DispatchConst
  DispatchCache
  DispatchPyEval.
Import ListNotations.
Open Scope string_scope.

(* every Dispatch*.v contributes one handler; the first that recognises the command answers *)
Definition handlers : list (string -> list sexp -> option string) :=
  [handle_sev; handle_vm; handle_poly; handle_torch; handle_codec; handle_analysis;
   handle_hooks; handle_allow; handle_mlnest; handle_effects;
   handle_cli;
   handle_inject;
   handle_loader;
   handle_const;
   handle_cache;
   handle_pyeval].

Fixpoint first_some (hs : list (string -> list sexp -> option string)) (cmd : string)
         (args : list sexp) : option string :=
  match hs with
  | [] => None
  | h :: r => match h cmd args with Some x => Some x | None => first_some r cmd args end
  end.

Definition handle (s : sexp) : string :=
  match s with
  | SList (Atom cmd :: args) =>
      match first_some handlers cmd args with
      | Some r => r
      | None => "!unknown-or-malformed " ++ cmd
      end
  | _ => "!malformed"
  end.
