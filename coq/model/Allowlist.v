(* Model of fickling.ml's allowlist state (C11, used by C12 / C07 through [spec_permits]).

   ML_ALLOWLIST is a module-level dict  module -> inner dict (name -> message).  Python dicts are
   references, so the inner dicts live in a HEAP of cells and the outer dict maps a module to a
   cell id: two outer dicts may SHARE a cell.  FicklingMLUnpickler.__init__ (ml.py) builds the
   per-instance allowlist from the module-level table and then applies [also_allow]:

       self.allowlist = <copy of ML_ALLOWLIST>
       for allowed_import in also_allow:
           module, name = allowed_import.rsplit(".", 1)
           if module in self.allowlist: self.allowlist[module][name] = "Import explicitly allowed by user"
           else:                        self.allowlist[module] = {name: "Import explicit..."}

   Two variants of the copy are modelled:
     copy_shallow = dict(ML_ALLOWLIST)                              (pinned tree: inner dicts shared, defect D4)
     copy_deep    = {k: dict(v) for k, v in ML_ALLOWLIST.items()}   (the proposed fix)
   The differential check decides which one the code implements; the theorems are about copy_deep,
   the refutation witnesses about copy_shallow.

   An addition is a (module, name) pair = the result of rsplit(".", 1), done by the harness.
   Executable definitions only. *)
From Coq Require Import List String Bool Arith.
From Verif Require Import Base MLTable.
Import ListNotations.
Open Scope string_scope.
Open Scope list_scope.

Definition gname := (string * string)%type.   (* (module, name) exactly as find_class receives them *)

Definition gname_eqb (a b : gname) : bool :=
  String.eqb (fst a) (fst b) && String.eqb (snd a) (snd b).

Fixpoint mem_g (g : gname) (l : list gname) : bool :=
  match l with
  | [] => false
  | x :: r => if gname_eqb g x then true else mem_g g r
  end.

(* ---- the reference ("two-variable model"): BASE and the current additions ---- *)
Definition in_base (g : gname) : bool :=
  match assoc_str (fst g) ml_allowlist with
  | Some names => mem_str (snd g) names
  | None => false
  end.

Definition spec_permits (adds : list gname) (g : gname) : bool := in_base g || mem_g g adds.

(* ---- the heap model ---- *)
Definition item := (string * bool)%type.   (* name -> is the message the user-addition message? *)
Definition cell := list item.              (* an inner dict, insertion ordered *)
Definition heap := list cell.              (* cell id = position *)
Definition odict := list (string * nat).   (* an outer dict: module -> cell id *)

Definition cell_at (h : heap) (c : nat) : cell := nth c h [].

Fixpoint mem_key (n : string) (c : cell) : bool :=
  match c with
  | [] => false
  | (k, _) :: r => if String.eqb n k then true else mem_key n r
  end.

(* d[n] = v : replace in place when the key exists, else append *)
Fixpoint dict_set (c : cell) (n : string) (v : bool) : cell :=
  match c with
  | [] => [(n, v)]
  | (k, w) :: r => if String.eqb n k then (k, v) :: r else (k, w) :: dict_set r n v
  end.

Fixpoint heap_upd (h : heap) (i : nat) (f : cell -> cell) : heap :=
  match h, i with
  | [], _ => []
  | c :: r, 0 => f c :: r
  | c :: r, S j => c :: heap_upd r j f
  end.

Inductive copy_mode := copy_shallow | copy_deep.

(* {k: dict(v) for k, v in table.items()} : a fresh cell per module *)
Fixpoint deep_copy (h : heap) (o : odict) : heap * odict :=
  match o with
  | [] => (h, [])
  | (m, c) :: r =>
      let '(h2, o2) := deep_copy (h ++ [cell_at h c]) r in
      (h2, (m, List.length h) :: o2)
  end.

Definition user_msg := true.

(* one iteration of the also_allow loop *)
Definition add_one (ho : heap * odict) (g : gname) : heap * odict :=
  let '(h, o) := ho in
  match assoc_str (fst g) o with
  | Some c => (heap_upd h c (fun cl => dict_set cl (snd g) user_msg), o)
  | None => (h ++ [[(snd g, user_msg)]], o ++ [(fst g, List.length h)])
  end.

(* FicklingMLUnpickler.__init__ : returns the heap afterwards and the instance's outer dict *)
Definition new_unpickler (mode : copy_mode) (h : heap) (table : odict) (adds : list gname)
  : heap * odict :=
  fold_left add_one adds
    (match mode with
     | copy_shallow => (h, table)          (* dict(ML_ALLOWLIST): new outer dict, same cells *)
     | copy_deep => deep_copy h table
     end).

(* FicklingMLUnpickler.find_class's test *)
Definition permits (h : heap) (o : odict) (g : gname) : bool :=
  match assoc_str (fst g) o with
  | Some c => mem_key (snd g) (cell_at h c)
  | None => false
  end.

Record st := mkSt {
  hp : heap;
  tbl : odict;                      (* the module-level ML_ALLOWLIST *)
  active : option (list gname);     (* also_allow captured by the closures currently installed *)
  insts : list odict                (* unpickler instances constructed directly and still alive *)
}.

Definition base_item (n : string) : item := (n, false).
Definition init_heap : heap := map (fun mn => map base_item (snd mn)) ml_allowlist.
Definition init_tbl : odict := combine (map fst ml_allowlist) (seq 0 (List.length ml_allowlist)).
Definition init : st := mkSt init_heap init_tbl None [].

Inductive op :=
| Activate (adds : list gname)      (* hook.activate_safe_ml_environment(also_allow=adds) *)
| Deactivate                        (* hook.deactivate_safe_ml_environment() *)
| Construct (adds : list gname)     (* FicklingMLUnpickler(file, also_allow=adds), kept alive *)
| Probe (g : gname)                 (* pickle.loads(<pickle resolving g>) *)
| ProbeInst (i : nat) (g : gname).  (* instance_i.find_class(g) *)

(* a probe load through the hooked pickle.loads builds a FRESH instance from the closure's adds *)
Definition step (mode : copy_mode) (s : st) (o : op) : st :=
  match o with
  | Activate adds => mkSt (hp s) (tbl s) (Some adds) (insts s)
  | Deactivate => mkSt (hp s) (tbl s) None (insts s)
  | Construct adds =>
      let '(h, od) := new_unpickler mode (hp s) (tbl s) adds in
      mkSt h (tbl s) (active s) (insts s ++ [od])
  | Probe _ =>
      match active s with
      | Some adds =>
          let '(h, _) := new_unpickler mode (hp s) (tbl s) adds in
          mkSt h (tbl s) (active s) (insts s)
      | None => s
      end
  | ProbeInst _ _ => s
  end.

Inductive verdict :=
| Unmediated          (* no environment active: the stock pickle.loads resolves anything *)
| Allowed
| Blocked
| NoSuchInstance.

Definition of_bool (b : bool) : verdict := if b then Allowed else Blocked.

(* what the operation itself shows *)
Definition observe (mode : copy_mode) (s : st) (o : op) : option verdict :=
  match o with
  | Probe g =>
      match active s with
      | Some adds =>
          let '(h, od) := new_unpickler mode (hp s) (tbl s) adds in
          Some (of_bool (permits h od g))
      | None => Some Unmediated
      end
  | ProbeInst i g =>
      match nth_error (insts s) i with
      | Some od => Some (of_bool (permits (hp s) od g))
      | None => Some NoSuchInstance
      end
  | _ => None
  end.

Fixpoint run (mode : copy_mode) (s : st) (h : list op) : st :=
  match h with
  | [] => s
  | o :: r => run mode (step mode s o) r
  end.

(* deep snapshot of the module-level table *)
Definition table_view (s : st) : list (string * cell) :=
  map (fun mc => (fst mc, cell_at (hp s) (snd mc))) (tbl s).

(* the history-level reference: additions of the activation currently in force *)
Fixpoint current_adds (cur : option (list gname)) (h : list op) : option (list gname) :=
  match h with
  | [] => cur
  | Activate a :: r => current_adds (Some a) r
  | Deactivate :: r => current_adds None r
  | _ :: r => current_adds cur r
  end.

(* additions the i-th constructed instance was given *)
Fixpoint constructed (h : list op) : list (list gname) :=
  match h with
  | [] => []
  | Construct a :: r => a :: constructed r
  | _ :: r => constructed r
  end.

(* ---- wire ---- *)
Definition show_verdict (v : verdict) : string :=
  match v with Unmediated => "U" | Allowed => "A" | Blocked => "B" | NoSuchInstance => "N" end.

Fixpoint cell_eqb (a b : cell) : bool :=
  match a, b with
  | [], [] => true
  | (k, v) :: r, (k', v') :: r' => String.eqb k k' && Bool.eqb v v' && cell_eqb r r'
  | _, _ => false
  end.

Fixpoint view_eqb (a b : list (string * cell)) : bool :=
  match a, b with
  | [], [] => true
  | (m, c) :: r, (m', c') :: r' => String.eqb m m' && cell_eqb c c' && view_eqb r r'
  | _, _ => false
  end.

(* modules of the table whose inner dict differs from the built-in one, with the user-added names *)
Definition table_delta (s : st) : list (string * list string) :=
  flat_map (fun mc =>
    let c := cell_at (hp s) (snd mc) in
    let user := map fst (filter (fun it => snd it) c) in
    match user with [] => [] | _ => [(fst mc, user)] end) (tbl s).
