(* Wire commands of the Const model (C15).
   values:  (i <dec>) (b T|F) (f <dec bits>) (s h<utf8>) (y h<bytes>) (l v ...) (d (k v) ...) (o)
     (c15_new   v)            -> <Class> <arg> <h<bytes>|E:<exc>>          | E:<exc>
     (c15_build v)            -> ops=<Class,...> <h<bytes>|E:<exc>> back=<value|E:<exc>>  | E:<exc>
     (c15_enc   <Class> v)    -> <h<bytes>|E:<exc>> tok=<NAME>:<garg>:<restlen>|E:<exc> match=<T|F>
     (c15_create h<src>)      -> h<bytes> | E:<exc>
     (c15_loads h<bytes>)     -> <value> | E:<exc> *)
From Coq Require Import List String Ascii ZArith NArith Bool Arith.
From Coq.Strings Require Import Byte.
From Verif Require Import Base Dispatch Codec DispatchCodec ConstTable Const.
Import ListNotations.
Open Scope string_scope.

Fixpoint pv_of_sexp (s : sexp) : option pv :=
  match s with
  | SList [Atom "i"; Atom z] => match z_of_string z with Some x => Some (PInt x) | None => None end
  | SList [Atom "b"; Atom t] => if t =? "T" then Some (PBool true)
                                else if t =? "F" then Some (PBool false) else None
  | SList [Atom "f"; Atom z] => match z_of_string z with Some x => Some (PFloat (Z.to_N x)) | None => None end
  | SList [Atom "s"; h] => match bytes_of_wire h with Some b => Some (PStr b) | None => None end
  | SList [Atom "y"; h] => match bytes_of_wire h with Some b => Some (PBytes b) | None => None end
  | SList [Atom "o"] => Some POther
  | SList (Atom "l" :: items) =>
      match (fix go (l : list sexp) : option (list pv) :=
               match l with
               | [] => Some []
               | x :: r => match pv_of_sexp x, go r with
                           | Some a, Some t => Some (a :: t)
                           | _, _ => None
                           end
               end) items with
      | Some l => Some (PList l)
      | None => None
      end
  | SList (Atom "d" :: items) =>
      match (fix go (l : list sexp) : option (list (pv * pv)) :=
               match l with
               | [] => Some []
               | SList [k; x] :: r => match pv_of_sexp k, pv_of_sexp x, go r with
                                      | Some a, Some b, Some t => Some ((a, b) :: t)
                                      | _, _, _ => None
                                      end
               | _ => None
               end) items with
      | Some l => Some (PDict l)
      | None => None
      end
  | _ => None
  end.

Fixpoint show_pv (v : pv) : string :=
  match v with
  | PInt z => "i" ++ z_to_string z
  | PBool b => "b" ++ show_bool b
  | PFloat x => "f" ++ n_to_string x
  | PStr s => "s" ++ wire_of_bytes s
  | PBytes s => "y" ++ wire_of_bytes s
  | PList l => "l[" ++ String.concat "," (map show_pv l) ++ "]"
  | PDict kvs => "d[" ++ String.concat "," (map (fun kv => show_pv (fst kv) ++ ":" ++ show_pv (snd kv)) kvs) ++ "]"
  | POther => "o"
  end.

Definition show_garg (g : garg) : string :=
  match g with
  | GNone => "none"
  | GInt z => "i" ++ z_to_string z
  | GBool b => "b" ++ show_bool b
  | GFloat x => "f" ++ n_to_string x
  | GText s => "s" ++ wire_of_bytes s
  | GBytes s => "y" ++ wire_of_bytes s
  end.

Definition show_cerr (e : cerr) : string := "E:" ++ cerr_name e.

Definition show_bytes_res (r : cres (list byte)) : string :=
  match r with COk b => wire_of_bytes b | CErr e => show_cerr e end.

Definition show_pv_res (r : cres pv) : string :=
  match r with COk v => show_pv v | CErr e => show_cerr e end.

Definition cop_name (o : cop) : string :=
  match o with OConst c _ => c_cls c | OPlain n => n end.

Definition show_new (v : pv) : string :=
  match const_new v with
  | CErr e => show_cerr e
  | COk (c, a) => String.concat " " [c_cls c; show_pv a; show_bytes_res (encode c a)]
  end.

Definition show_build (v : pv) : string :=
  match enc_obj v with
  | CErr e => show_cerr e
  | COk ops =>
      let bs := dumps_cops ops in
      String.concat " "
        ["ops=" ++ String.concat "," (map cop_name ops);
         show_bytes_res bs;
         "back=" ++ match bs with
                    | COk b => show_pv_res (loads (b ++ [stop_byte]))
                    | CErr _ => "-"
                    end]
  end.

Definition show_enc (cls : string) (v : pv) : string :=
  match find_class cls with
  | None => "E:no-such-class"
  | Some c =>
      let bs := encode c v in
      match bs with
      | CErr e => show_cerr e
      | COk b =>
          match genops1 b with
          | CErr e => String.concat " " [wire_of_bytes b; "tok=" ++ show_cerr e; "match=F"]
          | COk ((n, g), rest) =>
              String.concat " "
                [wire_of_bytes b;
                 "tok=" ++ n ++ ":" ++ show_garg g ++ ":" ++ nat_to_string (List.length rest);
                 "match=" ++ show_bool (String.eqb n (c_op c) && garg_matches v g
                                        && Nat.eqb (List.length rest) 0)]
          end
      end
  end.

Definition handle_const (cmd : string) (args : list sexp) : option string :=
  if cmd =? "c15_new" then
    match args with
    | [v] => match pv_of_sexp v with Some x => Some (show_new x) | None => None end
    | _ => None
    end
  else if cmd =? "c15_build" then
    match args with
    | [v] => match pv_of_sexp v with Some x => Some (show_build x) | None => None end
    | _ => None
    end
  else if cmd =? "c15_enc" then
    match args with
    | [Atom c; v] => match pv_of_sexp v with Some x => Some (show_enc c x) | None => None end
    | _ => None
    end
  else if cmd =? "c15_create" then
    match args with
    | [h] => match bytes_of_wire h with Some b => Some (show_bytes_res (cli_create b)) | None => None end
    | _ => None
    end
  else if cmd =? "c15_loads" then
    match args with
    | [h] => match bytes_of_wire h with Some b => Some (show_pv_res (loads b)) | None => None end
    | _ => None
    end
  else None.
