(* wire commands: decompiled text and safety analysis of a program *)
From Coq Require Import List String ZArith Bool Arith.
From Verif Require Import Base Ops Interp Unparse Severity Analysis ShowVM.
Import ListNotations.
Open Scope string_scope.

Definition reprs_of_sexp (s : sexp) : option (list (const * string)) :=
  match s with
  | SList l =>
      (fix go (l : list sexp) : option (list (const * string)) :=
         match l with
         | [] => Some []
         | SList [c; Atom t] :: r =>
             match const_of_sexp c, string_of_wire t, go r with
             | Some c', Some t', Some rest => Some ((c', t') :: rest)
             | _, _, _ => None
             end
         | _ => None
         end) l
  | _ => None
  end.

Definition strs_of_sexp (s : sexp) : option (list string) :=
  match s with
  | SList l =>
      (fix go (l : list sexp) : option (list string) :=
         match l with
         | [] => Some []
         | Atom a :: r => match string_of_wire a, go r with
                          | Some x, Some rest => Some (x :: rest)
                          | _, _ => None
                          end
         | _ => None
         end) l
  | _ => None
  end.

Definition protos_of_sexp (s : sexp) : option (list (nat * Z)) :=
  match s with
  | SList l =>
      (fix go (l : list sexp) : option (list (nat * Z)) :=
         match l with
         | [] => Some []
         | SList [Atom i; Atom v] :: r =>
             match z_of_string i, z_of_string v, go r with
             | Some i', Some v', Some rest => Some ((Z.to_nat i', v') :: rest)
             | _, _, _ => None
             end
         | _ => None
         end) l
  | _ => None
  end.

Definition show_finding (f : finding) : string :=
  par [f_analysis f; f_sev f; wire_of_string (f_trigger f)].

Definition show_analysis (r : option (list finding)) : string :=
  match r with
  | None => "UNKNOWN-ANALYSIS"
  | Some fs => sev_name (verdict fs) ++ " " ++ sp (ssort_dup (map show_finding fs))
  end.

(* canonical text of a JSON value: strings in hex, dict entries sorted *)
Fixpoint show_json (j : json) : string :=
  match j with
  | JStr s => wire_of_string s
  | JInt z => "i" ++ z_to_string z
  | JList l => par ("L" :: map show_json l)
  | JDict kvs => par ("D" :: ssort_dup (map (fun kv => par [wire_of_string (fst kv); show_json (snd kv)]) kvs))
  | JOpaque w => par ["OPAQUE"; wire_of_string w]
  end.

Definition show_trigger (t : trigger) : string :=
  match t with TNone => "NONE" | _ => show_json (json_of_trigger t) end.

(* one finding with everything the report is made of *)
Definition show_finding_full (f : finding) : string :=
  par [f_analysis f; f_sev f;
       match f_msg f with Some m => wire_of_string m | None => "NOMSG" end;
       show_trigger (f_trig f)].

Definition show_outcome (o : load_outcome) : string :=
  match o with Loaded => "LOADED" | Unsafe info => "UNSAFE " ++ show_json info end.

(* Interpreter.unused_assignments returns `defined - used`, a Python set: the order in which the
   UnusedVariables findings come out is the set's iteration order (string hashes), which the harness
   observes and passes in; everything else is in program order *)
Definition is_unused_finding (f : finding) : bool := fst (f_site f) =? "UnusedVariables".
Definition unused_var_of (f : finding) : string :=
  match f_trig f with TTuple (BStr v :: _) => v | _ => "" end.
Fixpoint take_while {A} (p : A -> bool) (l : list A) : list A :=
  match l with [] => [] | x :: r => if p x then x :: take_while p r else [] end.
Fixpoint drop_while {A} (p : A -> bool) (l : list A) : list A :=
  match l with [] => [] | x :: r => if p x then drop_while p r else l end.
Definition reorder_unused (order : list string) (fs : list finding) : list finding :=
  let notu := fun f => negb (is_unused_finding f) in
  let pre := take_while notu fs in
  let rest := drop_while notu fs in
  let us := take_while is_unused_finding rest in
  let post := drop_while is_unused_finding rest in
  let picked := flat_map (fun v => filter (fun f => unused_var_of f =? v) us) order in
  let others := filter (fun f => negb (mem_str (unused_var_of f) order)) us in
  pre ++ picked ++ others ++ post.

(* verdict | findings | to_dict() | what check_safety writes to json_output_path | loader.load outcome *)
Definition show_report (r : option (list finding)) : string :=
  match r with
  | None => "UNKNOWN-ANALYSIS"
  | Some fs =>
      sev_name (verdict fs) ++ " | " ++ sp (ssort_dup (map show_finding_full fs))
        ++ " | " ++ show_json (to_dict default_verbosity fs)
        ++ " | " ++ show_json (json_file fs)
        ++ " | " ++ show_outcome (loader LIKELY_SAFE fs)
        (* the report at EVERY verbosity (Severity members in definition order) *)
        ++ " | " ++ String.concat " ; " (map (fun v => show_json (to_dict v fs)) (seq 0 nsev))
  end.

Definition handle_analysis (cmd : string) (args : list sexp) : option string :=
  if cmd =? "unparse" then
    match args with
    | [SList l; reprs; Atom rn] =>
        match ops_of_sexps l, reprs_of_sexp reprs, string_of_wire rn with
        | Some p, Some tbl, Some rname =>
            Some (match run p with
                  | Ok s => "OK " ++ wire_of_string (unparse_module (lookup_repr tbl) rname s)
                  | Err e => "ERR " ++ err_name e
                  end)
        | _, _, _ => Some "!bad-args"
        end
    | _ => None
    end
  else if cmd =? "analyze" then
    match args with
    | [SList l; protos; stds; reprs] =>
        match ops_of_sexps l, protos_of_sexp protos, strs_of_sexp stds, reprs_of_sexp reprs with
        | Some p, Some pr, Some sl, Some tbl =>
            Some (match run p with
                  | Ok s => "OK " ++ show_analysis (analyze (lookup_repr tbl) (fun m => mem_str m sl) pr s)
                  | Err e => "ERR " ++ err_name e
                  end)
        | _, _, _, _ => Some "!bad-args"
        end
    | _ => None
    end
  else if cmd =? "analyze_with" then
    (* Analyzer([...]) with an explicit list of analyses (e.g. the opt-in ml.MLAllowlist) *)
    match args with
    | [names; SList l; protos; stds; reprs] =>
        match strs_of_sexp names, ops_of_sexps l, protos_of_sexp protos, strs_of_sexp stds, reprs_of_sexp reprs with
        | Some ns, Some p, Some pr, Some sl, Some tbl =>
            Some (match run p with
                  | Ok s => "OK " ++ show_analysis (run_all (lookup_repr tbl) (fun m => mem_str m sl) ns pr s [])
                  | Err e => "ERR " ++ err_name e
                  end)
        | _, _, _, _, _ => Some "!bad-args"
        end
    | _ => None
    end
  else if cmd =? "report" then
    match args with
    | [SList l; protos; stds; reprs; order] =>
        match ops_of_sexps l, protos_of_sexp protos, strs_of_sexp stds, reprs_of_sexp reprs, strs_of_sexp order with
        | Some p, Some pr, Some sl, Some tbl, Some ord =>
            Some (match run p with
                  | Ok s => "OK " ++ show_report
                              (match analyze (lookup_repr tbl) (fun m => mem_str m sl) pr s with
                               | Some fs => Some (reorder_unused ord fs)
                               | None => None
                               end)
                  | Err e => "ERR " ++ err_name e
                  end)
        | _, _, _, _, _ => Some "!bad-args"
        end
    | _ => None
    end
  else None.
