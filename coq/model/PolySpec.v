(* The SPECIFICATION side of C17, written by hand from the documentation (README.md "PyTorch
   polyglots" and the docstring at the top of fickling/polyglot.py) -- it does not mention the
   generated PolyTable.  Definitions only. *)
From Coq Require Import List String Bool.
From Verif Require Import Base Poly.
Import ListNotations.
Open Scope string_scope.

(* Documented zip-based formats with the members the documentation lists for each, in the documented
   precedence (most specific first): TorchScript v1.4 > v1.3 > v1.0 > v1.1 > PyTorch v1.3.
     TorchScript v1.4: ZIP file with data.pkl, constants.pkl, and version
     TorchScript v1.3: ZIP file with data.pkl and constants.pkl
     TorchScript v1.0: ZIP file with model.json
     TorchScript v1.1: ZIP file with model.json and attributes.pkl
     PyTorch v1.3:     ZIP file containing data.pkl *)
Definition doc_zip_table : list (string * list string) :=
  [("TorchScript v1.4", ["data.pkl"; "constants.pkl"; "version"]);
   ("TorchScript v1.3", ["data.pkl"; "constants.pkl"]);
   ("TorchScript v1.0", ["model.json"]);
   ("TorchScript v1.1", ["model.json"; "attributes.pkl"]);
   ("PyTorch v1.3", ["data.pkl"])].

(* the full reporting order: zip formats by precedence, then tar, stacked pickle, model archive *)
Definition precedence : list string :=
  map fst doc_zip_table ++ ["PyTorch v0.1.1"; "PyTorch v0.1.10"; "PyTorch model archive format"].

(* "the zip has a member called m" as recorded in the properties *)
Definition marker (p : props) (m : string) : bool :=
  if m =? "data.pkl" then has_data_pkl p
  else if m =? "constants.pkl" then has_constants_pkl p
  else if m =? "version" then has_version p
  else if m =? "model.json" then has_model_json p
  else if m =? "attributes.pkl" then has_attributes_pkl p
  else false.

(* names the polyglot output may take *)
Definition candidates (out : option string) : list string :=
  match out with
  | Some n => [n]
  | None => ["polyglot.mar.pt"; "polyglot.pt"; "polyglot.mar.tar"]
  end.

Definition is_some {A} (o : option A) : bool := match o with Some _ => true | None => false end.

(* the scratch names create_polyglot uses are not taken, and the output name is none of them nor an input *)
Definition fresh (fs : fsys) (first second : string) (out : option string) : bool :=
  negb (is_some (lookup fs (temp_name first)))
  && negb (is_some (lookup fs (temp_name second)))
  && forallb (fun e => negb (in_tree "temp" (fst e))) fs
  && forallb (fun n => negb (n =? first) && negb (n =? second)
                       && negb (n =? temp_name first) && negb (n =? temp_name second)
                       && negb (in_tree "temp" n)) (candidates out).

(* c is a polyglot built from two contents satisfying K (K = "is the bytes of one of the inputs"):
   either one appended to the other, or one zip extended with the other's constants.pkl and version *)
Definition polyglot_from (K : content -> Prop) (znames : content -> list string) (c : content) : Prop :=
  exists x y, K x /\ K y /\
    (c = Cat x y \/
     exists cp vp, In cp (znames y) /\ In vp (znames y) /\
       ends_with "constants.pkl" cp = true /\ ends_with "version" vp = true /\
       c = ZipAdd x [("constants.pkl", Member y cp); ("version", Member y vp)]).
