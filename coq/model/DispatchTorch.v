(* Wire commands of the Torch model (C16). *)
From Coq Require Import List String Bool.
From Verif Require Import Base Dispatch Poly DispatchPoly Torch.
Import ListNotations.
Open Scope string_scope.

(* (name bytes) *)
Definition as_member (s : sexp) : option member :=
  match s with
  | SList [n; b] =>
      match as_str n, as_str b with
      | Some x, Some y => Some (x, y)
      | _, _ => None
      end
  | _ => None
  end.

Definition as_archive (s : sexp) : option archive := as_list as_member s.

(* (path archive) *)
Definition as_tentry (s : sexp) : option (string * archive) :=
  match s with
  | SList [p; a] =>
      match as_str p, as_archive a with
      | Some x, Some y => Some (x, y)
      | _, _ => None
      end
  | _ => None
  end.

(* the value of the abstract pickle injection is supplied as a finite table (original -> injected) *)
Definition inj_of (tbl : list (string * string)) (b : string) : string :=
  match assoc_str b tbl with
  | Some v => v
  | None => "<no injection supplied for>" ++ b
  end.

Definition handle_torch (cmd : string) (args : list sexp) : option string :=
  if cmd =? "torch_inject" then
    (* fs path out formats force overwrite injtable *)
    match args with
    | [fs; p; o; fm; fo; ov; tb] =>
        match as_list as_tentry fs, as_str p, as_str o, as_str_list fm, as_bool fo, as_bool ov,
              as_list as_member tb with
        | Some fs0, Some path, Some out, Some formats, Some force, Some overwrite, Some tbl =>
            let inj := inj_of tbl in
            let '(oc, fs') := inject_payload inj fs0 path out formats force overwrite in
            let orig := match flookup fs0 path with Some a => a | None => [] end in
            let injected := inject_insertion inj orig in
            Some (show_toutcome oc ++ " "
                  ++ match injected with Some a' => show_archive orig a' | None => "none" end
                  ++ " " ++ show_tfs fs0 injected fs')
        | _, _, _, _, _, _, _ => None
        end
    | _ => None
    end
  else None.
