(* C01 -- effect classes, call graphs as adjacency lists over nat ids, and an executable
   reachability closure.  Executable definitions only; the lemmas are in proofs/EffectsProofs.v.
   The concrete graph (CallGraph.g, regenerated from the live sources on every run) imports this
   file, not the other way round. *)
From Coq Require Import List String Bool Arith.
From Verif Require Import Base.
Import ListNotations.
Local Open Scope nat_scope.

(* what a leaf of the call graph may do to the world *)
Inductive eff :=
| Pure            (* nothing outside the interpreter heap *)
| ReadFixed       (* reads fixed package data / fixed code *)
| ReadInput       (* reads the stream / file the caller handed in *)
| Print           (* writes to stdout / stderr *)
| WriteUserPath   (* writes the report the caller named *)
| Effectful.      (* anything else: exec / import by name / process / network / file system *)

Definition eff_eqb (a b : eff) : bool :=
  match a, b with
  | Pure, Pure | ReadFixed, ReadFixed | ReadInput, ReadInput | Print, Print
  | WriteUserPath, WriteUserPath | Effectful, Effectful => true
  | _, _ => false
  end.

Definition eff_name (e : eff) : string :=
  match e with
  | Pure => "Pure" | ReadFixed => "ReadFixed" | ReadInput => "ReadInput" | Print => "Print"
  | WriteUserPath => "WriteUserPath" | Effectful => "Effectful"
  end.

Definition eff_of_name (s : string) : option eff :=
  if String.eqb s "Pure" then Some Pure
  else if String.eqb s "ReadFixed" then Some ReadFixed
  else if String.eqb s "ReadInput" then Some ReadInput
  else if String.eqb s "Print" then Some Print
  else if String.eqb s "WriteUserPath" then Some WriteUserPath
  else if String.eqb s "Effectful" then Some Effectful
  else None.

Definition all_effs : list eff := [Pure; ReadFixed; ReadInput; Print; WriteUserPath; Effectful].

Fixpoint mem_eff (x : eff) (l : list eff) : bool :=
  match l with
  | [] => false
  | y :: r => if eff_eqb x y then true else mem_eff x r
  end.

(* ---- graphs ---- *)
Definition graph := list (list nat).           (* successors of node i = i-th row *)
Definition succs (g : graph) (n : nat) : list nat := nth n g [].

(* a set of nodes as a bitmap indexed by node id (constant-time-ish membership under vm_compute) *)
Definition inb (bm : list bool) (n : nat) : bool := nth n bm false.

Fixpoint setb (n : nat) (bm : list bool) {struct bm} : list bool :=
  match bm, n with
  | [], _ => []                       (* out of range: not representable, so never a member *)
  | _ :: r, 0 => true :: r
  | b :: r, S k => b :: setb k r
  end.

Definition members (bm : list bool) : list nat := filter (inb bm) (seq 0 (List.length bm)).

(* worklist closure; [fuel] bounds the number of worklist steps *)
Fixpoint closure_go (g : graph) (fuel : nat) (todo : list nat) (seen : list bool) : list bool :=
  match fuel with
  | 0 => seen
  | S k =>
      match todo with
      | [] => seen
      | x :: r => if inb seen x then closure_go g k r seen
                  else closure_go g k (succs g x ++ r) (setb x seen)
      end
  end.

Definition graph_size (g : graph) : nat :=
  fold_right (fun row acc => S (List.length row) + acc) 0 g.

(* every worklist step either discards one pending item or marks one new node, and at most
   |entries| + |edges| items are ever pending, so this fuel suffices; sufficiency is not assumed
   anywhere -- [closed] re-checks the result *)
Definition reachable_closure (g : graph) (entries : list nat) : list bool :=
  closure_go g (S (graph_size g + List.length entries)) entries (repeat false (List.length g)).

(* [X] is closed under successors *)
Definition closed (g : graph) (X : list bool) : bool :=
  forallb (fun n => implb (inb X n) (forallb (inb X) (succs g n))) (seq 0 (List.length g)).

(* effect of a node; a node without an entry in the table is Effectful (fail closed) *)
Definition effect_of (effs : list eff) (n : nat) : eff := nth n effs Effectful.

(* the closure from [entries] is a closed superset of [entries] that avoids the classes in [bad] *)
Definition check_avoid (g : graph) (effs : list eff) (entries : list nat) (bad : list eff) : bool :=
  let X := reachable_closure g entries in
  closed g X && forallb (inb X) entries &&
  forallb (fun n => negb (mem_eff (effect_of effs n) bad)) (members X).

(* the effect classes the call graph predicts for one entry point *)
Definition reach_check (g : graph) (e : nat) : bool :=
  let X := reachable_closure g [e] in closed g X && inb X e.

Definition reach_effects (g : graph) (effs : list eff) (e : nat) : list eff :=
  let X := members (reachable_closure g [e]) in
  filter (fun c => existsb (fun n => eff_eqb (effect_of effs n) c) X) all_effs.

(* an observed abstract trace stays inside what the graph predicts *)
Definition trace_ok (allowed obs : list eff) : bool := forallb (fun o => mem_eff o allowed) obs.

(* the trace alphabet of an inert analysis: everything but Effectful *)
Definition inert_alphabet : list eff := [Pure; ReadFixed; ReadInput; Print; WriteUserPath].

Fixpoint index_of (s : string) (l : list string) (i : nat) : option nat :=
  match l with
  | [] => None
  | x :: r => if String.eqb s x then Some i else index_of s r (S i)
  end.

Fixpoint show_effs (l : list eff) : string :=
  match l with
  | [] => ""
  | [x] => eff_name x
  | x :: r => (eff_name x ++ " " ++ show_effs r)%string
  end.
