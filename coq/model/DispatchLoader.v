(* Wire command of the Loader model (C02) for the correspondence driver.

     (c02_load <arming> <thr> <kind> <off> h<content at parse time> h<content afterwards>
               <decode> <protos> <stds> <reprs> ( <earlier hook operation> ... ) <first parse>)
       arming = direct | hook | ctx       (thr = the threshold argument; ignored by hook, and -- as
                                            in context.py -- by ctx)
       kind   = bytes | seek | nonseek
       decode = none | ( <abstract op> ... )   what pickletools decodes the RE-PARSED opcodes to
                (none = an argument-content ValueError inside Pickled.load)
       first parse = stable           Pickled.load(file) on the parse-time content (Codec.load_model)
                   | (dumps h<D>)     a stream that misbehaves during the parse: Pickled.load(file) returned SOME
                                      opcode list that re-serialises to D (load_core depends on nothing else:
                                      LoaderProofs.core_depends_on_dumps_only)
     -> RET h<bytes unpickled> [<resolve events>] c<calls> r<stream access times>
      | UNPICKLE-ERR h<bytes unpickled> [<resolve events>] c<calls> r..
      | UNSAFE <severity name> r..  | PARSE <class> r..  | ANALYSIS <error> r..  | DUMPS r..
      | UNMODELLED-BINDING

   [unpickle] is instantiated with the reference VM (RefVM, inert stubs) run on the abstract program
   of the parsed opcodes: the event list is what the stock unpickler would resolve / call. *)
From Coq Require Import List String Ascii ZArith NArith Bool Arith.
From Coq.Strings Require Import Byte.
From Verif Require Import Base Hooks Ops Interp RefVM Unparse Codec Analysis Severity Loader
  Dispatch DispatchCodec DispatchAnalysis DispatchHooks.
Import ListNotations.
Open Scope string_scope.

(* last state reached and the error that stopped the run, if any *)
Fixpoint last_state (l : list (res vm)) (acc : vm) : vm * option err :=
  match l with
  | [] => (acc, None)
  | Ok s :: r => last_state r s
  | Err e :: _ => (acc, Some e)
  end.

Definition ref_unpickle (prog : list op) (_ : list byte) : ures val * list event :=
  let '(s, e) := last_state (vtrace_from prog vm_init) vm_init in
  match e with
  | Some x => (URaise (err_name x), rev (log s))
  | None =>
      match vstopped s with
      | Some v => (UVal v, rev (log s))
      | None => (URaise "no-STOP", rev (log s))
      end
  end.

Definition arming_of (a : string) (thr : sev) : option arming :=
  if a =? "direct" then Some (ADirect thr)
  else if a =? "hook" then Some AHook
  else if a =? "ctx" then Some (AContext thr)
  else None.

Definition show_lrun (r : lrun val) : string :=
  let rd := " " ++ show_reads (r_reads r) in
  match r_out r, r_loaded r with
  | Return _, Some bs => "RET " ++ wire_of_bytes bs ++ " " ++ show_events (r_events r) ++ rd
  | Return _, None => "!return-without-load"
  | Raise (XUnpickle _), Some bs =>
      "UNPICKLE-ERR " ++ wire_of_bytes bs ++ " " ++ show_events (r_events r) ++ rd
  | Raise (XUnpickle _), None => "!unpickle-without-load"
  | Raise (XUnsafe info), _ => "UNSAFE " ++ rp_severity info ++ rd
  | Raise (XParse e), _ => "PARSE " ++ show_lerr_class e ++ rd
  | Raise (XAnalysis a), _ => "ANALYSIS " ++ show_aerr a ++ rd
  | Raise (XDumps _), _ => "DUMPS" ++ rd
  end.

Definition handle_loader (cmd : string) (args : list sexp) : option string :=
  if cmd =? "c02_load" then
    match args with
    | [Atom a; thr; k; off; b0; b1; dec; protos; stds; reprs; SList hist; fp] =>
        match as_nat thr, kind_of_atom k, nat_of_atom off, bytes_of_wire b0, bytes_of_wire b1,
              protos_of_sexp protos, strs_of_sexp stds, reprs_of_sexp reprs, opt_map as_hop hist with
        | Some t, Some kd, Some o, Some bs0, Some bs1, Some pr, Some sl, Some tbl, Some h =>
            let dec' := match dec with
                        | SList l => match ops_of_sexps l with
                                     | Some p => Some (Some (p, pr))
                                     | None => None
                                     end
                        | Atom "none" => Some None
                        | _ => None
                        end in
            match arming_of a t, dec' with
            | Some arm, Some d =>
                let prog := match d with Some (p, _) => p | None => [] end in
                let s := mkStream kd o (fun tm => if Nat.eqb tm T_PARSE then bs0 else bs1) in
                let run :=
                  match fp with
                  | Atom "stable" =>
                      armed_load val (ref_unpickle prog) (fun _ => d)
                                 (lookup_repr tbl) (fun m => mem_str m sl) h arm s
                  | SList [Atom "dumps"; dd] =>
                      match bytes_of_wire dd with
                      | Some dbytes =>
                          armed_core val (ref_unpickle prog) (fun _ => d)
                                     (lookup_repr tbl) (fun m => mem_str m sl) h arm
                                     (LOk [mkOpc (0%N, ("?", (0%Z, ("none", (true, true))))) 0 (Some dbytes)])
                                     (parse_reads kd)
                                     (stock_load val (ref_unpickle prog) s)
                      | None => None
                      end
                  | _ => None
                  end in
                Some (match run with
                      | Some r => show_lrun r
                      | None => "UNMODELLED-BINDING"
                      end)
            | _, _ => Some "!bad-args"
            end
        | _, _, _, _, _, _, _, _, _ => Some "!bad-args"
        end
    | _ => None
    end
  else None.
