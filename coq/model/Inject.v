(* Model of fickling's pickle injector (fickle.py: Pickled._encode_python_obj, insert_python_obj,
   insert_python / insert_python_eval / insert_python_exec, append_python, insert_magic_int,
   insert_function_call_on_unpickled_object) as list surgery on abstract opcode lists.

   Faithful to the tree WITH the repair notes/fix_constant_new_coercion.patch applied
   (ConstantOpcode.new no longer coerces "123" / b"12" / 1.5 to the integer 123 / 12 / 1 and floats
   are encodable): a constant argument is encoded as the constant itself.  Everything else is as
   written, including list.insert(-1, x) semantics, the fixed memo keys 321987 / 1 / 2, the memo
   index taken from a symbolic run of the (already prefixed) pickle.
   Executable definitions only. *)
From Coq Require Import List String ZArith Bool Arith.
From Verif Require Import Base Ops Interp.
Import ListNotations.
Open Scope string_scope.
Open Scope list_scope.

(* ---- arguments the helpers accept: int / float / str / bytes, lists and dicts of them ---- *)
Inductive arg :=
| AConst (c : const)
| AList (l : list arg)
| ADict (kvs : list (const * arg)).     (* keys are "assumed constant" *)

(* _is_constant_type: isinstance(obj, (int, float, str, bytes)); bool is an int in Python and is
   encoded as the integer 0 / 1 -- the model declines it (the harness never passes one) *)
Definition const_ok (c : const) : bool :=
  match c with
  | CInt _ | CStr _ | CBytes _ | CFloat _ => true
  | CBool _ | CNone => false
  end.

Fixpoint arg_ok (a : arg) : bool :=
  match a with
  | AConst c => const_ok c
  | AList l => (fix go (l : list arg) : bool :=
                  match l with [] => true | x :: r => arg_ok x && go r end) l
  | ADict kvs => (fix go (kvs : list (const * arg)) : bool :=
                    match kvs with
                    | [] => true
                    | (k, v) :: r => const_ok k && arg_ok v && go r
                    end) kvs
  end.

(* _encode_python_obj *)
Fixpoint encode_obj (a : arg) : list op :=
  match a with
  | AConst c => [OConst c]
  | AList l =>
      OMark :: (fix go (l : list arg) : list op :=
                  match l with [] => [] | x :: r => encode_obj x ++ go r end) l ++ [OList]
  | ADict kvs =>
      match kvs with
      | [] => [OEmptyDict]
      | _ => OMark :: (fix go (kvs : list (const * arg)) : list op :=
                         match kvs with
                         | [] => []
                         | (k, v) :: r => OConst k :: encode_obj v ++ go r
                         end) kvs ++ [ODict]
      end
  end.

Definition encode_objs (args : list arg) : list op := flat_map encode_obj args.

(* ---- Python list.insert(i, x) ---- *)
Definition py_insert {A} (i : Z) (x : A) (l : list A) : list A :=
  let n := Z.of_nat (List.length l) in
  let j := if (i <? 0)%Z then Z.max 0 (n + i) else Z.min i n in
  firstn (Z.to_nat j) l ++ x :: skipn (Z.to_nat j) l.

(* self.insert(-1, x) for each x in turn: every opcode goes just before the last element *)
Definition insert_last_seq {A} (xs : list A) (l : list A) : list A :=
  fold_left (fun acc x => py_insert (-1) x acc) xs l.

(* self.insert(i, a); self.insert(i+1, b); ... for 0 <= i <= len *)
Definition insert_block {A} (i : nat) (blk : list A) (l : list A) : list A :=
  firstn i l ++ blk ++ skipn i l.

(* while isinstance(self[i], (Proto, Frame)): i += 1 *)
Fixpoint skip_noops (p : list op) : nat :=
  match p with
  | ONoop :: r => S (skip_noops r)
  | _ => 0
  end.

Definition is_stop (o : op) : bool := match o with OStop => true | _ => false end.
Definition ends_with_stop (p : list op) : bool := is_stop (last p ONoop).

Definition KEEP_KEY : Z := 321987.

(* GLOBAL m n, MARK, args..., TUPLE *)
Definition call_setup (m n : string) (enc : list op) : list op :=
  [OGlobal m n; OMark] ++ enc ++ [OTuple].

Definition insert_python (m n : string) (args : list arg) (run_first replace : bool) (p : list op)
  : res (list op) :=
  if negb (ends_with_stop p) then Err EValue else
  if negb (forallb arg_ok args) then Err EValue else
  let i := skip_noops p in
  let blk := call_setup m n (encode_objs args) in
  let p1 := insert_block i blk p in
  if run_first then
    let p2 := insert_block (i + List.length blk) [OReduce] p1 in
    if replace then Ok (insert_last_seq [OPop] p2)
    else Ok (insert_last_seq [OPut KEEP_KEY; OPop; OPop; OGet KEEP_KEY] p2)
  else if replace then Ok (insert_last_seq [OPop; OReduce] p1)
  else
    (* interpreter = Interpreter(self); interpreter.run(); memo_id = len(interpreter.memory) *)
    do f <- Interp.run p1;
    let memo_id := Z.of_nat (List.length (memo f)) in
    Ok (insert_last_seq [OMemoize; OPop; OReduce; OPop; OGet memo_id] p1).

Definition append_ops (m n : string) (args : list const) (pop_result : bool) : list op :=
  [OGlobal m n; OMark] ++ map OConst args ++ [OTuple; OReduce] ++ (if pop_result then [OPop] else []).

Definition append_python (m n : string) (args : list const) (pop_result : bool) (p : list op)
  : res (list op) :=
  if negb (ends_with_stop p) then Err EValue else
  if negb (forallb const_ok args) then Err EValue else
  Ok (insert_last_seq (append_ops m n args pop_result) p).

(* self.insert(index, Int(magic)); self.insert(-1 if index == -1 else index + 1, Pop()) *)
(* a negative index is resolved against the CURRENT length first (repo fix: insert_magic_int with a
   negative index), then INT goes to slot i and POP to slot i+1 *)
Definition magic_slot (index : Z) (p : list op) : Z :=
  if (index <? 0)%Z then Z.max (Z.of_nat (List.length p) + index) 0 else index.
Definition insert_magic_int (magic index : Z) (p : list op) : list op :=
  let i := magic_slot index p in
  py_insert (i + 1) OPop (py_insert i (OConst (CInt magic)) p).

(* the opcodes insert_function_call_on_unpickled_object places before STOP.  [fdef] is the
   function definition text, [fname] the name its regular expression extracts, [bytecode] =
   Some (marshal.dumps(compile(fdef, "<string>", "exec"))) iff compile_code *)
Definition call_on_object_ops (fdef fname : string) (bytecode : option string) (cargs : list const)
  : list op :=
  (match bytecode with
   | Some bc =>
       append_ops "marshal" "loads" [CBytes bc] false ++
       [OPut 1; OPop; OGlobal "builtins" "exec"; OMark; OGet 1; OTuple; OReduce; OPop]
   | None => append_ops "builtins" "exec" [CStr fdef] true
   end) ++
  append_ops "builtins" "eval" [CStr fname] false ++
  [OPut 1; OPop; OPut 2; OPop; OGet 1; OMark; OGet 2] ++ map OConst cargs ++ [OTuple; OReduce].

Definition insert_call_on_object (fdef fname : string) (bytecode : option string)
           (cargs : list const) (p : list op) : res (list op) :=
  if negb (ends_with_stop p) then Err EValue else
  if negb (forallb const_ok cargs) then Err EValue else
  Ok (insert_last_seq (call_on_object_ops fdef fname bytecode cargs) p).

(* ---- all modes ---- *)
Inductive mode :=
| MInsert (m n : string) (args : list arg) (run_first replace : bool)
| MAppend (m n : string) (args : list const) (pop_result : bool)
| MMagic (magic index : Z)
| MCallObj (fdef fname : string) (bytecode : option string) (cargs : list const).

Definition inject (md : mode) (p : list op) : res (list op) :=
  match md with
  | MInsert m n args rf rep => insert_python m n args rf rep p
  | MAppend m n args pop => append_python m n args pop p
  | MMagic magic index => Ok (insert_magic_int magic index p)
  | MCallObj fdef fname bc cargs => insert_call_on_object fdef fname bc cargs p
  end.

(* ---- rendering (the same text harness/vmlib.abstract_ops prints through sx) ---- *)
Definition show_op (o : op) : string :=
  (match o with
  | OConst c => "(CONST " ++ show_const c ++ ")"
  | OMark => "MARK" | OStop => "STOP" | OPop => "POP" | OPopMark => "POP_MARK" | ODup => "DUP"
  | OEmptyList => "EMPTY_LIST" | OEmptyDict => "EMPTY_DICT" | OEmptySet => "EMPTY_SET"
  | OEmptyTuple => "EMPTY_TUPLE" | OAppend => "APPEND" | OAppends => "APPENDS" | OList => "LIST"
  | OTuple => "TUPLE" | OTuple1 => "TUPLE1" | OTuple2 => "TUPLE2" | OTuple3 => "TUPLE3"
  | ODict => "DICT" | OSetItem => "SETITEM" | OSetItems => "SETITEMS" | OAddItems => "ADDITEMS"
  | OFrozenSet => "FROZENSET"
  | OGlobal m n => "(GLOBAL " ++ wire_of_string m ++ " " ++ wire_of_string n ++ ")"
  | OStackGlobal => "STACK_GLOBAL"
  | OInst m n => "(INST " ++ wire_of_string m ++ " " ++ wire_of_string n ++ ")"
  | OObj => "OBJ" | ONewObj => "NEWOBJ" | ONewObjEx => "NEWOBJ_EX" | OReduce => "REDUCE"
  | OBuild => "BUILD" | OBinPersId => "BINPERSID"
  | OPut k => "(PUT " ++ z_to_string k ++ ")"
  | OGet k => "(GET " ++ z_to_string k ++ ")"
  | OMemoize => "MEMOIZE" | ONoop => "NOOP" | ONoRun => "NORUN"
  end)%string.

Definition show_inject (r : res (list op)) : string :=
  (match r with
  | Ok p => "OK (" ++ String.concat " " (map show_op p) ++ ")"
  | Err e => "ERR " ++ err_name e
  end)%string.
