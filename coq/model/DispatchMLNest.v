(* Wire commands of the nesting model (C07). *)
From Coq Require Import List String Bool Arith.
From Verif Require Import Base Dispatch DispatchHooks Allowlist MLNest.
Import ListNotations.
Open Scope string_scope.

Definition as_container (s : sexp) : option container :=
  match s with
  | Atom a => if a =? "bare" then Some Bare else if a =? "legacy" then Some Legacy
              else if a =? "zip" then Some Zip else None
  | _ => None
  end.

(* node = (n <kind> (event ...));  event = (g (<module> <name>)) | (c (<module> <name>) <container> T|F (node ...)) *)
Fixpoint as_node (s : sexp) : option node :=
  match s with
  | SList [Atom tag; k; SList evs] =>
      if tag =? "n" then
        match as_wire_string k,
              (fix go (l : list sexp) : option (list ev) :=
                 match l with
                 | [] => Some []
                 | x :: r => match as_ev x, go r with
                             | Some e, Some t => Some (e :: t)
                             | _, _ => None
                             end
                 end) evs with
        | Some kk, Some es => Some (Node kk es)
        | _, _ => None
        end
      else None
  | _ => None
  end
with as_ev (s : sexp) : option ev :=
  match s with
  | SList [Atom tag; g] =>
      if tag =? "g" then match as_gname g with Some x => Some (EGlob x) | None => None end else None
  | SList [Atom tag; c; ct; ok; SList ch] =>
      if tag =? "c" then
        match as_gname c, as_container ct, as_bool ok,
              (fix go (l : list sexp) : option (list node) :=
                 match l with
                 | [] => Some []
                 | x :: r => match as_node x, go r with
                             | Some n, Some t => Some (n :: t)
                             | _, _ => None
                             end
                 end) ch with
        | Some c', Some ct', Some ok', Some ch' => Some (ECall c' ct' ok' ch')
        | _, _, _, _ => None
        end
      else None
  | _ => None
  end.

Definition handle_mlnest (cmd : string) (args : list sexp) : option string :=
  if cmd =? "mlnest" then
    match args with
    | [adds; t] =>
        match as_gnames adds, as_node t with
        | Some a, Some n =>
            Some (show_res (run_ml a n) ++ "|" ++ show_res (run_stock n) ++ "|" ++
                  show_bool (conforms n) ++ show_bool (all_mediated n) ++ show_bool (uses d11 n))
        | _, _ => None
        end
    | _ => None
    end
  else None.
