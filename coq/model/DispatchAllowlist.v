(* Wire commands of the allowlist model (C11). *)
From Coq Require Import List String Bool Arith.
From Verif Require Import Base Dispatch DispatchHooks Allowlist AddSplit Hooks.
Import ListNotations.
Open Scope string_scope.

(* operations on the wire; [WAll] / [WInstAll] expand to one probe per vocabulary entry *)
Inductive wop :=
| WOp (o : op)
| WAll
| WInstAll.

Definition as_wop (s : sexp) : option wop :=
  match s with
  | Atom a =>
      if a =? "deact" then Some (WOp Deactivate)
      else if a =? "pall" then Some WAll
      else if a =? "iall" then Some WInstAll
      else None
  | SList [Atom a; x] =>
      if a =? "act" then match as_gnames x with Some l => Some (WOp (Activate l)) | None => None end
      else if a =? "cons" then match as_gnames x with Some l => Some (WOp (Construct l)) | None => None end
      else if a =? "probe" then match as_gname x with Some g => Some (WOp (Probe g)) | None => None end
      else None
  | SList [Atom a; i; x] =>
      if a =? "iprobe" then
        match as_nat i, as_gname x with
        | Some n, Some g => Some (WOp (ProbeInst n g))
        | _, _ => None
        end
      else None
  | _ => None
  end.

Definition show_opt_verdict (v : option verdict) : string :=
  match v with Some x => show_verdict x | None => "-" end.

(* probe every vocabulary entry in order through the active environment; each probe is a real
   load, i.e. constructs an instance, so the state is threaded *)
Fixpoint probe_all (mode : copy_mode) (s : st) (vocab : list gname) : string * st :=
  match vocab with
  | [] => ("", s)
  | g :: r =>
      let v := show_opt_verdict (observe mode s (Probe g)) in
      let '(rest, s') := probe_all mode (step mode s (Probe g)) r in
      (v ++ rest, s')
  end.

Definition inst_all (mode : copy_mode) (s : st) (vocab : list gname) : string :=
  join "/" (map (fun i =>
                   String.concat "" (map (fun g => show_opt_verdict (observe mode s (ProbeInst i g))) vocab))
                (seq 0 (List.length (insts s)))).

Definition show_delta (s : st) : string :=
  join ";" (map (fun mn => fst mn ++ ":" ++ join "," (snd mn)) (table_delta s)).

Definition show_table (s : st) : string :=
  show_bool (view_eqb (table_view s) (table_view init)) ++ "[" ++ show_delta s ++ "]".

Fixpoint show_allow (mode : copy_mode) (s : st) (vocab : list gname) (h : list wop) : list string :=
  match h with
  | [] => []
  | WOp o :: r =>
      let s' := step mode s o in
      (show_table s' ++
       match observe mode s o with Some v => ";" ++ show_verdict v | None => "" end)
      :: show_allow mode s' vocab r
  | WAll :: r =>
      let '(txt, s') := probe_all mode s vocab in
      (show_table s' ++ ";" ++ txt) :: show_allow mode s' vocab r
  | WInstAll :: r =>
      (show_table s ++ ";" ++ inst_all mode s vocab) :: show_allow mode s vocab r
  end.

Definition as_mode (s : sexp) : option copy_mode :=
  match s with
  | Atom a => if a =? "deep" then Some copy_deep else if a =? "shallow" then Some copy_shallow else None
  | _ => None
  end.

(* (split_adds s1 s2 ...): the (module, name) pair each addition string stands for, or ERR (no dot) *)
Definition show_split (s : string) : string :=
  match rsplit_dot s with
  | Some (m, n) => wire_of_string m ++ "," ++ wire_of_string n
  | None => "ERR"
  end.

Definition handle_allow (cmd : string) (args : list sexp) : option string :=
  if cmd =? "split_adds" then
    match opt_map as_wire_string args with
    | Some l => Some (join "|" (map show_split l))
    | None => None
    end
  else
  if cmd =? "allow" then
    match args with
    | [m; v; SList ops] =>
        match as_mode m, as_gnames v, opt_map as_wop ops with
        | Some mode, Some vocab, Some h => Some (join "|" (show_allow mode init vocab h))
        | _, _, _ => None
        end
    | _ => None
    end
  else None.
