(* wire commands for the injector model (C08) *)
From Coq Require Import List String ZArith Bool Arith.
From Verif Require Import Base Ops Interp Inject.
Import ListNotations.
Open Scope string_scope.

Fixpoint arg_of_sexp (s : sexp) : option arg :=
  match s with
  | SList (Atom tag :: items) =>
      if tag =? "c" then
        match items with
        | [c] => match const_of_sexp c with Some x => Some (AConst x) | None => None end
        | _ => None
        end
      else if tag =? "l" then
        match (fix go (l : list sexp) : option (list arg) :=
                 match l with
                 | [] => Some []
                 | x :: r => match arg_of_sexp x, go r with
                             | Some a, Some t => Some (a :: t)
                             | _, _ => None
                             end
                 end) items with
        | Some l => Some (AList l)
        | None => None
        end
      else if tag =? "d" then
        match (fix go (l : list sexp) : option (list (const * arg)) :=
                 match l with
                 | [] => Some []
                 | SList [k; v] :: r =>
                     match const_of_sexp k, arg_of_sexp v, go r with
                     | Some kc, Some a, Some t => Some ((kc, a) :: t)
                     | _, _, _ => None
                     end
                 | _ => None
                 end) items with
        | Some l => Some (ADict l)
        | None => None
        end
      else None
  | _ => None
  end.

Fixpoint opt_all {A B} (f : A -> option B) (l : list A) : option (list B) :=
  match l with
  | [] => Some []
  | x :: r => match f x, opt_all f r with
              | Some y, Some t => Some (y :: t)
              | _, _ => None
              end
  end.

Definition as_bool (s : sexp) : option bool :=
  match s with Atom a => Some (a =? "T") | _ => None end.
Definition as_str (s : sexp) : option string :=
  match s with Atom a => string_of_wire a | _ => None end.
Definition as_z (s : sexp) : option Z :=
  match s with Atom a => z_of_string a | _ => None end.
Definition as_ops (s : sexp) : option (list op) :=
  match s with SList l => ops_of_sexps l | _ => None end.
Definition as_consts (s : sexp) : option (list const) :=
  match s with SList l => opt_all const_of_sexp l | _ => None end.
Definition as_args (s : sexp) : option (list arg) :=
  match s with SList l => opt_all arg_of_sexp l | _ => None end.

Definition bad : option string := Some "!bad-inject-arguments".

Definition handle_inject (cmd : string) (args : list sexp) : option string :=
  if cmd =? "inject_insert" then
    match args with
    | [m; n; a; rf; rep; p] =>
        match as_str m, as_str n, as_args a, as_bool rf, as_bool rep, as_ops p with
        | Some m', Some n', Some a', Some rf', Some rep', Some p' =>
            Some (show_inject (inject (MInsert m' n' a' rf' rep') p'))
        | _, _, _, _, _, _ => bad
        end
    | _ => bad
    end
  else if cmd =? "inject_append" then
    match args with
    | [m; n; a; pop; p] =>
        match as_str m, as_str n, as_consts a, as_bool pop, as_ops p with
        | Some m', Some n', Some a', Some pop', Some p' =>
            Some (show_inject (inject (MAppend m' n' a' pop') p'))
        | _, _, _, _, _ => bad
        end
    | _ => bad
    end
  else if cmd =? "inject_magic" then
    match args with
    | [mg; ix; p] =>
        match as_z mg, as_z ix, as_ops p with
        | Some mg', Some ix', Some p' => Some (show_inject (inject (MMagic mg' ix') p'))
        | _, _, _ => bad
        end
    | _ => bad
    end
  else if cmd =? "inject_callobj" then
    match args with
    | [fdef; fname; bc; a; p] =>
        match as_str fdef, as_str fname, as_consts a, as_ops p with
        | Some fd, Some fnm, Some a', Some p' =>
            let bco := match bc with Atom "-" => Some None
                                   | Atom x => match string_of_wire x with Some b => Some (Some b) | None => None end
                                   | _ => None end in
            match bco with
            | Some b => Some (show_inject (inject (MCallObj fd fnm b a') p'))
            | None => bad
            end
        | _, _, _, _ => bad
        end
    | _ => bad
    end
  else None.
