(* Wire commands of the CLI model (C18) for the correspondence driver.
     (c18_inject <k> (<a0> <a1> ...) ((<a> <r>) ...))
         pickles travel as opaque atoms (the hex of their bytes); the table gives, per distinct
         pickle, what the real insert_python_eval makes of it (<r> = atom, or ERR when it raised)
         -> <exit:n|raise:E> <T|F stderr> (<chunk> ...)
     (c18_decompile ((op ...) (op ...) ...))
         -> <exit:n|raise:E> | (seg i first next) stmt ... | (seg ...) ...                        *)
From Coq Require Import List String Ascii ZArith Bool Arith.
From Verif Require Import Base Ops Interp ShowVM Cli.
Import ListNotations.
Open Scope string_scope.

Definition show_status (st : status) : string :=
  match st with
  | Exit n => "exit:" ++ z_to_string n
  | Raised e => "raise:" ++ err_name e
  end.

Fixpoint atoms_of (l : list sexp) : option (list string) :=
  match l with
  | [] => Some []
  | Atom a :: r => match atoms_of r with Some t => Some (a :: t) | None => None end
  | _ => None
  end.

Fixpoint table_of (l : list sexp) : option (list (string * string)) :=
  match l with
  | [] => Some []
  | SList [Atom a; Atom r] :: rest =>
      match table_of rest with Some t => Some ((a, r) :: t) | None => None end
  | _ => None
  end.

Definition table_inject (t : list (string * string)) (p : string) : res string :=
  match assoc_str p t with
  | Some r => if r =? "ERR" then Err EValue else Ok r
  | None => Err EUnmodelled
  end.

Fixpoint progs_of (l : list sexp) : option (list (list op)) :=
  match l with
  | [] => Some []
  | SList p :: r =>
      match ops_of_sexps p, progs_of r with
      | Some x, Some t => Some (x :: t)
      | _, _ => None
      end
  | _ => None
  end.

Definition show_seg (g : seg) : string :=
  sp (par ["seg"; nat_to_string (sg_index g); nat_to_string (sg_first g); nat_to_string (sg_next g)]
      :: map (show_stmt (nodes (sg_state g))) (seg_body g)).

Definition handle_cli (cmd : string) (args : list sexp) : option string :=
  if cmd =? "c18_inject" then
    match args with
    | [Atom k; SList ps; SList tb] =>
        match z_of_string k, atoms_of ps, table_of tb with
        | Some kz, Some pl, Some t =>
            let out := cli_inject (table_inject t) (fun p => p) (fun _ => true) pl kz in
            Some (sp [show_status (o_status out); show_bool (o_stderr out); par (o_stdout out)])
        | _, _, _ => Some "!bad-args"
        end
    | _ => None
    end
  else if cmd =? "c18_decompile" then
    match args with
    | [SList ps] =>
        match progs_of ps with
        | Some pl =>
            let '(segs, st) := cli_decompile pl in
            Some (String.concat " | " (show_status st :: map show_seg segs))
        | None => Some "!bad-program"
        end
    | _ => None
    end
  else None.
