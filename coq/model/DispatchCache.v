(* Wire command of the Cache model (C13, C14) for the correspondence driver.

     (cache_run (<opcode> ...) (<action> ...) (<std module> ...) (<repr> ...) <pi>)
       -> one field per action, separated by " | ":   <event>;<event>;... ids=<id>,<id>,...

   <opcode> = (<id> <abstract op> h<data hex>|E<error name> <proto version>|-)
   <action> = (read <view>) | (insert i X) | (setitem i X) | (delitem i) | (setslice lo hi (X ...))
            | (delslice lo hi) | (append X) | (extend (X ...)) | (extend_self) | (pop i)
            | (remove X) | (reverse) | (clear)                 lo, hi = integer or "-"
   <view>   = unparse dump has_import has_call has_non_setstate_call imports unsafe_imports
              non_standard_imports ncalls safety trace interp len dumps
   <pi>     = id | rev   (iteration order of the `defined - used` set)
   <event>  = ins:i:id  set:i:id  del:i  setslice:lo:hi:ids  delslice:lo:hi  item:id
              raise:<Error>  ans:<answer> *)
From Coq Require Import List String Ascii ZArith Bool Arith.
From Verif Require Import Base Ops Interp Unparse Severity Analysis ShowVM DispatchAnalysis Cache.
Import ListNotations.
Open Scope string_scope.

Definition err_of_name (s : string) : err :=
  if s =? "IndexError" then EIndex else if s =? "KeyError" then EKey
  else if s =? "ValueError" then EValue else if s =? "NotImplementedError" then ENotImpl
  else if s =? "TypeError" then EType else EUnmodelled.

Definition data_of_atom (a : string) : option (res (list string)) :=
  match a with
  | String "h" _ => match string_of_wire a with Some d => Some (Ok [d]) | None => None end
  | String "E" r => Some (Err (err_of_name r))
  | _ => None
  end.

Definition optz_of_atom (a : string) : option (option Z) :=
  if a =? "-" then Some None
  else match z_of_string a with Some z => Some (Some z) | None => None end.

Definition xop_of_sexp (s : sexp) : option xop :=
  match s with
  | SList [Atom i; o; Atom d; Atom pv] =>
      match z_of_string i, op_of_sexp o, data_of_atom d, optz_of_atom pv with
      | Some i', Some o', Some d', Some pv' => Some (mkX (Z.to_nat i') o' d' pv')
      | _, _, _, _ => None
      end
  | _ => None
  end.

Fixpoint xops_of_sexps (l : list sexp) : option (list xop) :=
  match l with
  | [] => Some []
  | x :: r => match xop_of_sexp x, xops_of_sexps r with
              | Some a, Some b => Some (a :: b)
              | _, _ => None
              end
  end.

Definition query_of_name (v : string) : option iquery :=
  if v =? "unparse" then Some (QAst VUnparse)
  else if v =? "dump" then Some (QAst VDump)
  else if v =? "has_import" then Some (QProps VHasImport)
  else if v =? "has_call" then Some (QProps VHasCall)
  else if v =? "has_non_setstate_call" then Some (QProps VHasNonSetstate)
  else if v =? "imports" then Some (QProps VImports)
  else if v =? "unsafe_imports" then Some (QProps VUnsafeImports)
  else if v =? "non_standard_imports" then Some (QProps VNonStdImports)
  else if v =? "ncalls" then Some (QProps VNCalls)
  else if v =? "safety" then Some QSafety
  else if v =? "trace" then Some (QFresh VTrace)
  else if v =? "interp" then Some (QFresh VInterp)
  else if v =? "len" then Some (QFresh VLen)
  else if v =? "dumps" then Some (QFresh VDumps)
  else None.

Definition action_of_sexp (s : sexp) : option iaction :=
  match s with
  | SList [Atom "read"; Atom v] =>
      match query_of_name v with Some q => Some (ARead q) | None => None end
  | SList [Atom "insert"; Atom i; x] =>
      match z_of_string i, xop_of_sexp x with
      | Some i', Some x' => Some (APrim (PInsert i' x')) | _, _ => None end
  | SList [Atom "setitem"; Atom i; x] =>
      match z_of_string i, xop_of_sexp x with
      | Some i', Some x' => Some (APrim (PSet i' x')) | _, _ => None end
  | SList [Atom "delitem"; Atom i] =>
      match z_of_string i with Some i' => Some (APrim (PDel i')) | None => None end
  | SList [Atom "setslice"; Atom lo; Atom hi; SList xs] =>
      match optz_of_atom lo, optz_of_atom hi, xops_of_sexps xs with
      | Some a, Some b, Some l => Some (APrim (PSetSlice a b l)) | _, _, _ => None end
  | SList [Atom "delslice"; Atom lo; Atom hi] =>
      match optz_of_atom lo, optz_of_atom hi with
      | Some a, Some b => Some (APrim (PDelSlice a b)) | _, _ => None end
  | SList [Atom "append"; x] =>
      match xop_of_sexp x with Some x' => Some (AAppend x') | None => None end
  | SList [Atom "extend"; SList xs] =>
      match xops_of_sexps xs with Some l => Some (AExtend l) | None => None end
  | SList [Atom "extend_self"] => Some AExtendSelf
  | SList [Atom "pop"; Atom i] =>
      match z_of_string i with Some i' => Some (APop i') | None => None end
  | SList [Atom "remove"; x] =>
      match xop_of_sexp x with Some x' => Some (ARemove x') | None => None end
  | SList [Atom "reverse"] => Some AReverse
  | SList [Atom "clear"] => Some AClear
  | _ => None
  end.

Fixpoint actions_of_sexps (l : list sexp) : option (list iaction) :=
  match l with
  | [] => Some []
  | x :: r => match action_of_sexp x, actions_of_sexps r with
              | Some a, Some b => Some (a :: b)
              | _, _ => None
              end
  end.

(* executed opcodes are reported by family, as the real side maps opcode names *)
Definition op_family (o : op) : string :=
  match o with
  | OConst _ => "CONST" | OMark => "MARK" | OStop => "STOP" | OPop => "POP" | OPopMark => "POP_MARK"
  | ODup => "DUP" | OEmptyList => "EMPTY_LIST" | OEmptyDict => "EMPTY_DICT" | OEmptySet => "EMPTY_SET"
  | OEmptyTuple => "EMPTY_TUPLE" | OAppend => "APPEND" | OAppends => "APPENDS" | OList => "LIST"
  | OTuple => "TUPLE" | OTuple1 => "TUPLE1" | OTuple2 => "TUPLE2" | OTuple3 => "TUPLE3"
  | ODict => "DICT" | OSetItem => "SETITEM" | OSetItems => "SETITEMS" | OAddItems => "ADDITEMS"
  | OFrozenSet => "FROZENSET" | OGlobal _ _ => "GLOBAL" | OStackGlobal => "STACK_GLOBAL"
  | OInst _ _ => "INST" | OObj => "OBJ" | ONewObj => "NEWOBJ" | ONewObjEx => "NEWOBJ_EX"
  | OReduce => "REDUCE" | OBuild => "BUILD" | OBinPersId => "BINPERSID" | OPut _ => "PUT"
  | OGet _ => "GET" | OMemoize => "MEMOIZE" | ONoop => "NOOP" | ONoRun => "NORUN"
  end.

Definition show_import (mn : string * string) : string :=
  par [wire_of_string (fst mn); wire_of_string (snd mn)].

Definition show_ans (a : ans) : string :=
  match a with
  | AErr e => "ERR " ++ err_name e
  | AText s => "T " ++ wire_of_string s
  | ABool b => "B " ++ show_bool b
  | ANat n => "N " ++ nat_to_string n
  | AImports l => sp ("I" :: map show_import l)
  | ASafety r => "S " ++ show_analysis r
  | ATrace ex t => "TR " ++ par (map op_family ex) ++ " " ++ wire_of_string t
  | ABytes (Ok chunks) => "D " ++ wire_of_string (String.concat "" chunks)
  | ABytes (Err e) => "ERR " ++ err_name e
  end.

Definition show_optz (o : option Z) : string :=
  match o with Some z => z_to_string z | None => "-" end.
Definition show_ids (l : list xop) : string :=
  String.concat "," (map (fun x => nat_to_string (x_id x)) l).

Definition show_prim (p : prim xop) : string :=
  match p with
  | PInsert i x => "ins:" ++ z_to_string i ++ ":" ++ nat_to_string (x_id x)
  | PSet i x => "set:" ++ z_to_string i ++ ":" ++ nat_to_string (x_id x)
  | PDel i => "del:" ++ z_to_string i
  | PSetSlice lo hi xs => "setslice:" ++ show_optz lo ++ ":" ++ show_optz hi ++ ":" ++ show_ids xs
  | PDelSlice lo hi => "delslice:" ++ show_optz lo ++ ":" ++ show_optz hi
  end.

Definition show_event (e : event xop ans) : string :=
  match e with
  | EvPrim p => show_prim p
  | EvAns a => "ans:" ++ show_ans a
  | EvItem x => "item:" ++ nat_to_string (x_id x)
  | EvRaise er => "raise:" ++ err_name er
  end.

Definition show_step (st : list (event xop ans) * list xop) : string :=
  String.concat ";" (map show_event (fst st)) ++ " ids=" ++ show_ids (snd st).

Definition pi_of_name (s : string) : list (nat * expr) -> list (nat * expr) :=
  if s =? "rev" then @rev _ else pi_id.

Definition handle_cache (cmd : string) (args : list sexp) : option string :=
  if cmd =? "cache_run" then
    match args with
    | [SList ops; SList acts; stds; reprs; Atom pin] =>
        match xops_of_sexps ops, actions_of_sexps acts, strs_of_sexp stds, reprs_of_sexp reprs with
        | Some l, Some al, Some sl, Some tbl =>
            Some (String.concat " | "
                    (map show_step
                         (inst_run_log (lookup_repr tbl) (fun m => mem_str m sl) (pi_of_name pin)
                                       al (fresh l))))
        | _, _, _, _ => Some "!bad-args"
        end
    | _ => None
    end
  else None.
