(* Const: model of fickling's constant / opcode ENCODERS (C15) and of what the standard library
   reads back.

   Encoder side (fickling/fickle.py), written out per defining function; which function a class
   uses is read from the regenerated table ConstTable.opcode_classes (qualnames of the functions
   that define validate / encode / encode_body for the class, priorities, ranges, widths, signs):
     - [validate]        ConstantInt.validate, Int.validate, BinFloat.validate,
                         ShortBinUnicode.validate, Unicode.validate, String.validate,
                         ShortBinString.validate, BinString.validate, ShortBinBytes.validate,
                         DynamicLength.validate
     - [const_new]       ConstantOpcode.new: first class in priority order whose validate does not
                         raise ValueError (any other exception propagates)
     - [encode_body], [encode_length], [encode]   per defining function, struct.pack as
                         little-endian byte lists with struct.error on overflow
     - [enc_obj]         Pickled._encode_python_obj as written; [dumps_cops] = b"".join(encode)
   The encoders are those of the tree with D7 and D13 repaired: Int/ConstantInt.validate accept only
   non-bool integers; STRING = repr() of ASCII text + newline; SHORT_BINSTRING/BINSTRING = the Latin-1
   bytes; LONG1/LONG4 = length-prefixed pickle.encode_long; UNICODE = pickle.py's protocol-0
   escaping + raw-unicode-escape of the decoded text; text is UTF-8 with surrogatepass.

   Reader side (CPython 3.12): [read_arg] = the pickletools readers with argument CONTENT,
   [genops1] = one pickletools.genops token, [vm_step] / [vm_run] = the stock unpickler on the
   opcodes the encoders above can emit (constants, MARK, LIST, DICT, EMPTY_DICT, EMPTY_LIST).
   Text is carried as its (surrogatepass) UTF-8 bytes; the length-prefixed readers do not validate
   UTF-8 (a superset is accepted); STRING / GLOBAL lines are escape-decoded for the escapes repr()
   produces and declined (XUnmodelled) for the others.

   Executable definitions only -- the proofs are in proofs/ConstProofs.v. *)
From Coq Require Import List String Ascii ZArith NArith Bool Arith.
From Coq.Strings Require Import Byte.
From Verif Require Import Base OpTable ConstTable Codec.
Import ListNotations.
Local Open Scope Z_scope.
Local Open Scope list_scope.

(* ---------- errors as values (the Python exception class) ---------- *)
Inductive cerr :=
| XValue        (* ValueError (incl. UnicodeEncodeError, "no subclass ... handles objects") *)
| XType         (* TypeError *)
| XStruct       (* struct.error *)
| XKey          (* KeyError *)
| XNotImpl      (* NotImplementedError: encode_body() is not yet implemented *)
| XAttr         (* AttributeError *)
| XUnpickling   (* the reader / unpickler rejects the data *)
| XUnmodelled   (* outside the modelled fragment: the model declines *)
| XFuel.

Inductive cres (A : Type) :=
| COk (a : A)
| CErr (e : cerr).
Arguments COk {A} a.
Arguments CErr {A} e.

Definition cbind {A B} (r : cres A) (f : A -> cres B) : cres B :=
  match r with COk a => f a | CErr e => CErr e end.
Notation "'doc' x <- r ; k" := (cbind r (fun x => k))
  (at level 200, x name, r at level 100, k at level 200).

Definition cerr_name (e : cerr) : string :=
  match e with
  | XValue => "ValueError" | XType => "TypeError" | XStruct => "error" | XKey => "KeyError"
  | XNotImpl => "NotImplementedError" | XAttr => "AttributeError"
  | XUnpickling => "UnpicklingError" | XUnmodelled => "Unmodelled" | XFuel => "Fuel"
  end%string.

(* ---------- Python argument values ---------- *)
Inductive pv :=
| PInt (z : Z)                      (* int (not bool) *)
| PBool (b : bool)
| PFloat (bits : N)                 (* IEEE-754 binary64 bit pattern *)
| PStr (utf8 : list byte)           (* str, as its UTF-8 encoding *)
| PBytes (bs : list byte)
| PList (l : list pv)
| PDict (kvs : list (pv * pv))      (* items in insertion order *)
| POther.                           (* None, tuples, sets, objects ... *)

(* Pickled._is_constant_type: isinstance(obj, (int, float, str, bytes)); bool is an int *)
Definition is_const (v : pv) : bool :=
  match v with
  | PInt _ | PBool _ | PFloat _ | PStr _ | PBytes _ => true
  | _ => false
  end.

(* ---------- bytes ---------- *)
Definition byte_of_N (n : N) : byte :=
  match Byte.of_N n with Some b => b | None => x00 end.
Definition byte_of_Z (z : Z) : byte := byte_of_N (Z.to_N z).

(* w little-endian bytes of n (mod 256^w) *)
Fixpoint le_bytes (w : nat) (n : N) : list byte :=
  match w with
  | O => []
  | S w' => byte_of_N (n mod 256) :: le_bytes w' (n / 256)
  end.

Fixpoint bytes_eqb (a b : list byte) : bool :=
  match a, b with
  | [], [] => true
  | x :: r, y :: t => Byte.eqb x y && bytes_eqb r t
  | _, _ => false
  end.

Definition bytes_of_str (s : string) : list byte := list_byte_of_string s.
Definition nl : byte := x0a.
Definition dec_bytes (z : Z) : list byte := bytes_of_str (z_to_string z).
Definition blen (l : list byte) : Z := Z.of_nat (List.length l).

Definition width_ok (w : Z) : bool := (w =? 1) || (w =? 2) || (w =? 4) || (w =? 8).

(* struct.pack("<" + fmt, z), fmt from struct_types[w] upper-cased when unsigned *)
Definition pack_int (w : Z) (signed : bool) (z : Z) : cres (list byte) :=
  let bits := 8 * w in
  if signed then
    if (- 2 ^ (bits - 1) <=? z) && (z <? 2 ^ (bits - 1))
    then COk (le_bytes (Z.to_nat w) (Z.to_N (z mod 2 ^ bits)))
    else CErr XStruct
  else
    if (0 <=? z) && (z <? 2 ^ bits)
    then COk (le_bytes (Z.to_nat w) (Z.to_N z))
    else CErr XStruct.

(* ---------- class table ---------- *)
Fixpoint find_class_in (n : string) (t : list cclass) : option cclass :=
  match t with
  | [] => None
  | c :: r => if String.eqb (c_cls c) n then Some c else find_class_in n r
  end.
Definition find_class (n : string) : option cclass := find_class_in n opcode_classes.

Definition in_range (c : cclass) (n : Z) : bool := (c_min c <=? n) && (n <=? c_max c).
Definition class_code (c : cclass) : byte := byte_of_N (c_code c).

(* info.arg is None or info.arg.n == 0, from the pickletools row of the class's opcode *)
Definition class_argless (c : cclass) : bool :=
  match find_code (c_code c) op_table with
  | Some r => argless r
  | None => false
  end.

(* ---------- text helpers ---------- *)
Definition hexd (n : N) : byte := byte_of_N (if (n <? 10)%N then 48 + n else 87 + n)%N.

(* ---- UTF-8 (str.decode("utf-8", "surrogatepass")): one code point ---- *)
Definition cont_bits (b : byte) : option N :=
  let n := Byte.to_N b in
  if ((128 <=? n) && (n <? 192))%N then Some (n - 128)%N else None.

(* (code point, rest); overlong forms and values above U+10FFFF are rejected, surrogates pass *)
Definition utf8_next (s : list byte) : option (N * list byte) :=
  match s with
  | [] => None
  | b :: r =>
      let n := Byte.to_N b in
      if (n <? 128)%N then Some (n, r)
      else if (n <? 192)%N then None
      else if (n <? 224)%N then
        match r with
        | c1 :: r1 =>
            match cont_bits c1 with
            | Some x => let cp := ((n - 192) * 64 + x)%N in
                        if (cp <? 128)%N then None else Some (cp, r1)
            | None => None
            end
        | _ => None
        end
      else if (n <? 240)%N then
        match r with
        | c1 :: c2 :: r2 =>
            match cont_bits c1, cont_bits c2 with
            | Some x, Some y => let cp := ((n - 224) * 4096 + x * 64 + y)%N in
                                if (cp <? 2048)%N then None else Some (cp, r2)
            | _, _ => None
            end
        | _ => None
        end
      else if (n <? 248)%N then
        match r with
        | c1 :: c2 :: c3 :: r3 =>
            match cont_bits c1, cont_bits c2, cont_bits c3 with
            | Some x, Some y, Some z =>
                let cp := ((n - 240) * 262144 + x * 4096 + y * 64 + z)%N in
                if ((cp <? 65536) || (1114111 <? cp))%N then None else Some (cp, r3)
            | _, _, _ => None
            end
        | _ => None
        end
      else None
  end.

Fixpoint utf8_decode_f (fuel : nat) (s : list byte) : option (list N) :=
  match s with
  | [] => Some []
  | _ =>
      match fuel with
      | O => None
      | S f => match utf8_next s with
               | Some (cp, r) => match utf8_decode_f f r with
                                 | Some t => Some (cp :: t)
                                 | None => None
                                 end
               | None => None
               end
      end
  end.
Definition utf8_decode (s : list byte) : option (list N) := utf8_decode_f (List.length s) s.

(* str.encode("latin-1") of the text whose UTF-8 is s *)
Definition latin1_of_utf8 (s : list byte) : option (list byte) :=
  match utf8_decode s with
  | Some cps => if forallb (fun n => (n <? 256)%N) cps then Some (map byte_of_N cps) else None
  | None => None
  end.

(* ---- fickle.raw_unicode_escape (repaired): pickle.py's save_str for protocol 0 ---- *)
Definition hex4 (n : N) : list byte :=
  [hexd ((n / 4096) mod 16); hexd ((n / 256) mod 16); hexd ((n / 16) mod 16); hexd (n mod 16)]%N.

Definition esc_cp (n : N) : list byte :=
  if ((n =? 92) || (n =? 0) || (n =? 10) || (n =? 13) || (n =? 26))%N then x5c :: x75 :: hex4 n
  else if (n <? 256)%N then [byte_of_N n]
  else if (n <? 65536)%N then x5c :: x75 :: hex4 n
  else x5c :: x55 :: hex4 (n / 65536) ++ hex4 (n mod 65536).

Definition raw_unicode_escape (cps : list N) : list byte := flat_map esc_cp cps ++ [nl].

(* ---- repr(str) of ASCII text ---- *)
Definition repr_byte (q b : byte) : list byte :=
  let n := Byte.to_N b in
  if Byte.eqb b q || Byte.eqb b x5c then [x5c; b]
  else if (n =? 9)%N then [x5c; x74]
  else if (n =? 10)%N then [x5c; x6e]
  else if (n =? 13)%N then [x5c; x72]
  else if ((n <? 32) || (n =? 127))%N then [x5c; x78; hexd (n / 16); hexd (n mod 16)]
  else [b].

Definition repr_quote (s : list byte) : byte :=
  if existsb (Byte.eqb x27) s && negb (existsb (Byte.eqb x22) s) then x22 else x27.

Definition py_repr (s : list byte) : list byte :=
  let q := repr_quote s in q :: flat_map (repr_byte q) s ++ [q].

Definition all_ascii (s : list byte) : bool := forallb (fun b => (Byte.to_N b <? 128)%N) s.

(* ---- fickle.encode_long: (bit_length >> 3) + 1 bytes of little-endian two's complement ---- *)
Definition bit_length (z : Z) : Z := if z =? 0 then 0 else Z.log2 (Z.abs z) + 1.

Definition long_nbytes (z : Z) : Z := bit_length z / 8 + 1.

Definition encode_long (z : Z) : list byte :=
  if z =? 0 then []
  else let n := long_nbytes z in le_bytes (Z.to_nat n) (Z.to_N (z mod 2 ^ (8 * n))).

(* str.split(" ") *)
Fixpoint split_sp (s : list byte) (cur : list byte) : list (list byte) :=
  match s with
  | [] => [rev cur]
  | b :: r => if Byte.eqb b x20 then rev cur :: split_sp r [] else split_sp r (b :: cur)
  end.

(* decimal text -> Z (a subset of what int() accepts: optional '-', digits) *)
Definition parse_dec (s : list byte) : option Z :=
  match s with
  | [] => None
  | _ => z_of_string (string_of_list_byte s)
  end.

Definition strip_nl (s : list byte) : list byte :=
  match rev s with
  | b :: r => if Byte.eqb b nl then rev r else s
  | [] => s
  end.

(* ---------- encode_body, per defining function ---------- *)
Definition encode_body (c : cclass) (arg : pv) : cres (list byte) :=
  let q := c_body c in
  if (q =? "Opcode.encode_body")%string then
    if class_argless c then COk [] else CErr XNotImpl
  else if (q =? "ConstantInt.encode_body")%string then
    if negb (width_ok (c_width c)) then CErr XKey
    else match arg with
         | PInt z => pack_int (c_width c) (c_signed c) z
         | PBool b => pack_int (c_width c) (c_signed c) (if b then 1 else 0)
         | _ => CErr XStruct
         end
  else if (q =? "Int.encode_body")%string then
    match arg with
    | PInt z => COk (dec_bytes z ++ [nl])
    | PBool b => COk (dec_bytes (if b then 1 else 0) ++ [nl])
    | _ => CErr XUnmodelled
    end
  else if (q =? "BinFloat.encode_body")%string then
    match arg with
    | PFloat bits => COk (rev (le_bytes 8 bits))
    | _ => CErr XStruct
    end
  else if (q =? "ShortBinUnicode.encode_body")%string then
    match arg with
    | PStr s => COk s
    | PBytes s => COk s
    | _ => CErr XUnmodelled
    end
  else if (q =? "Unicode.encode_body")%string then
    match arg with
    | PBytes s | PStr s =>
        match utf8_decode s with
        | Some cps => COk (raw_unicode_escape cps)
        | None => CErr XValue                    (* UnicodeDecodeError *)
        end
    | _ => CErr XAttr
    end
  else if (q =? "String.encode_body")%string then
    match arg with
    | PStr s => if all_ascii s then COk (py_repr s ++ [nl]) else CErr XValue   (* UnicodeEncodeError *)
    | _ => CErr XAttr
    end
  else if (q =? "ShortBinString.encode_body")%string || (q =? "BinString.encode_body")%string then
    match arg with
    | PStr s => match latin1_of_utf8 s with Some l => COk l | None => CErr XValue end
    | _ => CErr XAttr
    end
  else if (q =? "Long1.encode_body")%string || (q =? "Long4.encode_body")%string then
    let w := if (q =? "Long1.encode_body")%string then 1 else 4 in
    let sg := if (q =? "Long1.encode_body")%string then false else true in
    match arg with
    | PInt z => let d := encode_long z in doc l <- pack_int w sg (blen d); COk (l ++ d)
    | PBool b => let d := encode_long (if b then 1 else 0) in doc l <- pack_int w sg (blen d); COk (l ++ d)
    | _ => CErr XAttr                 (* no bit_length() *)
    end
  else if (q =? "ShortBinBytes.encode_body")%string then
    match arg with
    | PBytes s => COk s
    | _ => CErr XUnmodelled
    end
  else if (q =? "Proto.encode_body")%string then
    match arg with
    | PInt z => if (0 <=? z) && (z <? 256) then COk [byte_of_Z z] else CErr XValue
    | _ => CErr XUnmodelled
    end
  else if (q =? "Put.encode_body")%string then
    match arg with
    | PInt z => COk (dec_bytes z ++ [nl])
    | PStr s => COk (s ++ [nl])
    | _ => CErr XUnmodelled
    end
  else if (q =? "Get.encode_body")%string then
    match arg with
    | PInt z => COk (dec_bytes z ++ [nl])
    | PBytes s => match parse_dec (strip_nl s) with
                  | Some z => COk (dec_bytes z ++ [nl])
                  | None => CErr XUnmodelled
                  end
    | _ => CErr XUnmodelled
    end
  else CErr XUnmodelled.

(* DynamicLength.encode_length *)
Definition encode_length (c : cclass) (n : Z) : cres (list byte) :=
  if (c_enclen c =? "DynamicLength.encode_length")%string then
    if negb (width_ok (c_width c)) then CErr XType
    else if negb (in_range c n) then CErr XValue
    else pack_int (c_width c) (c_signed c) n
  else CErr XUnmodelled.

Definition encode (c : cclass) (arg : pv) : cres (list byte) :=
  let q := c_encode c in
  if (q =? "Opcode.encode")%string then
    doc body <- encode_body c arg; COk (class_code c :: body)
  else if (q =? "DynamicLength.encode")%string then
    doc body <- encode_body c arg;
    doc len <- encode_length c (blen body);
    COk (class_code c :: len ++ body)
  else if (q =? "Global.encode")%string then
    match arg with
    | PStr s =>
        match split_sp s [] with
        | m :: a :: _ => COk (x63 :: m ++ [nl] ++ a ++ [nl])
        | _ => CErr XValue
        end
    | _ => CErr XUnmodelled
    end
  else if (q =? "Inst.encode")%string then CErr XAttr       (* self.classname does not exist *)
  else CErr XUnmodelled.

(* ---------- validate, per defining function ---------- *)
(* DynamicLength.validate: len(cls(obj).encode_body()) must be within [min_value, max_value] *)
Definition dyn_validate (c : cclass) (a : pv) : cres pv :=
  doc body <- encode_body c a;
  if in_range c (blen body) then COk a else CErr XValue.

Definition validate (c : cclass) (v : pv) : cres pv :=
  let q := c_validate c in
  if (q =? "ConstantInt.validate")%string then
    match v with
    | PInt z =>
        if negb (width_ok (c_width c)) then CErr XType
        else if in_range c z then COk v else CErr XValue
    | _ => CErr XValue
    end
  else if (q =? "Int.validate")%string then
    match v with PInt _ => COk v | _ => CErr XValue end
  else if (q =? "BinFloat.validate")%string then
    match v with PFloat _ => COk v | _ => CErr XValue end
  else if (q =? "ShortBinUnicode.validate")%string then
    match v with PStr s => dyn_validate c (PBytes s) | _ => CErr XValue end
  else if (q =? "Unicode.validate")%string then
    match v with PStr s => COk (PBytes s) | _ => CErr XValue end
  else if (q =? "String.validate")%string || (q =? "ShortBinString.validate")%string then
    match v with PStr _ => COk v | _ => CErr XValue end
  else if (q =? "BinString.validate")%string then
    match v with PStr _ => dyn_validate c v | _ => CErr XValue end
  else if (q =? "ShortBinBytes.validate")%string then
    match v with PBytes _ => dyn_validate c v | _ => CErr XValue end
  else CErr XUnmodelled.

(* ConstantOpcode.new *)
Fixpoint new_search (order : list string) (v : pv) : cres (cclass * pv) :=
  match order with
  | [] => CErr XValue          (* "There is no subclass of ConstantOpcode that handles ..." *)
  | n :: r =>
      match find_class n with
      | None => CErr XUnmodelled
      | Some c =>
          match validate c v with
          | COk a => COk (c, a)
          | CErr XValue => new_search r v
          | CErr e => CErr e
          end
      end
  end.

Definition const_new (v : pv) : cres (cclass * pv) := new_search const_order v.

(* ---------- Pickled._encode_python_obj ---------- *)
Inductive cop :=
| OConst (c : cclass) (arg : pv)
| OPlain (cls : string).          (* Mark(), List(), Dict(), EmptyDict() *)

Definition new_cop (v : pv) : cres (list cop) :=
  doc o <- const_new v; COk [OConst (fst o) (snd o)].

Fixpoint enc_obj (v : pv) : cres (list cop) :=
  if is_const v then new_cop v
  else
    match v with
    | PList l =>
        doc items <-
          (fix go (l : list pv) : cres (list cop) :=
             match l with
             | [] => COk []
             | x :: r =>
                 doc a <- (if is_const x then new_cop x else enc_obj x);
                 doc b <- go r;
                 COk (a ++ b)
             end) l;
        COk (OPlain "Mark" :: items ++ [OPlain "List"])
    | PDict [] => COk [OPlain "EmptyDict"]
    | PDict kvs =>
        doc items <-
          (fix go (l : list (pv * pv)) : cres (list cop) :=
             match l with
             | [] => COk []
             | (k, x) :: r =>
                 doc ko <- new_cop k;                      (* "Assume key is constant" *)
                 doc a <- (if is_const x then new_cop x else enc_obj x);
                 doc b <- go r;
                 COk (ko ++ a ++ b)
             end) kvs;
        COk (OPlain "Mark" :: items ++ [OPlain "Dict"])
    | _ => CErr XValue             (* "Type ... not supported" *)
    end.

Definition encode_cop (o : cop) : cres (list byte) :=
  match o with
  | OConst c a => encode c a
  | OPlain n => match find_class n with
                | Some c => encode c POther
                | None => CErr XUnmodelled
                end
  end.

Fixpoint dumps_cops (l : list cop) : cres (list byte) :=
  match l with
  | [] => COk []
  | o :: r => doc a <- encode_cop o; doc b <- dumps_cops r; COk (a ++ b)
  end.

(* building the argument part of an injected call: opcodes, then their bytes *)
Definition build (v : pv) : cres (list byte) :=
  doc ops <- enc_obj v; dumps_cops ops.

(* cli --create: Unicode(args.create.encode("utf-8")) inside a fixed frame *)
Definition cli_create (src : list byte) : cres (list byte) :=
  match find_class "Global", find_class "Mark", find_class "Unicode", find_class "Tuple",
        find_class "Reduce", find_class "Stop" with
  | Some g, Some m, Some u, Some t, Some r, Some s =>
      doc a <- encode g (PStr (bytes_of_str "__builtin__ eval"));
      doc b <- encode m POther;
      doc c <- encode u (PBytes src);
      doc d <- encode t POther;
      doc e <- encode r POther;
      doc f <- encode s POther;
      COk (a ++ b ++ c ++ d ++ e ++ f)
  | _, _, _, _, _, _ => CErr XUnmodelled
  end.

(* ================= reader side ================= *)
Inductive garg :=
| GNone
| GInt (z : Z)
| GBool (b : bool)
| GFloat (bits : N)
| GText (utf8 : list byte)
| GBytes (s : list byte).

(* big-endian unsigned value *)
Definition be_N (l : list byte) : N := le_N (rev l).

(* little-endian two's complement of any length (pickle.decode_long) *)
Definition decode_long (l : list byte) : Z :=
  let n := Z.of_N (le_N l) in
  let bits := 8 * Z.of_nat (List.length l) in
  match l with
  | [] => 0
  | _ => if n <? 2 ^ (bits - 1) then n else n - 2 ^ bits
  end.

(* (line without its newline, rest) *)
Fixpoint split_line (l : list byte) : option (list byte * list byte) :=
  match l with
  | [] => None
  | b :: r => if Byte.eqb b nl then Some ([], r)
              else match split_line r with
                   | Some (a, t) => Some (b :: a, t)
                   | None => None
                   end
  end.

(* UTF-8 of one code point *)
Definition utf8_cp (n : N) : list byte :=
  (if n <? 128 then [byte_of_N n]
   else if n <? 2048 then [byte_of_N (192 + n / 64); byte_of_N (128 + n mod 64)]
   else if n <? 65536 then
     [byte_of_N (224 + n / 4096); byte_of_N (128 + (n / 64) mod 64); byte_of_N (128 + n mod 64)]
   else [byte_of_N (240 + n / 262144); byte_of_N (128 + (n / 4096) mod 64);
         byte_of_N (128 + (n / 64) mod 64); byte_of_N (128 + n mod 64)])%N.

Definition latin1_to_utf8 (s : list byte) : list byte :=
  flat_map (fun b => utf8_cp (Byte.to_N b)) s.

Definition hexv (b : byte) : option N :=
  let n := Byte.to_N b in
  (if (48 <=? n) && (n <=? 57) then Some (n - 48)
   else if (97 <=? n) && (n <=? 102) then Some (n - 87)
   else if (65 <=? n) && (n <=? 70) then Some (n - 55)
   else None)%N.

(* str(data, 'raw-unicode-escape'): bytes are Latin-1 code points, except that a backslash
   preceded by an even number of backslashes and followed by u + 4 hex digits is that code point
   (\U escapes and malformed \u are declined).  [odd] = an odd number of backslashes precedes. *)
Fixpoint raw_unescape (fuel : nat) (s : list byte) (odd : bool) : cres (list byte) :=
  match fuel with
  | O => CErr XFuel
  | S f =>
      match s with
      | [] => COk []
      | b :: r =>
          if Byte.eqb b x5c then
            if odd then doc t <- raw_unescape f r false; COk (x5c :: t)
            else
              match r with
              | c :: r2 =>
                  if Byte.eqb c x75 then
                    match r2 with
                    | h1 :: h2 :: h3 :: h4 :: r3 =>
                        match hexv h1, hexv h2, hexv h3, hexv h4 with
                        | Some a, Some b', Some c', Some d =>
                            doc t <- raw_unescape f r3 false;
                            COk (utf8_cp (a * 4096 + b' * 256 + c' * 16 + d)%N ++ t)
                        | _, _, _, _ => CErr XUnpickling
                        end
                    | _ => CErr XUnpickling
                    end
                  else if Byte.eqb c x55 then
                    match r2 with
                    | h1 :: h2 :: h3 :: h4 :: h5 :: h6 :: h7 :: h8 :: r3 =>
                        match hexv h1, hexv h2, hexv h3, hexv h4, hexv h5, hexv h6, hexv h7, hexv h8 with
                        | Some a1, Some a2, Some a3, Some a4, Some a5, Some a6, Some a7, Some a8 =>
                            let cp := ((a1 * 4096 + a2 * 256 + a3 * 16 + a4) * 65536
                                       + (a5 * 4096 + a6 * 256 + a7 * 16 + a8))%N in
                            if (1114111 <? cp)%N then CErr XUnpickling
                            else doc t <- raw_unescape f r3 false; COk (utf8_cp cp ++ t)
                        | _, _, _, _, _, _, _, _ => CErr XUnpickling
                        end
                    | _ => CErr XUnpickling
                    end
                  else doc t <- raw_unescape f r true; COk (x5c :: t)
              | [] => COk [x5c]
              end
          else doc t <- raw_unescape f r false; COk (utf8_cp (Byte.to_N b) ++ t)
      end
  end.

(* codecs.escape_decode on the escapes repr() produces (others are declined) *)
Fixpoint unescape (s : list byte) : cres (list byte) :=
  match s with
  | [] => COk []
  | b :: r =>
      if Byte.eqb b x5c then
        match r with
        | [] => CErr XUnpickling                         (* "Trailing \ in string" *)
        | c :: r2 =>
            if Byte.eqb c x5c || Byte.eqb c x27 || Byte.eqb c x22
            then doc t <- unescape r2; COk (c :: t)
            else if Byte.eqb c x6e then doc t <- unescape r2; COk (x0a :: t)
            else if Byte.eqb c x72 then doc t <- unescape r2; COk (x0d :: t)
            else if Byte.eqb c x74 then doc t <- unescape r2; COk (x09 :: t)
            else if Byte.eqb c x78 then
              match r2 with
              | h1 :: h2 :: r3 =>
                  match hexv h1, hexv h2 with
                  | Some a, Some d => doc t <- unescape r3; COk (byte_of_N (a * 16 + d) :: t)
                  | _, _ => CErr XUnpickling
                  end
              | _ => CErr XUnpickling
              end
            else CErr XUnmodelled
        end
      else doc t <- unescape r; COk (b :: t)
  end.

(* codecs.escape_decode(data)[0].decode("ascii") *)
Definition escape_ascii (s : list byte) : cres garg :=
  doc u <- unescape s;
  if all_ascii u then COk (GText u) else CErr XUnpickling.

(* w-byte little-endian count, then that many bytes *)
Definition read_counted (w : nat) (signed : bool) (bs : list byte) : cres (list byte * list byte) :=
  let hd := firstn w bs in
  if negb (Nat.eqb (List.length hd) w) then CErr XUnpickling
  else
    let n := le_N hd in
    if signed && N.leb (2 ^ (8 * N.of_nat w - 1)) n then CErr XUnpickling
    else if N.ltb maxsize n then CErr XUnpickling
    else
      let body := skipn w bs in
      if N.ltb (N.of_nat (List.length body)) n then CErr XUnpickling
      else COk (firstn (N.to_nat n) body, skipn (N.to_nat n) body).

Definition read_fixed (n : nat) (bs : list byte) : cres (list byte * list byte) :=
  let hd := firstn n bs in
  if Nat.eqb (List.length hd) n then COk (hd, skipn n bs) else CErr XUnpickling.

Definition read_line (bs : list byte) : cres (list byte * list byte) :=
  match split_line bs with Some p => COk p | None => CErr XUnpickling end.

Definition read_int_text (s : list byte) : cres garg :=
  match parse_dec s with Some z => COk (GInt z) | None => CErr XUnmodelled end.

(* the pickletools readers of CPython 3.12, with content *)
Definition read_arg (reader : string) (bs : list byte) : cres (garg * list byte) :=
  if (reader =? "none")%string then COk (GNone, bs)
  else if (reader =? "read_uint1")%string then
    doc p <- read_fixed 1 bs; COk (GInt (Z.of_N (le_N (fst p))), snd p)
  else if (reader =? "read_uint2")%string then
    doc p <- read_fixed 2 bs; COk (GInt (Z.of_N (le_N (fst p))), snd p)
  else if (reader =? "read_int4")%string then
    doc p <- read_fixed 4 bs; COk (GInt (decode_long (fst p)), snd p)
  else if (reader =? "read_uint4")%string then
    doc p <- read_fixed 4 bs; COk (GInt (Z.of_N (le_N (fst p))), snd p)
  else if (reader =? "read_uint8")%string then
    doc p <- read_fixed 8 bs; COk (GInt (Z.of_N (le_N (fst p))), snd p)
  else if (reader =? "read_float8")%string then
    doc p <- read_fixed 8 bs; COk (GFloat (be_N (fst p)), snd p)
  else if (reader =? "read_decimalnl_short")%string then
    doc p <- read_line bs;
    let s := fst p in
    if bytes_eqb s [x30; x30] then COk (GBool false, snd p)
    else if bytes_eqb s [x30; x31] then COk (GBool true, snd p)
    else doc g <- read_int_text s; COk (g, snd p)
  else if (reader =? "read_decimalnl_long")%string then
    doc p <- read_line bs;
    let s := match rev (fst p) with
             | b :: r => if Byte.eqb b x4c then rev r else fst p
             | [] => fst p
             end in
    doc g <- read_int_text s; COk (g, snd p)
  else if (reader =? "read_stringnl")%string then
    doc p <- read_line bs;
    match fst p with
    | q :: r =>
        if Byte.eqb q x22 || Byte.eqb q x27 then
          match rev r with
          | q2 :: mid => if Byte.eqb q2 q
                         then doc g <- escape_ascii (rev mid); COk (g, snd p)
                         else CErr XUnpickling
          | [] => CErr XUnmodelled        (* a lone quote character: startswith == endswith *)
          end
        else CErr XUnpickling
    | [] => CErr XUnpickling
    end
  else if (reader =? "read_stringnl_noescape")%string then
    doc p <- read_line bs; doc g <- escape_ascii (fst p); COk (g, snd p)
  else if (reader =? "read_stringnl_noescape_pair")%string then
    doc p <- read_line bs;
    doc q <- read_line (snd p);
    doc a <- escape_ascii (fst p);
    doc b <- escape_ascii (fst q);
    match a, b with
    | GText x, GText y => COk (GText (x ++ [x20] ++ y), snd q)
    | _, _ => CErr XUnmodelled
    end
  else if (reader =? "read_unicodestringnl")%string then
    doc p <- read_line bs;
    doc t <- raw_unescape (S (List.length (fst p))) (fst p) false;
    COk (GText t, snd p)
  else if (reader =? "read_string1")%string then
    doc p <- read_counted 1 false bs; COk (GText (latin1_to_utf8 (fst p)), snd p)
  else if (reader =? "read_string4")%string then
    doc p <- read_counted 4 true bs; COk (GText (latin1_to_utf8 (fst p)), snd p)
  else if (reader =? "read_bytes1")%string then
    doc p <- read_counted 1 false bs; COk (GBytes (fst p), snd p)
  else if (reader =? "read_bytes4")%string then
    doc p <- read_counted 4 false bs; COk (GBytes (fst p), snd p)
  else if (reader =? "read_bytes8")%string || (reader =? "read_bytearray8")%string then
    doc p <- read_counted 8 false bs; COk (GBytes (fst p), snd p)
  else if (reader =? "read_unicodestring1")%string then
    doc p <- read_counted 1 false bs; COk (GText (fst p), snd p)
  else if (reader =? "read_unicodestring4")%string then
    doc p <- read_counted 4 false bs; COk (GText (fst p), snd p)
  else if (reader =? "read_unicodestring8")%string then
    doc p <- read_counted 8 false bs; COk (GText (fst p), snd p)
  else if (reader =? "read_long1")%string then
    doc p <- read_counted 1 false bs; COk (GInt (decode_long (fst p)), snd p)
  else if (reader =? "read_long4")%string then
    doc p <- read_counted 4 true bs; COk (GInt (decode_long (fst p)), snd p)
  else CErr XUnmodelled.

(* one pickletools.genops token: ((opcode name, argument), remaining bytes) *)
Definition genops1 (bs : list byte) : cres ((string * garg) * list byte) :=
  match bs with
  | [] => CErr XUnpickling
  | c :: args =>
      match lookup c with
      | None => CErr XUnpickling
      | Some row =>
          doc p <- read_arg (row_reader row) args;
          COk ((row_name row, fst p), snd p)
      end
  end.

(* does the argument genops reports equal the argument the opcode object was built with
   (bytes vs str normalisation: a text argument may be held as str or as its UTF-8 bytes) *)
Definition garg_matches (a : pv) (g : garg) : bool :=
  match a, g with
  | PInt z, GInt y => Z.eqb z y
  | PFloat x, GFloat y => N.eqb x y
  | PStr s, GText t => bytes_eqb s t
  | PBytes s, GText t => bytes_eqb s t
  | PBytes s, GBytes t => bytes_eqb s t
  | PBytes s, GInt z => match parse_dec (strip_nl s) with   (* Get.create keeps b"<id>\n" *)
                        | Some y => Z.eqb y z && bytes_eqb (strip_nl s) (dec_bytes z)
                        | None => false
                        end
  | POther, GNone => true
  | _, _ => false
  end.

(* ---------- the stock unpickler on the emitted fragment ---------- *)
Inductive sitem := SVal (v : pv) | SMark.

Fixpoint pop_mark (st : list sitem) (acc : list pv) : cres (list pv * list sitem) :=
  match st with
  | [] => CErr XUnpickling
  | SMark :: r => COk (acc, r)
  | SVal v :: r => pop_mark r (v :: acc)
  end.

Fixpoint pair_up (l : list pv) : cres (list (pv * pv)) :=
  match l with
  | [] => COk []
  | k :: v :: r => doc t <- pair_up r; COk ((k, v) :: t)
  | _ => CErr XUnpickling
  end.

Definition in_names (n : string) (l : list string) : bool := mem_str n l.

Definition vm_step (bs : list byte) (st : list sitem) : cres (list byte * list sitem) :=
  doc tk <- genops1 bs;
  let '((name, g), rest) := tk in
  if in_names name ["BININT1"; "BININT2"; "BININT"; "INT"; "LONG"; "LONG1"; "LONG4"] then
    match g with
    | GInt z => COk (rest, SVal (PInt z) :: st)
    | GBool b => COk (rest, SVal (PBool b) :: st)
    | _ => CErr XUnmodelled
    end
  else if (name =? "BINFLOAT")%string then
    match g with GFloat x => COk (rest, SVal (PFloat x) :: st) | _ => CErr XUnmodelled end
  else if in_names name ["SHORT_BINUNICODE"; "BINUNICODE"; "BINUNICODE8"; "UNICODE"] then
    match g with GText s => COk (rest, SVal (PStr s) :: st) | _ => CErr XUnmodelled end
  else if in_names name ["SHORT_BINBYTES"; "BINBYTES"; "BINBYTES8"] then
    match g with GBytes s => COk (rest, SVal (PBytes s) :: st) | _ => CErr XUnmodelled end
  else if in_names name ["STRING"; "SHORT_BINSTRING"; "BINSTRING"] then
    (* encoding="ASCII", errors="strict" *)
    match g with
    | GText s => if all_ascii s then COk (rest, SVal (PStr s) :: st) else CErr XUnpickling
    | _ => CErr XUnmodelled
    end
  else if (name =? "MARK")%string then COk (rest, SMark :: st)
  else if (name =? "LIST")%string then
    doc p <- pop_mark st []; COk (rest, SVal (PList (fst p)) :: snd p)
  else if (name =? "DICT")%string then
    doc p <- pop_mark st []; doc kv <- pair_up (fst p); COk (rest, SVal (PDict kv) :: snd p)
  else if (name =? "EMPTY_DICT")%string then COk (rest, SVal (PDict []) :: st)
  else if (name =? "EMPTY_LIST")%string then COk (rest, SVal (PList []) :: st)
  else CErr XUnmodelled.

Definition stop_byte : byte := x2e.

(* pickle.loads: run until STOP, the result is the top of the stack *)
Fixpoint vm_run (fuel : nat) (bs : list byte) (st : list sitem) : cres pv :=
  match fuel with
  | O => CErr XFuel
  | S f =>
      match bs with
      | [] => CErr XUnpickling
      | b :: _ =>
          if Byte.eqb b stop_byte then
            match st with
            | SVal v :: _ => COk v
            | _ => CErr XUnpickling
            end
          else
            match vm_step bs st with
            | COk (rest, st') => vm_run f rest st'
            | CErr e => CErr e
            end
      end
  end.

Definition loads (bs : list byte) : cres pv := vm_run (S (List.length bs)) bs [].
