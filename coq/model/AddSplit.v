(* How an addition string becomes the (module, name) pair the allowlist stores (C07 / C11).

     fickling/ml.py, FicklingMLUnpickler.__init__:
         for allowed_import in also_allow:
             module, name = allowed_import.rsplit(".", 1)

   str.rsplit(".", 1) cuts at the LAST dot; the two-target assignment raises ValueError when there is no
   dot.  find_class later receives (module, name) from the pickle as two separate strings and looks them
   up as a pair -- it never joins them -- so which pairs an addition permits is decided here. *)
From Coq Require Import List String Ascii Bool.
From Verif Require Import Base Allowlist.
Import ListNotations.
Local Open Scope string_scope.

Definition is_dot (c : ascii) : bool := Ascii.eqb c "."%char.

(* allowed_import.rsplit(".", 1) unpacked into two names; None = ValueError (no dot at all) *)
Fixpoint rsplit_dot (s : string) : option (string * string) :=
  match s with
  | EmptyString => None
  | String c r =>
      match rsplit_dot r with
      | Some (m, n) => Some (String c m, n)
      | None => if is_dot c then Some (EmptyString, r) else None
      end
  end.

Fixpoint nodot (s : string) : bool :=
  match s with
  | EmptyString => true
  | String c r => negb (is_dot c) && nodot r
  end.

(* the whole also_allow list; None = the constructor raises *)
Fixpoint parse_adds (l : list string) : option (list gname) :=
  match l with
  | [] => Some []
  | s :: r =>
      match rsplit_dot s, parse_adds r with
      | Some g, Some t => Some (g :: t)
      | _, _ => None
      end
  end.

(* what an unpickler constructed with these addition STRINGS permits; None = construction raises *)
Definition permits_strings (adds : list string) (g : gname) : option bool :=
  match parse_adds adds with
  | Some a => Some (spec_permits a g)
  | None => None
  end.
