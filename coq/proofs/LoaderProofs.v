(* Lemmas about the checked-loader model (C02): model/Loader.v. *)
From Coq Require Import List String ZArith Bool Arith Lia.
From Coq.Strings Require Import Byte.
From Verif Require Import Base Hooks HooksProofs Ops Interp RefVM Codec CodecProofs Analysis Severity
  SeverityProofs Loader.
Import ListNotations.
Local Open Scope list_scope.
Local Open Scope nat_scope.

(* ---------- every verdict is a member of the enum ---------- *)
Lemma find_sev_bound name : forall l (i s : nat), find_sev name i l = Some s -> i <= s < i + List.length l.
Proof.
  induction l as [|[n v] r IH]; intros i s H; simpl in H; [discriminate|].
  destruct (String.eqb n name).
  - inversion H; subst. simpl. lia.
  - apply IH in H. simpl. lia.
Qed.

Lemma finding_sev_wf f : wf (finding_sev f).
Proof.
  unfold finding_sev, wf. destruct (sev_of_name (f_sev f)) eqn:E.
  - unfold sev_of_name in E. apply find_sev_bound in E. unfold nsev, sev in *. vm_compute in E. vm_compute. lia.
  - rewrite nsev_6. lia.
Qed.

Lemma verdict_wf fs : wf (verdict fs).
Proof.
  unfold verdict. apply severity_wf. apply Forall_forall. intros x Hx.
  apply in_map_iff in Hx. destruct Hx as (f & <- & _). apply finding_sev_wf.
Qed.

(* ---------- the bytes of the first pickle, as the parse saw them (C06) ---------- *)
Definition analysed_bytes (s : stream) (p : loaded) : list byte :=
  match s_kind s with
  | KBytes => firstn (l_end p) (s_at s T_PARSE)
  | KSeekable => firstn (l_end p - s_off s) (skipn (s_off s) (s_at s T_PARSE))
  | KNonSeekable => firstn (l_end p) (skipn (s_off s) (s_at s T_PARSE))
  end.

Lemma nonseekable_as_bytes bs off r :
  load_model KNonSeekable bs off = LOk r ->
  load_model KBytes (skipn off bs) 0 = LOk (mkLoaded (l_ops r) (l_end r) None).
Proof.
  unfold load_model. destruct (load_stream (skipn off bs) 0) as [[ops e]|x] eqn:E; intro H; [|discriminate].
  inversion H; subst. reflexivity.
Qed.

Lemma dumps_is_first_pickle s p :
  load_model (s_kind s) (s_at s T_PARSE) (s_off s) = LOk p ->
  dumps (l_ops p) = Ok (analysed_bytes s p) /\ ends_in_stop (l_ops p) (l_end p).
Proof.
  unfold analysed_bytes. destruct (s_kind s); intro H.
  - apply bytes_exact in H. destruct H as (A & B & _). split; assumption.
  - apply seekable_exact in H. destruct H as (A & B & _). split; assumption.
  - apply nonseekable_as_bytes in H. apply bytes_exact in H. simpl in H.
    destruct H as (A & B & _). split; assumption.
Qed.

Section WithWorld.
Variable V : Type.
Variable unpickle : list byte -> ures V * list event.
Variable decode : list opc -> option (list op * list (nat * Z)).
Variable crepr : const -> string.
Variable std : string -> bool.

Notation load := (Loader.load V unpickle decode crepr std).
Notation load_reread := (Loader.load_reread V unpickle decode crepr std).
Notation armed_load := (Loader.armed_load V unpickle decode crepr std).
Notation check := (Loader.check crepr std).

(* the parse succeeded, the analysis returned findings fs *)
Definition analysed (s : stream) (p : loaded) (fs : list finding) : Prop :=
  exists prog protos,
    load_model (s_kind s) (s_at s T_PARSE) (s_off s) = LOk p /\
    decode (l_ops p) = Some (prog, protos) /\
    check prog protos = COk fs.

(* why a call was refused *)
Inductive refusal (s : stream) (thr : sev) : lexn -> Prop :=
| RParse e :
    load_model (s_kind s) (s_at s T_PARSE) (s_off s) = LErr e -> refusal s thr (XParse e)
| RDecode p :
    load_model (s_kind s) (s_at s T_PARSE) (s_off s) = LOk p -> decode (l_ops p) = None ->
    refusal s thr (XParse LDecode)
| RAnalysis p prog protos a :
    load_model (s_kind s) (s_at s T_PARSE) (s_off s) = LOk p -> decode (l_ops p) = Some (prog, protos) ->
    check prog protos = CErr a -> refusal s thr (XAnalysis a)
| RUnsafe p fs :
    analysed s p fs -> sev_le (verdict fs) thr = false -> refusal s thr (XUnsafe (to_dict fs)).

(* the two shapes of a run: accepted-and-unpickled, or refused with nothing done *)
Lemma load_cases s thr :
  (exists p fs, analysed s p fs /\ sev_le (verdict fs) thr = true /\
                load s thr = finish V (unpickle (analysed_bytes s p)) (analysed_bytes s p)
                                    (parse_reads (s_kind s)))
  \/ (exists x, refusal s thr x /\ load s thr = refuse V x (parse_reads (s_kind s))).
Proof.
  unfold Loader.load.
  destruct (load_model (s_kind s) (s_at s T_PARSE) (s_off s)) as [p|e] eqn:EL.
  2:{ right. exists (XParse e). split; [apply RParse; exact EL|reflexivity]. }
  destruct (decode (l_ops p)) as [[prog protos]|] eqn:ED.
  2:{ right. exists (XParse LDecode). split; [eapply RDecode; eassumption|reflexivity]. }
  destruct (Loader.check crepr std prog protos) as [fs|a] eqn:EC.
  2:{ right. exists (XAnalysis a). split; [eapply RAnalysis; eassumption|reflexivity]. }
  assert (HA : analysed s p fs) by (exists prog, protos; repeat split; assumption).
  destruct (sev_le (verdict fs) thr) eqn:ES.
  - destruct (dumps_is_first_pickle s p EL) as (HD & _). rewrite HD.
    left. exists p, fs. repeat split; assumption.
  - right. exists (XUnsafe (to_dict fs)). split; [eapply RUnsafe; eassumption|reflexivity].
Qed.

Lemma analysed_fun s p fs p' fs' : analysed s p fs -> analysed s p' fs' -> p = p' /\ fs = fs'.
Proof.
  intros (g & r & A & B & C) (g' & r' & A' & B' & C').
  rewrite A in A'. inversion A'; subst p'. rewrite B in B'. inversion B'; subst g' r'.
  rewrite C in C'. inversion C'. split; reflexivity.
Qed.

Lemma finish_out u bs rd v : r_out (finish V u bs rd) = Return v -> fst u = UVal v.
Proof. unfold finish. simpl. destruct (fst u); intro H; inversion H. reflexivity. Qed.

(* ---- C02_returns_only_if_accepted (+ equals stock) ---- *)
Lemma returns_only_if_accepted s thr v :
  wf thr -> r_out (load s thr) = Return v ->
  exists p fs,
    analysed s p fs /\
    sev_le (verdict fs) thr = true /\ doc_rank (verdict fs) <= doc_rank thr /\
    dumps (l_ops p) = Ok (analysed_bytes s p) /\
    fst (unpickle (analysed_bytes s p)) = UVal v /\
    r_events (load s thr) = snd (unpickle (analysed_bytes s p)) /\
    r_loaded (load s thr) = Some (analysed_bytes s p).
Proof.
  intros Hthr H. destruct (load_cases s thr) as [(p & fs & HA & HS & E)|(x & _ & E)]; rewrite E in *.
  - exists p, fs. split; [exact HA|]. split; [exact HS|].
    split. { rewrite le_spec in HS by (try apply verdict_wf; assumption). apply Nat.leb_le. exact HS. }
    destruct HA as (g & r & A & _). split; [apply (dumps_is_first_pickle s p A)|].
    split; [apply finish_out in H; exact H|]. split; reflexivity.
  - discriminate H.
Qed.

(* ---- C02_fail_closed ---- *)
Lemma refused_nothing_ran s thr x :
  refusal s thr x ->
  load s thr = refuse V x (parse_reads (s_kind s)) /\
  r_out (load s thr) = Raise x /\ r_events (load s thr) = [] /\ r_loaded (load s thr) = None.
Proof.
  intro R.
  assert (E : load s thr = refuse V x (parse_reads (s_kind s))).
  { unfold Loader.load. destruct R as [e H|p H H'|p g r a H H' H''|p fs (g & r & H & H' & H'') HS].
    - rewrite H. reflexivity.
    - rewrite H, H'. reflexivity.
    - rewrite H, H', H''. reflexivity.
    - rewrite H, H', H'', HS. reflexivity. }
  rewrite E. repeat split.
Qed.

Lemma unsafe_carries_verdict s thr p fs :
  wf thr -> analysed s p fs ->
  (sev_le (verdict fs) thr = false <-> doc_rank thr < doc_rank (verdict fs)) /\
  (sev_le (verdict fs) thr = false ->
     r_out (load s thr) = Raise (XUnsafe (to_dict fs)) /\
     rp_severity (to_dict fs) = sev_name (verdict fs) /\ rp_findings (to_dict fs) = fs /\
     r_events (load s thr) = [] /\ r_loaded (load s thr) = None).
Proof.
  intros Hthr HA. split.
  - rewrite le_spec by (try apply verdict_wf; assumption). rewrite Nat.leb_gt. reflexivity.
  - intro HS. destruct (refused_nothing_ran s thr (XUnsafe (to_dict fs)) (RUnsafe s thr p fs HA HS))
      as (_ & A & B & C). repeat split; assumption.
Qed.

(* anything that happened (an event, a call of the unpickler) implies acceptance *)
Lemma effects_only_if_accepted s thr :
  r_events (load s thr) <> [] \/ r_loaded (load s thr) <> None ->
  exists p fs, analysed s p fs /\ sev_le (verdict fs) thr = true /\
               r_loaded (load s thr) = Some (analysed_bytes s p) /\
               r_events (load s thr) = snd (unpickle (analysed_bytes s p)).
Proof.
  intro H. destruct (load_cases s thr) as [(p & fs & HA & HS & E)|(x & _ & E)]; rewrite E in *.
  - exists p, fs. repeat split; assumption.
  - simpl in H. destruct H as [H|H]; contradiction H; reflexivity.
Qed.

(* ---- C02_bytes_executed_are_bytes_analysed ---- *)
Lemma loaded_is_analysed s thr bs :
  r_loaded (load s thr) = Some bs ->
  exists p, load_model (s_kind s) (s_at s T_PARSE) (s_off s) = LOk p /\
            dumps (l_ops p) = Ok bs /\ bs = analysed_bytes s p /\ ends_in_stop (l_ops p) (l_end p).
Proof.
  intro H. destruct (load_cases s thr) as [(p & fs & HA & HS & E)|(x & _ & E)]; rewrite E in H.
  - simpl in H. inversion H; subst bs. destruct HA as (g & r & A & _).
    exists p. destruct (dumps_is_first_pickle s p A) as (D & S). repeat split; assumption.
  - discriminate H.
Qed.

(* what precedes the analysed pickle in the stream, and what follows it, is never executed *)
Lemma surroundings_irrelevant s thr pre b rest r bs :
  s_kind s = KSeekable -> s_off s = List.length pre -> s_at s T_PARSE = pre ++ b ++ rest ->
  load_model KSeekable b 0 = LOk r -> l_end r = List.length b ->
  r_loaded (load s thr) = Some bs -> bs = b.
Proof.
  intros K O C L E H. apply loaded_is_analysed in H. destruct H as (p & LP & _ & HB & _).
  subst bs. rewrite K, O, C in LP. rewrite (seekable_prefix pre b rest r L) in LP.
  inversion LP; subst p; clear LP.
  unfold analysed_bytes. rewrite K, O, C. cbn [l_end shift_loaded].
  replace (List.length pre + l_end r - List.length pre) with (List.length b) by lia.
  rewrite skipn_app, skipn_all, Nat.sub_diag. cbn [skipn app].
  rewrite firstn_app, firstn_all, Nat.sub_diag. cbn [firstn]. apply app_nil_r.
Qed.

(* the returned object and the events are the stock unpickler's on the bytes it was handed *)
Lemma equals_stock s thr v :
  r_out (load s thr) = Return v ->
  exists bs, r_loaded (load s thr) = Some bs /\ unpickle bs = (UVal v, r_events (load s thr)).
Proof.
  intro H. destruct (load_cases s thr) as [(p & fs & _ & _ & E)|(x & _ & E)]; rewrite E in *.
  - exists (analysed_bytes s p). split; [reflexivity|]. apply finish_out in H. simpl.
    destruct (unpickle (analysed_bytes s p)) as [u ev]. simpl in *. subst u. reflexivity.
  - discriminate H.
Qed.

Lemma later_content_irrelevant s s' thr :
  s_kind s = s_kind s' -> s_off s = s_off s' -> s_at s T_PARSE = s_at s' T_PARSE ->
  load s thr = load s' thr.
Proof. intros A B C. unfold Loader.load. rewrite A, B, C. reflexivity. Qed.

Lemma reads_only_during_parse s thr t : In t (r_reads (load s thr)) -> t = T_PARSE.
Proof.
  intro H.
  assert (R : r_reads (load s thr) = parse_reads (s_kind s)).
  { destruct (load_cases s thr) as [(p & fs & _ & _ & E)|(x & _ & E)]; rewrite E; reflexivity. }
  rewrite R in H. destruct (s_kind s); simpl in H; intuition.
Qed.

(* ---- C02_armed_equiv ---- *)
Lemma armed_equiv h a s :
  g_ml (grun g_init h) = None ->
  armed_load h a s =
    Some (load s (match a with ADirect thr => thr | _ => LIKELY_SAFE end)).
Proof.
  intro HG. destruct a as [thr| |t]; [reflexivity| |];
    unfold Loader.armed_load, Loader.pickle_load, arm_ops; simpl hrun;
    destruct (others_reachable h) as (P & _); rewrite HG in P; simpl in P.
  - simpl. rewrite P. reflexivity.
  - simpl. rewrite P. reflexivity.
Qed.

End WithWorld.

(* the context manager's effective threshold LIKELY_SAFE is at or below any threshold it is given *)
Lemma likely_safe_lowest t : wf t -> doc_rank LIKELY_SAFE <= doc_rank t.
Proof. intros _. rewrite LIKELY_SAFE_rank. lia. Qed.

(* ---------- the 6 x 6 threshold table over the regenerated SevTable ---------- *)
Definition threshold_table_ok : bool :=
  forallb (fun a => forallb (fun b => Bool.eqb (sev_le a b) (doc_rank a <=? doc_rank b)) all_thresholds)
          all_thresholds.

Lemma threshold_table : threshold_table_ok = true /\ List.length all_thresholds = 6.
Proof. split; vm_compute; reflexivity. Qed.

Lemma threshold_spec a b :
  In a all_thresholds -> In b all_thresholds -> sev_le a b = (doc_rank a <=? doc_rank b).
Proof.
  intros Ha Hb. destruct threshold_table as (T & _). unfold threshold_table_ok in T.
  rewrite forallb_forall in T. specialize (T a Ha). rewrite forallb_forall in T. specialize (T b Hb).
  apply Bool.eqb_prop in T. exact T.
Qed.
