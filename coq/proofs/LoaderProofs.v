(* Lemmas about the checked-loader model (C02): model/Loader.v. *)
From Coq Require Import List String ZArith Bool Arith Lia.
From Coq.Strings Require Import Byte.
From Verif Require Import Base Hooks HooksProofs Ops Interp RefVM Codec CodecProofs Analysis Severity
  SeverityProofs Loader.
Import ListNotations.
Local Open Scope list_scope.
Local Open Scope nat_scope.

(* ---------- every verdict is a member of the enum ---------- *)
Lemma find_sev_bound name : forall l (i s : nat), find_sev name i l = Some s -> i <= s < i + List.length l.
Proof.
  induction l as [|[n v] r IH]; intros i s H; simpl in H; [discriminate|].
  destruct (String.eqb n name).
  - inversion H; subst. simpl. lia.
  - apply IH in H. simpl. lia.
Qed.

Lemma finding_sev_wf f : wf (finding_sev f).
Proof.
  unfold finding_sev, wf. destruct (sev_of_name (f_sev f)) eqn:E.
  - unfold sev_of_name in E. apply find_sev_bound in E. unfold nsev, sev in *. vm_compute in E. vm_compute. lia.
  - rewrite nsev_6. lia.
Qed.

Lemma verdict_wf fs : wf (verdict fs).
Proof.
  unfold verdict. apply severity_wf. apply Forall_forall. intros x Hx.
  apply in_map_iff in Hx. destruct Hx as (f & <- & _). apply finding_sev_wf.
Qed.

(* ---------- the bytes of the first pickle, as the parse saw them (C06) ---------- *)
Definition analysed_bytes (s : stream) (p : loaded) : list byte :=
  match s_kind s with
  | KBytes => firstn (l_end p) (s_at s T_PARSE)
  | KSeekable => firstn (l_end p - s_off s) (skipn (s_off s) (s_at s T_PARSE))
  | KNonSeekable => firstn (l_end p) (skipn (s_off s) (s_at s T_PARSE))
  end.

Lemma nonseekable_as_bytes bs off r :
  load_model KNonSeekable bs off = LOk r ->
  load_model KBytes (skipn off bs) 0 = LOk (mkLoaded (l_ops r) (l_end r) None).
Proof.
  exact (nonseekable_as_bytes_model bs off r).
Qed.

Lemma dumps_is_first_pickle s p :
  load_model (s_kind s) (s_at s T_PARSE) (s_off s) = LOk p ->
  dumps (l_ops p) = Ok (analysed_bytes s p) /\ ends_in_stop (l_ops p) (l_end p).
Proof.
  unfold analysed_bytes. destruct (s_kind s); intro H.
  - apply bytes_exact in H. destruct H as (A & B & _). split; assumption.
  - apply seekable_exact in H. destruct H as (A & B & _). split; assumption.
  - apply nonseekable_as_bytes in H. apply bytes_exact in H. simpl in H.
    destruct H as (A & B & _). split; assumption.
Qed.

(* a bytes object: the parse re-serialises to the first pickle of the buffer *)
Lemma parse_bytes_exact data p2 :
  parse_bytes data = LOk p2 ->
  dumps (l_ops p2) = Ok (firstn (l_end p2) data) /\ ends_in_stop (l_ops p2) (l_end p2) /\
  0 < l_end p2 <= List.length data.
Proof.
  unfold parse_bytes. intro H. apply bytes_exact in H. destruct H as (A & B & _ & C & _).
  repeat split; try assumption; lia.
Qed.

Section WithWorld.
Variable V : Type.
Variable unpickle : list byte -> ures V * list event.
Variable decode : list opc -> option (list op * list (nat * Z)).
Variable crepr : const -> string.
Variable std : string -> bool.

Notation load_core := (Loader.load_core V unpickle decode crepr std).
Notation load := (Loader.load V unpickle decode crepr std).
Notation armed_with := (Loader.armed_with V).
Notation check := (Loader.check crepr std).

(* the first Pickled.load returned opcodes that re-serialise to [data] *)
Definition data_of (p1 : lres (list opc)) (data : list byte) : Prop :=
  exists ops1, p1 = LOk ops1 /\ dumps ops1 = Ok data.

(* the re-parse of [data] succeeded and its analysis returned findings fs *)
Definition analysed (data : list byte) (p2 : loaded) (fs : list finding) : Prop :=
  exists prog protos,
    parse_bytes data = LOk p2 /\
    decode (l_ops p2) = Some (prog, protos) /\
    check prog protos = COk fs.

(* why a call was refused -- for ANY result p1 of the first parse *)
Inductive refusal (p1 : lres (list opc)) (thr : sev) : lexn -> Prop :=
| RParse e : p1 = LErr e -> refusal p1 thr (XParse e)
| RDumps ops1 e : p1 = LOk ops1 -> dumps ops1 = Err e -> refusal p1 thr (XDumps e)
| RReparse data e : data_of p1 data -> parse_bytes data = LErr e -> refusal p1 thr (XParse e)
| RDecode data p2 :
    data_of p1 data -> parse_bytes data = LOk p2 -> decode (l_ops p2) = None ->
    refusal p1 thr (XParse LDecode)
| RAnalysis data p2 prog protos a :
    data_of p1 data -> parse_bytes data = LOk p2 -> decode (l_ops p2) = Some (prog, protos) ->
    check prog protos = CErr a -> refusal p1 thr (XAnalysis a)
| RUnsafe data p2 fs :
    data_of p1 data -> analysed data p2 fs -> sev_le (verdict fs) thr = false ->
    refusal p1 thr (XUnsafe (to_dict fs)).

(* the two shapes of a run: accepted-and-unpickled, or refused with nothing done *)
Lemma core_cases p1 rd thr :
  (exists data p2 fs, data_of p1 data /\ analysed data p2 fs /\ sev_le (verdict fs) thr = true /\
                      load_core p1 rd thr = finish V (unpickle data) data rd)
  \/ (exists x, refusal p1 thr x /\ load_core p1 rd thr = refuse V x rd).
Proof.
  unfold Loader.load_core.
  destruct p1 as [ops1|e].
  2:{ right. exists (XParse e). split; [apply RParse; reflexivity|reflexivity]. }
  destruct (dumps ops1) as [data|e] eqn:ED.
  2:{ right. exists (XDumps e). split; [eapply RDumps; [reflexivity|exact ED]|reflexivity]. }
  assert (HD : data_of (LOk ops1) data) by (exists ops1; split; [reflexivity|exact ED]).
  destruct (parse_bytes data) as [p2|e] eqn:EP.
  2:{ right. exists (XParse e). split; [eapply RReparse; eassumption|reflexivity]. }
  destruct (decode (l_ops p2)) as [[prog protos]|] eqn:EDc.
  2:{ right. exists (XParse LDecode). split; [eapply RDecode; eassumption|reflexivity]. }
  destruct (Loader.check crepr std prog protos) as [fs|a] eqn:EC.
  2:{ right. exists (XAnalysis a). split; [eapply RAnalysis; eassumption|reflexivity]. }
  assert (HA : analysed data p2 fs) by (exists prog, protos; repeat split; assumption).
  destruct (sev_le (verdict fs) thr) eqn:ES.
  - left. exists data, p2, fs. repeat split; assumption.
  - right. exists (XUnsafe (to_dict fs)). split; [eapply RUnsafe; eassumption|reflexivity].
Qed.

Lemma finish_out u bs rd v : r_out (finish V u bs rd) = Return v -> fst u = UVal v.
Proof. unfold finish. simpl. destruct (fst u); intro H; inversion H. reflexivity. Qed.

(* ---- C02_returns_only_if_accepted (+ equals stock), for ANY first parse ---- *)
Lemma returns_only_if_accepted p1 rd thr v :
  wf thr -> r_out (load_core p1 rd thr) = Return v ->
  exists data p2 fs,
    data_of p1 data /\ analysed data p2 fs /\
    sev_le (verdict fs) thr = true /\ doc_rank (verdict fs) <= doc_rank thr /\
    dumps (l_ops p2) = Ok (firstn (l_end p2) data) /\ ends_in_stop (l_ops p2) (l_end p2) /\
    fst (unpickle data) = UVal v /\
    r_events (load_core p1 rd thr) = snd (unpickle data) /\
    r_loaded (load_core p1 rd thr) = Some data.
Proof.
  intros Hthr H. destruct (core_cases p1 rd thr) as [(data & p2 & fs & HD & HA & HS & E)|(x & _ & E)];
    rewrite E in *.
  - exists data, p2, fs. split; [exact HD|]. split; [exact HA|]. split; [exact HS|].
    split. { rewrite le_spec in HS by (try apply verdict_wf; assumption). apply Nat.leb_le. exact HS. }
    destruct HA as (g & r & A & _). destruct (parse_bytes_exact data p2 A) as (D1 & D2 & _).
    split; [exact D1|]. split; [exact D2|].
    split; [apply finish_out in H; exact H|]. split; reflexivity.
  - discriminate H.
Qed.

(* ---- C02_fail_closed ---- *)
Lemma refused_nothing_ran p1 rd thr x :
  refusal p1 thr x ->
  load_core p1 rd thr = refuse V x rd /\
  r_out (load_core p1 rd thr) = Raise x /\ r_events (load_core p1 rd thr) = [] /\
  r_loaded (load_core p1 rd thr) = None.
Proof.
  intro R.
  assert (E : load_core p1 rd thr = refuse V x rd).
  { unfold Loader.load_core.
    destruct R as [e H|ops1 e H H'|data e (o & H & H') H''|data p2 (o & H & H') H'' H3
                  |data p2 g r a (o & H & H') H'' H3 H4|data p2 fs (o & H & H') (g & r & H'' & H3 & H4) HS];
      subst p1.
    - reflexivity.
    - rewrite H'. reflexivity.
    - rewrite H', H''. reflexivity.
    - rewrite H', H'', H3. reflexivity.
    - rewrite H', H'', H3, H4. reflexivity.
    - rewrite H', H'', H3, H4, HS. reflexivity. }
  rewrite E. repeat split.
Qed.

Lemma unsafe_carries_verdict p1 rd thr data p2 fs :
  wf thr -> data_of p1 data -> analysed data p2 fs ->
  (sev_le (verdict fs) thr = false <-> doc_rank thr < doc_rank (verdict fs)) /\
  (sev_le (verdict fs) thr = false ->
     r_out (load_core p1 rd thr) = Raise (XUnsafe (to_dict fs)) /\
     rp_severity (to_dict fs) = sev_name (verdict fs) /\ rp_findings (to_dict fs) = fs /\
     r_events (load_core p1 rd thr) = [] /\ r_loaded (load_core p1 rd thr) = None).
Proof.
  intros Hthr HD HA. split.
  - rewrite le_spec by (try apply verdict_wf; assumption). rewrite Nat.leb_gt. reflexivity.
  - intro HS. destruct (refused_nothing_ran p1 rd thr (XUnsafe (to_dict fs)) (RUnsafe p1 thr data p2 fs HD HA HS))
      as (_ & A & B & C). repeat split; assumption.
Qed.

(* anything that happened (an event, a call of the unpickler) implies acceptance *)
Lemma effects_only_if_accepted p1 rd thr :
  r_events (load_core p1 rd thr) <> [] \/ r_loaded (load_core p1 rd thr) <> None ->
  exists data p2 fs, data_of p1 data /\ analysed data p2 fs /\ sev_le (verdict fs) thr = true /\
                     r_loaded (load_core p1 rd thr) = Some data /\
                     r_events (load_core p1 rd thr) = snd (unpickle data).
Proof.
  intro H. destruct (core_cases p1 rd thr) as [(data & p2 & fs & HD & HA & HS & E)|(x & _ & E)]; rewrite E in *.
  - exists data, p2, fs. repeat split; assumption.
  - simpl in H. destruct H as [H|H]; contradiction H; reflexivity.
Qed.

(* ---- C02_bytes_executed_are_bytes_analysed, with NO assumption on the first parse ---- *)
Lemma executed_is_analysed p1 rd thr bs :
  r_loaded (load_core p1 rd thr) = Some bs ->
  data_of p1 bs /\
  exists p2 prog protos fs,
    parse_bytes bs = LOk p2 /\ decode (l_ops p2) = Some (prog, protos) /\
    check prog protos = COk fs /\ sev_le (verdict fs) thr = true /\
    dumps (l_ops p2) = Ok (firstn (l_end p2) bs) /\ ends_in_stop (l_ops p2) (l_end p2) /\
    0 < l_end p2 <= List.length bs.
Proof.
  intro H. destruct (core_cases p1 rd thr) as [(data & p2 & fs & HD & HA & HS & E)|(x & _ & E)]; rewrite E in H.
  - simpl in H. inversion H; subst bs. split; [exact HD|].
    destruct HA as (g & r & A & B & C). destruct (parse_bytes_exact data p2 A) as (D1 & D2 & D3).
    exists p2, g, r, fs. repeat split; try assumption; lia.
  - discriminate H.
Qed.

(* the whole run is a function of the bytes the first parse re-serialises to -- positions, and whatever
   arguments the tokeniser decoded while reading the stream, play no role *)
Lemma core_depends_on_dumps_only ops1 ops1' rd thr :
  dumps ops1 = dumps ops1' -> load_core (LOk ops1) rd thr = load_core (LOk ops1') rd thr.
Proof. intro H. unfold Loader.load_core. rewrite H. reflexivity. Qed.

Lemma core_reads p1 rd thr : r_reads (load_core p1 rd thr) = rd.
Proof.
  destruct (core_cases p1 rd thr) as [(data & p2 & fs & _ & _ & _ & E)|(x & _ & E)]; rewrite E; reflexivity.
Qed.

Lemma equals_stock p1 rd thr v :
  r_out (load_core p1 rd thr) = Return v ->
  exists bs, r_loaded (load_core p1 rd thr) = Some bs /\ unpickle bs = (UVal v, r_events (load_core p1 rd thr)).
Proof.
  intro H. destruct (core_cases p1 rd thr) as [(data & p2 & fs & _ & _ & _ & E)|(x & _ & E)]; rewrite E in *.
  - exists data. split; [reflexivity|]. apply finish_out in H. simpl.
    destruct (unpickle data) as [u ev]. simpl in *. subst u. reflexivity.
  - discriminate H.
Qed.

(* ---------- streams that are stable while they are parsed ---------- *)
Lemma first_parse_data s data :
  data_of (first_parse s) data ->
  exists p, load_model (s_kind s) (s_at s T_PARSE) (s_off s) = LOk p /\
            data = analysed_bytes s p /\ ends_in_stop (l_ops p) (l_end p).
Proof.
  unfold first_parse. intros (ops1 & H & D).
  destruct (load_model (s_kind s) (s_at s T_PARSE) (s_off s)) as [p|e] eqn:EL; [|discriminate].
  inversion H; subst ops1. destruct (dumps_is_first_pickle s p EL) as (D' & S).
  rewrite D' in D. inversion D. exists p. repeat split; assumption.
Qed.

Lemma loaded_is_first_pickle s thr bs :
  r_loaded (load s thr) = Some bs ->
  exists p, load_model (s_kind s) (s_at s T_PARSE) (s_off s) = LOk p /\
            bs = analysed_bytes s p /\ ends_in_stop (l_ops p) (l_end p).
Proof.
  unfold Loader.load. intro H. apply executed_is_analysed in H. destruct H as (HD & _).
  apply first_parse_data. exact HD.
Qed.

(* what precedes the analysed pickle in the stream, and what follows it, is never executed *)
Lemma surroundings_irrelevant s thr pre b rest r bs :
  s_kind s = KSeekable -> s_off s = List.length pre -> s_at s T_PARSE = pre ++ b ++ rest ->
  load_model KSeekable b 0 = LOk r -> l_end r = List.length b ->
  r_loaded (load s thr) = Some bs -> bs = b.
Proof.
  intros K O C L E H. apply loaded_is_first_pickle in H. destruct H as (p & LP & HB & _).
  subst bs. rewrite K, O, C in LP. rewrite (seekable_prefix pre b rest r L) in LP.
  inversion LP; subst p; clear LP.
  unfold analysed_bytes. rewrite K, O, C. cbn [l_end shift_loaded].
  replace (List.length pre + l_end r - List.length pre) with (List.length b) by lia.
  rewrite skipn_app, skipn_all, Nat.sub_diag. cbn [skipn app].
  rewrite firstn_app, firstn_all, Nat.sub_diag. cbn [firstn]. apply app_nil_r.
Qed.

Lemma later_content_irrelevant s s' thr :
  s_kind s = s_kind s' -> s_off s = s_off s' -> s_at s T_PARSE = s_at s' T_PARSE ->
  load s thr = load s' thr.
Proof. intros A B C. unfold Loader.load, first_parse. rewrite A, B, C. reflexivity. Qed.

Lemma reads_only_during_parse s thr t : In t (r_reads (load s thr)) -> t = T_PARSE.
Proof.
  unfold Loader.load. rewrite core_reads. destruct (s_kind s); simpl; intuition.
Qed.

(* ---- C02_armed_equiv ---- *)
Lemma armed_equiv (checked : sev -> lrun V) (stock : lrun V) h a :
  g_ml (grun g_init h) = None ->
  armed_with checked stock h a =
    Some (checked (match a with ADirect thr => thr | _ => LIKELY_SAFE end)).
Proof.
  intro HG. destruct a as [thr| |t]; [reflexivity| |];
    unfold Loader.armed_with, Loader.pickle_load_with, arm_ops; simpl hrun;
    destruct (others_reachable h) as (P & _); rewrite HG in P; simpl in P.
  - simpl. rewrite P. reflexivity.
  - simpl. rewrite P. reflexivity.
Qed.

End WithWorld.

(* the context manager's effective threshold LIKELY_SAFE is at or below any threshold it is given *)
Lemma likely_safe_lowest t : wf t -> doc_rank LIKELY_SAFE <= doc_rank t.
Proof. intros _. rewrite LIKELY_SAFE_rank. lia. Qed.

(* ---------- the 6 x 6 threshold table over the regenerated SevTable ---------- *)
Definition threshold_table_ok : bool :=
  forallb (fun a => forallb (fun b => Bool.eqb (sev_le a b) (doc_rank a <=? doc_rank b)) all_thresholds)
          all_thresholds.

Lemma threshold_table : threshold_table_ok = true /\ List.length all_thresholds = 6.
Proof. split; vm_compute; reflexivity. Qed.

Lemma threshold_spec a b :
  In a all_thresholds -> In b all_thresholds -> sev_le a b = (doc_rank a <=? doc_rank b).
Proof.
  intros Ha Hb. destruct threshold_table as (T & _). unfold threshold_table_ok in T.
  rewrite forallb_forall in T. specialize (T a Ha). rewrite forallb_forall in T. specialize (T b Hb).
  apply Bool.eqb_prop in T. exact T.
Qed.
