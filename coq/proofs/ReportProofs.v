(* C19: every finding any analysis can construct is well formed (severity in the enum, a non-empty
   message, a JSON-serialisable trigger, consistent with its construction site in the live source), and
   the report built from them is JSON-serialisable; the loader's error carries that report. *)
From Coq Require Import List String Ascii ZArith Bool Arith Lia.
From Verif Require Import Base Ops Interp Unparse Severity SeverityProofs AnalysisTable MLTable ReportTable
  Analysis AnalysisProofs FloorProofs.
Import ListNotations.
Local Open Scope nat_scope.
Local Open Scope list_scope.

Definition trig_ok (t : trigger) : bool := match t with TOpaque _ => false | _ => true end.

(* what the property asks of one finding *)
Definition finding_good (f : finding) : Prop :=
  sev_of_name (f_sev f) <> None /\
  (exists m, f_msg f = Some m /\ m <> ""%string) /\
  trig_ok (f_trig f) = true /\
  (exists parts tr, find_site (fst (f_site f)) (snd (f_site f)) report_sites
                    = Some (f_sev f, (Some (f_analysis f), (parts, tr)))).

(* ---------- the decidable check of one construction site ---------- *)
Definition has_lit (parts : list mpart) : bool :=
  existsb (fun p => match p with MLit s => negb (String.eqb s "") | MVar _ => false end) parts.
Definition tr_bound (n : nat) (tr : trsrc) : bool :=
  match tr with
  | TrNone => true
  | TrRef k => k <? n
  | TrTuple l => forallb (fun k => k <? n) l
  | TrOther _ => false
  end.
Definition site_check (cls : string) (idx : nat) (aname sev : string) (nenv : nat) : bool :=
  match find_site cls idx report_sites with
  | Some (sev', (Some an', (Some parts, tr))) =>
      String.eqb sev' sev && String.eqb an' aname && has_lit parts && tr_bound nenv tr &&
      match sev_of_name sev with Some _ => true | None => false end
  | _ => false
  end.

Lemma app_empty (a b : string) : (a ++ b)%string = ""%string -> a = ""%string /\ b = ""%string.
Proof. destruct a; cbn; [auto | discriminate]. Qed.

Lemma concat_empty : forall l, String.concat "" l = ""%string -> Forall (fun x => x = ""%string) l.
Proof.
  induction l as [|x r IH]; intros H; [constructor|].
  destruct r as [|y r'].
  - cbn in H. constructor; [exact H | constructor].
  - change (String.concat "" (x :: y :: r')) with (x ++ "" ++ String.concat "" (y :: r'))%string in H.
    apply app_empty in H. destruct H as [Hx H]. cbn [append] in H.
    constructor; [exact Hx | apply IH; exact H].
Qed.

Lemma message_nonempty env parts :
  has_lit parts = true -> String.concat "" (map (fill_part env) parts) <> ""%string.
Proof.
  intros H E. apply concat_empty in E. unfold has_lit in H. apply existsb_exists in H.
  destruct H as (p & Hin & Hp). destruct p as [s|src]; [|discriminate].
  rewrite Forall_forall in E. specialize (E (fill_part env (MLit s)) (in_map _ _ _ Hin)).
  cbn in E. subst s. discriminate.
Qed.

Lemma nth_bound (env : benv) k : (k <? List.length env) = true -> exists b, nth_error env k = Some b.
Proof.
  intros H. apply Nat.ltb_lt in H. destruct (nth_error env k) eqn:E; [eauto|].
  apply nth_error_None in E. lia.
Qed.

Lemma bind_all_bound (env : benv) : forall ks,
  forallb (fun k => k <? List.length env) ks = true -> exists l, bind_all env ks = Some l.
Proof.
  induction ks as [|x r IH]; cbn; [eauto|]. intros H. apply andb_true_iff in H. destruct H as [Hx Hr].
  destruct (nth_bound env x Hx) as (b & ->). destruct (IH Hr) as (l & ->). eauto.
Qed.

Lemma mkF_good cls idx aname sev tt env :
  site_check cls idx aname sev (List.length env) = true -> finding_good (mkF cls idx aname sev tt env).
Proof.
  unfold site_check, finding_good, mkF, site_message, site_trigger. cbn [f_sev f_msg f_trig f_site f_analysis fst snd].
  destruct (find_site cls idx report_sites) as [[sev' [[an'|] [[parts|] tr]]]|]; try discriminate.
  intros H. repeat (apply andb_true_iff in H; destruct H as [H ?]).
  apply String.eqb_eq in H. subst sev'.
  match goal with X : String.eqb an' aname = true |- _ => apply String.eqb_eq in X; subst an' end.
  split; [destruct (sev_of_name sev); [discriminate | discriminate] |].
  split; [eexists; split; [reflexivity | apply message_nonempty; assumption] |].
  split; [| eauto].
  destruct tr as [|k|ks|src]; cbn [tr_bound] in *.
  - reflexivity.
  - match goal with X : (k <? _) = true |- _ => destruct (nth_bound env k X) as (b & ->) end. reflexivity.
  - match goal with X : forallb _ ks = true |- _ => destruct (bind_all_bound env ks X) as (l & ->) end. reflexivity.
  - discriminate.
Qed.

Ltac site := apply mkF_good; vm_compute; reflexivity.

Lemma Forall_flat_map {A B} (P : B -> Prop) (g : A -> list B) l :
  (forall x, In x l -> Forall P (g x)) -> Forall P (flat_map g l).
Proof.
  induction l as [|x r IH]; intros H; cbn; [constructor|].
  apply Forall_app. split; [apply H; left; reflexivity | apply IH; intros y Hy; apply H; right; exact Hy].
Qed.

Section Good.
Variable crepr : const -> string.
Variable std : string -> bool.

Local Opaque mkF shorten unparse_expr.

Lemma good_dup : forall later seen, Forall finding_good (dup_protos seen later).
Proof.
  induction later as [|[i v] r IH]; intros seen; cbn [dup_protos]; constructor; [|apply IH].
  destruct (z_mem v seen); site.
Qed.

Lemma good_protos protos :
  Forall finding_good (fst (proto_findings protos)) /\ Forall finding_good (snd (proto_findings protos)).
Proof.
  unfold proto_findings. cbn [fst snd]. split.
  - destruct protos as [|[i v] r]; [constructor | apply good_dup].
  - apply Forall_flat_map. intros iv _.
    destruct ((2 <=? snd iv)%Z && (0 <? fst iv)); [constructor; [site | constructor] | constructor].
Qed.

Lemma good_nonstd : forall imps d, Forall finding_good (fst (non_standard_imports std imps d)).
Proof.
  induction imps as [|mn r IH]; intros d; cbn [non_standard_imports]; [constructor|].
  destruct (std (fst mn)); [apply IH|].
  specialize (IH (add (shorten (imp_text mn)) d)).
  destruct (non_standard_imports std r _) as [fs d']. cbn [fst] in *.
  apply Forall_app. split; [|exact IH].
  destruct (mem_str _ d); [constructor | constructor; [site | constructor]].
Qed.

Lemma good_unsafe_ml : forall imps d, Forall finding_good (fst (unsafe_imports_ml imps d)).
Proof.
  induction imps as [|mn r IH]; intros d; cbn [unsafe_imports_ml]; [constructor|].
  specialize (IH (add (shorten (imp_text mn)) d)).
  destruct (unsafe_imports_ml r _) as [fs d']. cbn [fst] in *.
  apply Forall_app. split; [|apply Forall_app; split; [|exact IH]].
  - apply Forall_flat_map. intros p _.
    destruct (mem_str p unsafe_modules); [constructor; [site | constructor] | constructor].
  - destruct (assoc_str (fst mn) unsafe_imports) as [names|].
    + destruct (mem_str (snd mn) names); [constructor; [site | constructor] | constructor].
    + destruct (String.eqb (snd mn) "eval"); [constructor; [site | constructor] | constructor].
Qed.

Lemma good_bad_calls ns : forall calls d, Forall finding_good (fst (bad_calls_an crepr ns calls d)).
Proof.
  induction calls as [|c r IH]; intros d; cbn [bad_calls_an]; [constructor|].
  destruct (bad_prefix _); [|apply IH].
  specialize (IH (add (shorten (call_text crepr ns c)) d)).
  destruct (bad_calls_an crepr ns r _) as [fs d']. cbn [fst] in *.
  constructor; [site | exact IH].
Qed.

Lemma good_overt ns safe : forall calls d, Forall finding_good (fst (overtly_bad_evals crepr ns safe calls d)).
Proof.
  induction calls as [|c r IH]; intros d; cbn [overtly_bad_evals]; [constructor|].
  destruct (match callee_id c with Some s => mem_str s safe | None => false end); [apply IH|].
  specialize (IH (add (shorten (call_text crepr ns c)) d)).
  destruct (overtly_bad_evals crepr ns safe r _) as [fs d']. cbn [fst] in *.
  apply Forall_app. split; [|exact IH].
  destruct (overt_prefix _); [constructor; [site | constructor]|].
  destruct (mem_str _ d); [constructor | constructor; [site | constructor]].
Qed.

Lemma good_unsafe_imports : forall imps d, Forall finding_good (fst (unsafe_imports_an imps d)).
Proof.
  induction imps as [|mn r IH]; intros d; cbn [unsafe_imports_an]; [constructor|].
  destruct (mem_str (fst mn) unsafe_imports_modules || String.eqb (snd mn) "eval"); [|apply IH].
  specialize (IH (add (shorten (imp_text mn)) d)).
  destruct (unsafe_imports_an r _) as [fs d']. cbn [fst] in *.
  constructor; [site | exact IH].
Qed.

Lemma good_unused ns : forall un d, Forall finding_good (fst (unused_variables_an crepr ns un d)).
Proof.
  induction un as [|[i e] r IH]; intros d; cbn [unused_variables_an]; [constructor|].
  specialize (IH (add (shorten (call_text crepr ns e)) d)).
  destruct (unused_variables_an crepr ns r _) as [fs d']. cbn [fst] in *.
  constructor; [site | exact IH].
Qed.

Lemma good_ml : forall imps d, Forall finding_good (fst (ml_allowlist_an imps d)).
Proof.
  induction imps as [|mn r IH]; intros d; cbn [ml_allowlist_an]; [constructor|].
  specialize (IH (add (shorten (imp_text mn)) d)).
  destruct (ml_allowlist_an r _) as [fs d']. cbn [fst] in *.
  apply Forall_app. split; [|exact IH].
  destruct (mem_str _ d); [constructor|].
  destruct (assoc_str (fst mn) ml_allowlist) as [names|].
  - destruct (mem_str (snd mn) names); [constructor | constructor; [site | constructor]].
  - constructor; [site | constructor].
Qed.

Theorem analyze_good protos s :
  exists fs, analyze crepr std protos s = Some fs /\ Forall finding_good fs.
Proof.
  rewrite analyze_eq. cbv zeta. eexists. split; [reflexivity|].
  destruct (good_protos protos) as [G1 G2].
  repeat (apply Forall_app; split);
    auto using good_nonstd, good_unsafe_ml, good_bad_calls, good_overt, good_unsafe_imports, good_unused, good_ml.
Qed.

End Good.

(* ---------- the report ---------- *)
Lemma json_of_bvals_ok l : forallb json_ok (map json_of_bval l) = true.
Proof. induction l as [|[s|z] r IH]; cbn; auto. Qed.

Lemma trigger_json_ok t : trig_ok t = true -> trigger_truthy t = true -> json_ok (json_of_trigger t) = true.
Proof.
  destruct t as [|[s|z]|l|src]; cbn; intros H1 H2; try discriminate; auto.
  apply json_of_bvals_ok.
Qed.

Lemma jset_ok k v : forall l,
  json_ok v = true -> forallb (fun kv => json_ok (snd kv)) l = true ->
  forallb (fun kv => json_ok (snd kv)) (jset k v l) = true.
Proof.
  induction l as [|[k' v'] r IH]; intros Hv Hl; cbn [jset].
  - cbn. rewrite Hv. reflexivity.
  - cbn in Hl. apply andb_true_iff in Hl. destruct Hl as [H1 H2].
    destruct (String.eqb k k'); cbn; [rewrite Hv, H2 | rewrite H1, IH]; auto.
Qed.

Lemma detailed_entries_ok : forall fs acc,
  Forall finding_good fs -> forallb (fun kv => json_ok (snd kv)) acc = true ->
  forallb (fun kv => json_ok (snd kv))
    (fold_left (fun acc f => if trigger_truthy (f_trig f)
                             then jset (f_analysis f) (json_of_trigger (f_trig f)) acc else acc) fs acc) = true.
Proof.
  induction fs as [|f r IH]; intros acc HF Hacc; cbn [fold_left]; [exact Hacc|].
  inversion HF as [|? ? Hf Hr]; subst. apply IH; [exact Hr|].
  destruct (trigger_truthy (f_trig f)) eqn:T; [|exact Hacc].
  apply jset_ok; [|exact Hacc]. destruct Hf as (_ & _ & Ht & _). apply trigger_json_ok; assumption.
Qed.

Theorem report_json_ok v fs : Forall finding_good fs -> json_ok (to_dict v fs) = true.
Proof.
  intros HF. unfold to_dict. cbn [json_ok forallb snd]. rewrite andb_true_r.
  unfold detailed_results, detailed_entries.
  pose proof (detailed_entries_ok fs [] HF eq_refl) as H.
  destruct (fold_left _ fs []) as [|e es]; [reflexivity|].
  cbn [json_ok forallb snd]. rewrite andb_true_r. exact H.
Qed.

Theorem loader_same_report thr fs info :
  loader thr fs = Unsafe info -> info = to_dict default_verbosity fs /\ info = json_file fs.
Proof.
  unfold loader, json_file. destruct (sev_le (verdict fs) thr); [discriminate|].
  intros H. inversion H. auto.
Qed.

(* the loader refuses exactly when the verdict is not <= the threshold *)
Theorem loader_refuses thr fs :
  sev_le (verdict fs) thr = false -> loader thr fs = Unsafe (to_dict default_verbosity fs).
Proof. unfold loader. intros ->. reflexivity. Qed.
