(* Lemmas about the CLI model (C18): model/Cli.v. *)
From Coq Require Import List String Ascii ZArith Bool Arith Lia Decimal DecimalString DecimalZ.
From Coq.Strings Require Import Byte.
From Verif Require Import Base Ops Interp Cli.
Import ListNotations.
Local Open Scope nat_scope.
Local Open Scope list_scope.

(* ================= injection ================= *)
Lemma set_nth_length : forall {A} i (x : A) l, List.length (set_nth i x l) = List.length l.
Proof. intros A i x l. revert i. induction l as [|y l IH]; intros [|i]; simpl; auto. Qed.

Lemma skipn_set_nth : forall {A} i (x : A) l, skipn (S i) (set_nth i x l) = skipn (S i) l.
Proof.
  intros A i x l. revert i. induction l as [|y l IH]; intros [|i]; try reflexivity.
  cbn [set_nth]. change (skipn (S (S i)) (y :: set_nth i x l)) with (skipn (S i) (set_nth i x l)).
  rewrite IH. reflexivity.
Qed.

Lemma slice_bound_nat : forall n k, k <= n -> slice_bound n (Z.of_nat k) = k.
Proof.
  intros n k L. unfold slice_bound. destruct (Z.of_nat k <? 0)%Z eqn:E; [lia|].
  rewrite Nat2Z.id. lia.
Qed.

Lemma py_index_nat : forall n k, k < n -> py_index n (Z.of_nat k) = Some k.
Proof.
  intros n k L. unfold py_index. destruct (Z.of_nat k <? 0)%Z eqn:E; [lia|].
  destruct (Z.of_nat k <? Z.of_nat n)%Z eqn:F; [|lia]. rewrite Nat2Z.id. reflexivity.
Qed.

Section InjectProofs.
  Variables P B : Type.
  Variable inject : P -> res P.
  Variable dumps : P -> B.
  Variable stop : P -> bool.

  Lemma inject_in_range : forall ps k p p',
    nth_error ps k = Some p -> inject p = Ok p' ->
    cli_inject inject dumps stop ps (Z.of_nat k)
    = mkOut (map dumps (firstn k ps) ++ dumps p' :: map dumps (skipn (S k) ps)) (negb (stop p)) (Exit 0).
  Proof.
    intros ps k p p' N I.
    assert (L : k < List.length ps) by (apply nth_error_Some; congruence).
    unfold cli_inject. destruct (Z.of_nat k >=? Z.of_nat (List.length ps))%Z eqn:E; [lia|].
    rewrite (py_index_nat _ _ L), N, I. unfold py_upto, py_from.
    rewrite slice_bound_nat by lia. rewrite set_nth_length.
    replace (Z.of_nat k + 1)%Z with (Z.of_nat (S k)) by lia. rewrite slice_bound_nat by lia.
    rewrite skipn_set_nth. reflexivity.
  Qed.

  Lemma inject_out_of_range : forall ps k,
    (Z.of_nat (List.length ps) <= k)%Z ->
    cli_inject inject dumps stop ps k = mkOut [] true (Exit 1).
  Proof.
    intros ps k L. unfold cli_inject.
    destruct (k >=? Z.of_nat (List.length ps))%Z eqn:E; [reflexivity|lia].
  Qed.

  Lemma inject_raises_prefix : forall ps k p e,
    nth_error ps k = Some p -> inject p = Err e ->
    cli_inject inject dumps stop ps (Z.of_nat k) = mkOut (map dumps (firstn k ps)) true (Raised e).
  Proof.
    intros ps k p e N I.
    assert (L : k < List.length ps) by (apply nth_error_Some; congruence).
    unfold cli_inject. destruct (Z.of_nat k >=? Z.of_nat (List.length ps))%Z eqn:E; [lia|].
    rewrite (py_index_nat _ _ L), N, I. unfold py_upto. rewrite slice_bound_nat by lia. reflexivity.
  Qed.

  (* the full statement about targets 0 <= k, every list *)
  Lemma inject_local : forall ps k,
    (k < List.length ps ->
       forall p, nth_error ps k = Some p ->
       (forall p', inject p = Ok p' ->
          let out := cli_inject inject dumps stop ps (Z.of_nat k) in
          o_stdout out = map dumps (firstn k ps) ++ [dumps p'] ++ map dumps (skipn (S k) ps) /\
          List.length (o_stdout out) = List.length ps /\
          nth_error (o_stdout out) k = Some (dumps p') /\
          (forall j, j <> k -> nth_error (o_stdout out) j = option_map dumps (nth_error ps j)) /\
          o_status out = Exit 0 /\ o_stderr out = negb (stop p)) /\
       (forall e, inject p = Err e ->
          let out := cli_inject inject dumps stop ps (Z.of_nat k) in
          o_stdout out = map dumps (firstn k ps) /\ o_status out = Raised e /\ o_stderr out = true)) /\
    (List.length ps <= k ->
       let out := cli_inject inject dumps stop ps (Z.of_nat k) in
       o_stdout out = [] /\ o_status out = Exit 1 /\ status_ok (o_status out) = false /\
       o_stderr out = true).
  Proof.
    intros ps k. split.
    - intros L p N. split.
      + intros p' I. cbv zeta. rewrite (inject_in_range _ _ _ _ N I). cbn [o_stdout o_status o_stderr].
        assert (Lf : List.length (map dumps (firstn k ps)) = k)
          by (rewrite map_length, firstn_length; lia).
        split; [reflexivity|]. split.
        { rewrite app_length, Lf. cbn [List.length]. rewrite map_length, skipn_length. lia. }
        split.
        { rewrite nth_error_app2 by lia. rewrite Lf, Nat.sub_diag. reflexivity. }
        split; [|split; reflexivity].
        intros j NE. destruct (Nat.lt_ge_cases j k) as [Lt|Ge].
        * rewrite nth_error_app1 by lia. rewrite nth_error_map.
          rewrite <- (firstn_skipn k ps) at 2. rewrite nth_error_app1; [reflexivity|].
          rewrite firstn_length; lia.
        * rewrite nth_error_app2 by lia. rewrite Lf.
          destruct (j - k) as [|d] eqn:D; [lia|]. cbn [nth_error].
          rewrite nth_error_map. replace j with (S k + d) by lia.
          rewrite <- (firstn_skipn (S k) ps) at 2.
          rewrite nth_error_app2 by (rewrite firstn_length; lia).
          rewrite firstn_length. replace (S k + d - Nat.min (S k) (List.length ps)) with d by lia.
          reflexivity.
      + intros e I. cbv zeta. rewrite (inject_raises_prefix _ _ _ _ N I). repeat split.
    - intros L. cbv zeta. rewrite inject_out_of_range by lia. repeat split.
  Qed.
End InjectProofs.

(* ================= composition with C06: the emitted bytes re-parse ================= *)
From Verif Require Import OpTable Codec CodecProofs.
Local Open Scope nat_scope.
Local Open Scope list_scope.

Definition dumps_bytes (p : list opc) : list byte :=
  match Codec.dumps p with Ok b => b | Err _ => [] end.

Lemma forall2_dumps_map : forall parts (items : list (list byte * list opc)),
  Forall2 (fun part bp => Codec.dumps part = Ok (fst bp)) parts items ->
  map dumps_bytes parts = map fst items.
Proof.
  induction 1 as [|x y l l' H F IH]; [reflexivity|]. cbn [map]. unfold dumps_bytes at 1.
  rewrite H, IH. reflexivity.
Qed.

Lemma inject_reparse : forall (inject : list opc -> res (list opc)) stop items k p' b' q',
  Forall (fun bp => complete (fst bp) (snd bp)) items ->
  k < List.length items ->
  (forall p, nth_error (shift_parts 0 items) k = Some p -> inject p = Ok p') ->
  Codec.dumps p' = Ok b' -> complete b' q' ->
  let out := cli_inject inject dumps_bytes stop (shift_parts 0 items) (Z.of_nat k) in
  let items' := firstn k items ++ (b', q') :: skipn (S k) items in
  o_status out = Exit 0 /\
  o_stdout out = map fst items' /\
  stacked_load KBytes (List.concat (o_stdout out)) 0
    = LOk (shift_parts 0 items', List.length (List.concat (o_stdout out))) /\
  List.length (shift_parts 0 items') = List.length items /\
  Forall2 (fun part bp => Codec.dumps part = Ok (fst bp)) (shift_parts 0 items') items'.
Proof.
  intros inject stop items k p' b' q' F L I D C. cbv zeta.
  destruct (shift_parts_spec items 0 F) as [Len F2].
  destruct (nth_error (shift_parts 0 items) k) as [p|] eqn:N;
    [|apply nth_error_None in N; lia].
  rewrite (inject_in_range _ _ inject dumps_bytes stop _ _ _ _ N (I p eq_refl)).
  cbn [o_status o_stdout].
  set (items' := firstn k items ++ (b', q') :: skipn (S k) items).
  assert (F' : Forall (fun bp => complete (fst bp) (snd bp)) items').
  { apply Forall_app. split.
    { apply Forall_forall. intros x Hx.
      assert (In x items) by (rewrite <- (firstn_skipn k items); apply in_or_app; left; exact Hx).
      exact (proj1 (Forall_forall _ _) F x H). }
    constructor; [exact C|]. apply Forall_forall. intros x Hx.
    assert (In x items) by (rewrite <- (firstn_skipn (S k) items); apply in_or_app; right; exact Hx).
    exact (proj1 (Forall_forall _ _) F x H). }
  assert (NE : items' <> []) by (unfold items'; destruct (firstn k items); discriminate).
  assert (E : map dumps_bytes (firstn k (shift_parts 0 items)) ++
              dumps_bytes p' :: map dumps_bytes (skipn (S k) (shift_parts 0 items)) = map fst items').
  { unfold items'. rewrite map_app. cbn [map fst].
    rewrite <- !firstn_map, <- !skipn_map, (forall2_dumps_map _ _ F2).
    unfold dumps_bytes at 1. rewrite D. reflexivity. }
  rewrite E. split; [reflexivity|]. split; [reflexivity|].
  destruct (stacked_bytes_partition items' NE F') as (S1 & S2 & S3).
  split; [exact S1|]. split; [|exact S3].
  rewrite S2. unfold items'. rewrite app_length. cbn [List.length].
  rewrite firstn_length, skipn_length. lia.
Qed.

(* ================= decompilation: the scoping invariant of the symbolic interpreter ================= *)
Section Inv.
  Variable pc : string -> bool.   (* which text constants may occur (see [pc_of]) *)
  Variable lo : nat.              (* first_variable_id *)

  Definition atom_ok (c : nat) (a : atom) : Prop :=
    match a with
    | AVar j => lo <= j < c
    | AName s => unres s = true
    | AStr s => pc s = true
    end.
  Definition eok (c : nat) (e : expr) : Prop := forall a, In a (expr_atoms e) -> atom_ok c a.
  Definition nok (c : nat) (n : node) : Prop := forall a, In a (node_atoms n) -> atom_ok c a.
  Definition iok (c : nat) (it : item) : Prop := match it with IMark => True | IE e => eok c e end.

  (* [b] newest first, [c] = the variable counter after [b]: assignments are numbered
     lo, lo+1, ... in order, and every statement mentions only variables assigned before it *)
  Fixpoint body_wf (b : list stmt) (c : nat) : Prop :=
    match b with
    | [] => c = lo
    | SAssignV j e :: r => c = S j /\ eok j e /\ body_wf r j
    | SSetItemV j k e :: r => lo <= j < c /\ eok c k /\ eok c e /\ body_wf r c
    | SExpr e :: r => eok c e /\ body_wf r c
    | SResult e :: r => eok c e /\ body_wf r c
    | SImport _ n :: r => unres n = true /\ body_wf r c
    end.

  Record inv (s : fk) : Prop := mkInv {
    i_lo : lo <= ctr s;
    i_stack : Forall (iok (ctr s)) (stack s);
    i_memo : Forall (fun kv => eok (ctr s) (snd kv)) (memo s);
    i_nodes : Forall (nok (ctr s)) (nodes s);
    i_body : body_wf (body s) (ctr s)
  }.

  Lemma atom_ok_mono : forall c c' a, c <= c' -> atom_ok c a -> atom_ok c' a.
  Proof. intros c c' [j|s|s] L H; simpl in *; auto. lia. Qed.
  Lemma eok_mono : forall c c' e, c <= c' -> eok c e -> eok c' e.
  Proof. intros c c' e L H a I. eapply atom_ok_mono; eauto. Qed.
  Lemma nok_mono : forall c c' n, c <= c' -> nok c n -> nok c' n.
  Proof. intros c c' e L H a I. eapply atom_ok_mono; eauto. Qed.
  Lemma iok_mono : forall c c' it, c <= c' -> iok c it -> iok c' it.
  Proof. intros c c' [|e] L H; simpl in *; auto. eapply eok_mono; eauto. Qed.

  Lemma flat_ok : forall c l, Forall (eok c) l ->
    forall a, In a (flat_map expr_atoms l) -> atom_ok c a.
  Proof.
    intros c l F a I. apply in_flat_map in I. destruct I as (x & Hx & Ha).
    exact (proj1 (Forall_forall _ _) F x Hx a Ha).
  Qed.
  Lemma flat_ok_inv : forall c l, (forall a, In a (flat_map expr_atoms l) -> atom_ok c a) ->
    Forall (eok c) l.
  Proof.
    intros c l H. apply Forall_forall. intros x Hx a Ha. apply H. apply in_flat_map. eauto.
  Qed.

  Lemma pairs_atoms : forall l a,
    In a (flat_map (fun kv => expr_atoms (fst kv) ++ expr_atoms (snd kv)) (pairs_of l)) ->
    In a (flat_map expr_atoms l).
  Proof.
    assert (G : forall l, (forall a,
      In a (flat_map (fun kv => expr_atoms (fst kv) ++ expr_atoms (snd kv)) (pairs_of l)) ->
      In a (flat_map expr_atoms l)) /\ (forall x a,
      In a (flat_map (fun kv => expr_atoms (fst kv) ++ expr_atoms (snd kv)) (pairs_of (x :: l))) ->
      In a (flat_map expr_atoms (x :: l)))).
    { induction l as [|y l [IH1 IH2]]; split; try (simpl; tauto).
      - intros a. apply IH2.
      - intros x a. cbn [pairs_of flat_map fst snd]. rewrite !in_app_iff.
        intros [[H|H]|H]; auto. }
    intros l. apply G.
  Qed.

  Lemma pairs_ok : forall c l, Forall (eok c) l ->
    forall a, In a (flat_map (fun kv => expr_atoms (fst kv) ++ expr_atoms (snd kv)) (pairs_of l)) ->
              atom_ok c a.
  Proof. intros c l F a I. apply (flat_ok c l F). apply pairs_atoms. exact I. Qed.

  Lemma call_with_ok : forall c f args kw,
    eok c f -> eok c args -> (forall k, kw = Some k -> eok c k) -> eok c (call_with f args kw).
  Proof.
    intros c f args kw Hf Ha Hk a I.
    assert (G : In a (expr_atoms f) \/ In a (expr_atoms args) \/
                In a (match kw with Some k => expr_atoms k | None => [] end)).
    { assert (S : forall x, In a (expr_atoms (ECall f [EStarred x] kw)) ->
                  In a (expr_atoms f) \/ In a (expr_atoms x) \/
                  In a (match kw with Some k => expr_atoms k | None => [] end)).
      { intros x. cbn [expr_atoms flat_map]. rewrite app_nil_r, !in_app_iff. tauto. }
      unfold call_with in I. destruct args; try (apply S; exact I).
      cbn [expr_atoms] in *. rewrite !in_app_iff in I. tauto. }
    destruct G as [G|[G|G]]; [apply Hf; exact G|apply Ha; exact G|].
    destruct kw as [k|]; [apply (Hk k eq_refl); exact G|destruct G].
  Qed.

  Lemma call_ok : forall c f args, eok c f -> Forall (eok c) args -> eok c (ECall f args None).
  Proof.
    intros c f args Hf Ha a I. cbn [expr_atoms] in I. rewrite !in_app_iff in I.
    destruct I as [I|[I|[]]]; [apply Hf; exact I|apply (flat_ok c args Ha); exact I].
  Qed.

  (* ---- state primitives ---- *)
  Lemma inv_with_stack : forall s st, inv s -> Forall (iok (ctr s)) st -> inv (with_stack s st).
  Proof. intros s st [A B C D E] F. constructor; assumption. Qed.

  Lemma pop_val_inv : forall s e s1, pop_val s = Ok (e, s1) -> inv s ->
    inv s1 /\ eok (ctr s1) e /\ ctr s1 = ctr s.
  Proof.
    intros s e s1 H I. unfold pop_val in H. destruct (stack s) as [|[|x] r] eqn:S; try discriminate.
    inversion H; subst. pose proof (i_stack _ I) as F. rewrite S in F. inversion F; subst.
    split; [apply inv_with_stack; assumption|]. split; [assumption|reflexivity].
  Qed.

  Lemma split_mark_inv : forall c st acc items r, split_mark st acc = Ok (items, r) ->
    Forall (iok c) st -> Forall (eok c) acc -> Forall (eok c) items /\ Forall (iok c) r.
  Proof.
    intros c st. induction st as [|[|e] st IH]; intros acc items r H F A; simpl in H; try discriminate.
    - inversion H; subst. inversion F; subst. split; assumption.
    - inversion F; subst. eapply IH; eauto.
  Qed.

  Lemma pop_slice_inv : forall s items s1, pop_slice s = Ok (items, s1) -> inv s ->
    inv s1 /\ Forall (eok (ctr s1)) items /\ ctr s1 = ctr s.
  Proof.
    intros s items s1 H I. unfold pop_slice in H.
    destruct (split_mark (stack s) []) as [[it r]|] eqn:S; simpl in H; try discriminate.
    inversion H; subst.
    destruct (split_mark_inv (ctr s) _ _ _ _ S (i_stack _ I) (Forall_nil _)) as [A B].
    split; [apply inv_with_stack; assumption|]. split; [assumption|reflexivity].
  Qed.

  Lemma top_val_inv : forall s e, top_val s = Ok e -> inv s -> eok (ctr s) e.
  Proof.
    intros s e H I. unfold top_val in H. destruct (stack s) as [|[|x] r] eqn:S; try discriminate.
    inversion H; subst. pose proof (i_stack _ I) as F. rewrite S in F. inversion F; subst. assumption.
  Qed.

  Lemma inv_push : forall s e, inv s -> eok (ctr s) e -> inv (push e s).
  Proof.
    intros s e I H. apply inv_with_stack; [assumption|]. constructor; [exact H|apply (i_stack _ I)].
  Qed.

  Lemma inv_alloc : forall s n i s1, alloc n s = (i, s1) -> inv s -> nok (ctr s) n ->
    inv s1 /\ ctr s1 = ctr s.
  Proof.
    intros s n i s1 H [A B C D E] N. unfold alloc in H. inversion H; subst. split; [|reflexivity].
    constructor; cbn [ctr stack memo nodes body]; try assumption.
    apply Forall_app. split; [assumption|constructor; [assumption|constructor]].
  Qed.

  Lemma set_nth_forall : forall {A} (Q : A -> Prop) i x l, Forall Q l -> Q x -> Forall Q (set_nth i x l).
  Proof.
    intros A Q i x l F. revert i. induction F as [|y l Hy F IH]; intros [|i] Hx; simpl;
      constructor; auto.
  Qed.

  Lemma inv_set_node : forall s i n, inv s -> nok (ctr s) n -> inv (set_node i n s).
  Proof.
    intros s i n [A B C D E] N. constructor; cbn [set_node ctr stack memo nodes body]; try assumption.
    apply set_nth_forall; assumption.
  Qed.

  Lemma get_node_inv : forall s i n, get_node i s = Some n -> inv s -> nok (ctr s) n.
  Proof.
    intros s i n H I. unfold get_node in H. apply nth_error_In in H.
    exact (proj1 (Forall_forall _ _) (i_nodes _ I) n H).
  Qed.

  Lemma inv_emit : forall s st, inv s -> body_wf (st :: body s) (ctr s) -> inv (emit st s).
  Proof. intros s st [A B C D E] W. constructor; cbn [emit ctr stack memo nodes body]; assumption. Qed.

  Lemma inv_emit_import : forall s m n, inv s -> unres n = true -> inv (emit_import m n s).
  Proof.
    intros s m n I U. unfold emit_import. destruct (is_builtins m); [assumption|].
    apply inv_emit; [assumption|]. cbn [body_wf]. split; [assumption|apply (i_body _ I)].
  Qed.

  Lemma inv_new_variable : forall s e v s1, new_variable e s = (v, s1) -> inv s -> eok (ctr s) e ->
    inv s1 /\ v = ctr s /\ ctr s1 = S (ctr s).
  Proof.
    intros s e v s1 H [A B C D E] He. unfold new_variable in H. inversion H; subst.
    split; [|split; reflexivity].
    constructor; cbn [ctr stack memo nodes body].
    - lia.
    - eapply Forall_impl; [|exact B]. intros it. apply iok_mono. lia.
    - eapply Forall_impl; [|exact C]. intros kv. apply eok_mono. lia.
    - eapply Forall_impl; [|exact D]. intros n. apply nok_mono. lia.
    - cbn [body_wf]. auto.
  Qed.

  Lemma evar_ok : forall c j, lo <= j < c -> eok c (EVar j).
  Proof. intros c j L a [E|[]]. subst. exact L. Qed.

  Lemma inv_bind_call : forall s call, inv s -> eok (ctr s) call -> inv (bind_call call s).
  Proof.
    intros s call I H. unfold bind_call. destruct (new_variable call s) as [v s1] eqn:N.
    destruct (inv_new_variable _ _ _ _ N I H) as (I1 & Ev & Ec).
    apply inv_push; [assumption|]. apply evar_ok. pose proof (i_lo _ I). lia.
  Qed.

  Lemma memo_remove_forall : forall (Q : Z * expr -> Prop) k m, Forall Q m -> Forall Q (memo_remove k m).
  Proof.
    intros Q k m F. induction F as [|[k' v] m H F IH]; simpl; [constructor|].
    destruct (Z.eqb k k'); [assumption|constructor; assumption].
  Qed.

  Lemma inv_memo_put : forall s k e, inv s -> eok (ctr s) e ->
    inv (mkFk (stack s) (memo_put k e (memo s)) (nodes s) (body s) (ctr s) (stopped s)).
  Proof.
    intros s k e [A B C D E] H. constructor; cbn [ctr stack memo nodes body]; try assumption.
    unfold memo_put. constructor; [exact H|apply memo_remove_forall; assumption].
  Qed.

  Lemma memo_get_inv : forall s k e, memo_get k (memo s) = Some e -> inv s -> eok (ctr s) e.
  Proof.
    intros s k e H I. pose proof (i_memo _ I) as F. induction F as [|[k' v] m Hv F IH]; simpl in H;
      [discriminate|]. destruct (Z.eqb k k'); [inversion H; subst; exact Hv|auto].
  Qed.

  Ltac nz := repeat match goal with C : ctr _ = ctr _ |- _ => progress (rewrite C in * ) end.
  Ltac dpopv H := match type of H with context [pop_val ?s] =>
     let P := fresh "P" in destruct (pop_val s) as [[? ?]|?] eqn:P; cbn [bind] in H; [|discriminate H];
     let J := fresh "J" in let E := fresh "E" in let C := fresh "C" in
     destruct (pop_val_inv _ _ _ P ltac:(assumption)) as (J & E & C) end.
  Ltac dpops H := match type of H with context [pop_slice ?s] =>
     let P := fresh "P" in destruct (pop_slice s) as [[? ?]|?] eqn:P; cbn [bind] in H; [|discriminate H];
     let J := fresh "J" in let E := fresh "E" in let C := fresh "C" in
     destruct (pop_slice_inv _ _ _ P ltac:(assumption)) as (J & E & C) end.
  Ltac dtop H := match type of H with context [top_val ?s] =>
     let P := fresh "P" in destruct (top_val s) as [?|?] eqn:P; cbn [bind] in H; [|discriminate H];
     let E := fresh "E" in pose proof (top_val_inv _ _ P ltac:(assumption)) as E end.
  Ltac fin := inversion_clear 1 || idtac.

  Lemma enode_ok : forall c i, eok c (ENode i).
  Proof. intros c i a []. Qed.
  Lemma ename_ok : forall c n, unres n = true -> eok c (EName n).
  Proof. intros c n U a [E|[]]. subst. exact U. Qed.
  Lemma etuple_ok : forall c l, Forall (eok c) l -> eok c (ETuple l).
  Proof. intros c l F a I. apply (flat_ok c l F). exact I. Qed.

  Lemma alloc_push_inv : forall s n s1, inv s -> nok (ctr s) n ->
    (let '(i, s2) := alloc n s in Ok (push (ENode i) s2)) = Ok s1 -> inv s1.
  Proof.
    intros s n s1 I N H. destruct (alloc n s) as [i s2] eqn:A. inversion H; subst.
    destruct (inv_alloc _ _ _ _ A I N) as [I2 _]. apply inv_push; [assumption|apply enode_ok].
  Qed.

  Lemma node_list_ok : forall c l, Forall (eok c) l -> nok c (NList l).
  Proof. intros c l F a I. apply (flat_ok c l F). exact I. Qed.
  Lemma node_set_ok : forall c l, Forall (eok c) l -> nok c (NSet l).
  Proof. intros c l F a I. apply (flat_ok c l F). exact I. Qed.
  Lemma node_list_inv : forall c l, nok c (NList l) -> Forall (eok c) l.
  Proof. intros c l H. apply flat_ok_inv. exact H. Qed.
  Lemma node_set_inv : forall c l, nok c (NSet l) -> Forall (eok c) l.
  Proof. intros c l H. apply flat_ok_inv. exact H. Qed.
  Lemma node_dict_app : forall c kvs l, nok c (NDict kvs) -> Forall (eok c) l ->
    nok c (NDict (kvs ++ pairs_of l)).
  Proof.
    intros c kvs l H F a I. cbn [node_atoms] in I. rewrite flat_map_app, in_app_iff in I.
    destruct I as [I|I]; [apply H; exact I|apply (pairs_ok c l F); exact I].
  Qed.
  Lemma node_dict_ok : forall c l, Forall (eok c) l -> nok c (NDict (pairs_of l)).
  Proof. intros c l F a I. apply (pairs_ok c l F). exact I. Qed.

  (* the fallback of SETITEM / SETITEMS / BUILD: bind the object to a fresh variable, emit a
     statement about it, push the variable *)
  Lemma fresh_stmt_inv : forall s d (mk : nat -> stmt) s1,
    inv s -> eok (ctr s) d ->
    (forall j, lo <= j < S (ctr s) -> forall b, body_wf b (S (ctr s)) ->
               j = ctr s -> body_wf (mk j :: b) (S (ctr s))) ->
    (let '(name, s3) := new_variable d s in Ok (push (EVar name) (emit (mk name) s3))) = Ok s1 ->
    inv s1.
  Proof.
    intros s d mk s1 I D W H. destruct (new_variable d s) as [v s3] eqn:N. inversion H; subst.
    destruct (inv_new_variable _ _ _ _ N I D) as (I3 & Ev & Ec). pose proof (i_lo _ I).
    apply inv_push.
    - apply inv_emit; [assumption|]. rewrite Ec. apply W; [lia| |assumption].
      rewrite <- Ec. apply (i_body _ I3).
    - cbn [emit ctr]. apply evar_ok. lia.
  Qed.

  (* SETITEMS on an object: a run of item assignments to the fresh variable *)
  Lemma pairs_eok : forall c n l, List.length l <= n -> Forall (eok c) l ->
    Forall (fun kv => eok c (fst kv) /\ eok c (snd kv)) (pairs_of l).
  Proof.
    induction n as [|n IH]; intros l L F.
    - destruct l; [constructor | cbn in L; lia].
    - destruct F as [|a l Ha F]; [constructor|]. destruct F as [|b l Hb F]; [constructor|].
      cbn [pairs_of]. constructor; [split; assumption|].
      destruct n; [cbn in L; lia|]. apply (IH l); [cbn in L; lia | exact F].
  Qed.

  Lemma inv_fold_setitems : forall j kvs s,
    inv s -> lo <= j < ctr s ->
    Forall (fun kv => eok (ctr s) (fst kv) /\ eok (ctr s) (snd kv)) kvs ->
    inv (fold_left (fun st kv => emit (SSetItemV j (fst kv) (snd kv)) st) kvs s) /\
    ctr (fold_left (fun st kv => emit (SSetItemV j (fst kv) (snd kv)) st) kvs s) = ctr s.
  Proof.
    intros j kvs. induction kvs as [|kv r IH]; intros s I L F; cbn [fold_left]; [auto|].
    inversion F as [|x y [Hk Hv] F']; subst.
    destruct (IH (emit (SSetItemV j (fst kv) (snd kv)) s)) as [A B].
    - apply inv_emit; [exact I|]. cbn [body_wf]. repeat split; try lia; try assumption. apply (i_body _ I).
    - cbn [emit ctr]. exact L.
    - cbn [emit ctr]. exact F'.
    - split; [exact A | rewrite B; reflexivity].
  Qed.

  Lemma step_inv : forall o s s1,
    inv s -> op_globals_free o = true ->
    (forall x, o = OConst (CStr x) -> pc x = true) ->
    (o = OStackGlobal -> forall x, pc x = true -> unres x = true) ->
    step o s = Ok s1 -> inv s1.
  Proof.
    intros o s s1 I G HC HS H. destruct o; cbn [step] in H.
    - (* OConst *) inversion H; subst. apply inv_push; [assumption|].
      intros a Ia. destruct c; cbn [expr_atoms] in Ia; try destruct Ia as [Ia|[]]; try destruct Ia.
      subst. cbn [atom_ok]. apply HC. reflexivity.
    - (* OMark *) inversion H; subst. apply inv_with_stack; [assumption|].
      constructor; [exact Logic.I|apply (i_stack _ I)].
    - (* OStop *) dpopv H. inversion H; subst. destruct J as [A B C' D E'].
      constructor; cbn [ctr stack memo nodes body]; try assumption. cbn [body_wf]. split; assumption.
    - (* OPop *) destruct (stack s) as [|x r] eqn:S; [discriminate|]. inversion H; subst.
      apply inv_with_stack; [assumption|]. pose proof (i_stack _ I) as F. rewrite S in F.
      inversion F; assumption.
    - (* OPopMark *) dpops H. inversion H; subst. assumption.
    - (* ODup *) dtop H. inversion H; subst. apply inv_push; assumption.
    - (* OEmptyList *) eapply alloc_push_inv; [exact I| |exact H]. intros a [].
    - (* OEmptyDict *) eapply alloc_push_inv; [exact I| |exact H]. intros a [].
    - (* OEmptySet *) eapply alloc_push_inv; [exact I| |exact H]. intros a [].
    - (* OEmptyTuple *) inversion H; subst. apply inv_push; [assumption|]. intros a [].
    - (* OAppend *) dpopv H. destruct (stack f) as [|[|[]] r] eqn:S; try discriminate.
      destruct (get_node i f) as [[l|l|kvs]|] eqn:Gn; try discriminate. inversion H; subst.
      apply inv_set_node; [assumption|]. pose proof (get_node_inv _ _ _ Gn J) as N.
      apply node_list_ok. apply Forall_app. split; [apply node_list_inv; exact N|].
      constructor; [assumption|constructor].
    - (* OAppends *) dpops H. destruct (stack f) as [|[|[]] r] eqn:S; try discriminate.
      destruct (get_node i f) as [[l0|l0|kvs]|] eqn:Gn; try discriminate. inversion H; subst.
      apply inv_set_node; [assumption|]. pose proof (get_node_inv _ _ _ Gn J) as N.
      apply node_list_ok. apply Forall_app. split; [apply node_list_inv; exact N|assumption].
    - (* OList *) dpops H. eapply alloc_push_inv; [exact J| |exact H]. apply node_list_ok. assumption.
    - (* OTuple *) dpops H. inversion H; subst. apply inv_push; [assumption|]. apply etuple_ok. assumption.
    - (* OTuple1 *) dpopv H. inversion H; subst. apply inv_push; [assumption|]. apply etuple_ok.
      repeat constructor; assumption.
    - (* OTuple2 *) dpopv H. dpopv H. inversion H; subst. apply inv_push; [assumption|]. apply etuple_ok.
      nz. repeat constructor; assumption.
    - (* OTuple3 *) dpopv H. dpopv H. dpopv H. inversion H; subst. apply inv_push; [assumption|].
      apply etuple_ok. nz. repeat constructor; assumption.
    - (* ODict *) dpops H. destruct (Nat.even (List.length l)); [|discriminate].
      eapply alloc_push_inv; [exact J| |exact H]. apply node_dict_ok. assumption.
    - (* OSetItem *) dpopv H. dpopv H. dpopv H.
      assert (Fb : forall s1', (let '(name, s4) := new_variable e1 f1 in
                  Ok (push (EVar name) (emit (SSetItemV name e0 e) s4))) = Ok s1' -> inv s1').
      { intros s1' H'. eapply (fresh_stmt_inv f1 e1 (fun n => SSetItemV n e0 e)); [exact J1|exact E1| |exact H'].
        intros j Lj b Wb Ej. cbn [body_wf]. nz. repeat split; try lia; try assumption;
          eapply eok_mono; try eassumption; lia. }
      destruct e1; try (apply Fb; exact H).
      destruct (get_node i f1) as [[l|l|kvs]|] eqn:Gn; try (apply Fb; exact H).
      inversion H; subst. apply inv_push; [|apply enode_ok]. apply inv_set_node; [assumption|].
      pose proof (get_node_inv _ _ _ Gn J1) as N. nz.
      apply (node_dict_app _ kvs [e0; e] N). repeat constructor; assumption.
    - (* OSetItems *) dpops H. dpopv H.
      assert (Fb : forall s1', (let '(name, s3) := new_variable e f0 in
                  Ok (push (EVar name)
                        (fold_left (fun st kv => emit (SSetItemV name (fst kv) (snd kv)) st) (pairs_of l) s3)))
                  = Ok s1' -> inv s1').
      { intros s1' H'. destruct (new_variable e f0) as [v s3] eqn:N. inversion H'; subst.
        destruct (inv_new_variable _ _ _ _ N J0 E0) as (I3 & Ev & Ec). pose proof (i_lo _ J0). subst v.
        destruct (inv_fold_setitems (ctr f0) (pairs_of l) s3 I3) as [If Cf].
        - rewrite Ec. lia.
        - rewrite Ec. apply (pairs_eok _ (List.length l) l (le_n _)).
          eapply Forall_impl; [|exact E]. intros a Ha. eapply eok_mono; [|exact Ha]. lia.
        - apply inv_push; [exact If|]. rewrite Cf, Ec. apply evar_ok. lia. }
      destruct e; try (apply Fb; exact H).
      destruct (get_node i f0) as [[l0|l0|kvs]|] eqn:Gn; try (apply Fb; exact H).
      inversion H; subst. apply inv_push; [|apply enode_ok]. apply inv_set_node; [assumption|].
      pose proof (get_node_inv _ _ _ Gn J0) as N. nz. apply node_dict_app; assumption.
    - (* OAddItems *) dpops H. destruct (stack f) as [|[|[]] r] eqn:S; try discriminate.
      destruct (get_node i f) as [[l0|l0|kvs]|] eqn:Gn; try discriminate. inversion H; subst.
      apply inv_set_node; [assumption|]. pose proof (get_node_inv _ _ _ Gn J) as N.
      apply node_set_ok. apply Forall_app. split; [apply node_set_inv; exact N|assumption].
    - (* OFrozenSet *) dpops H. inversion H; subst. apply inv_push; [assumption|].
      apply call_ok; [apply ename_ok; reflexivity|]. constructor; [|constructor].
      intros a Ia. apply (flat_ok _ l E). exact Ia.
    - (* OGlobal *) destruct (plain m && plain n); [|discriminate]. inversion H; subst.
      cbn [op_globals_free] in G. apply inv_push; [apply inv_emit_import; assumption|].
      apply ename_ok. assumption.
    - (* OStackGlobal *) dpopv H. dpopv H. destruct e0 as [[]| | | | | | | | |]; try discriminate.
      destruct e as [[]| | | | | | | | |]; try discriminate.
      destruct (plain s0 && plain s2); [|discriminate]. inversion H; subst.
      assert (U : unres s2 = true).
      { apply (HS eq_refl). apply (E (AStr s2)). left. reflexivity. }
      apply inv_push; [apply inv_emit_import; assumption|]. apply ename_ok. assumption.
    - (* OInst *) dpops H. destruct (plain m && plain n); [|discriminate]. inversion H; subst.
      cbn [op_globals_free] in G. apply inv_bind_call; [apply inv_emit_import; assumption|].
      apply call_ok; [apply ename_ok; assumption|].
      unfold emit_import. destruct (is_builtins m); cbn [emit ctr]; assumption.
    - (* OObj *) dpops H. destruct l as [|k args]; [discriminate|]. inversion H; subst.
      inversion E; subst. apply inv_bind_call; [assumption|]. apply call_ok; assumption.
    - (* ONewObj *) dpopv H. dpopv H. inversion H; subst. apply inv_bind_call; [assumption|].
      nz. apply call_with_ok; try assumption. discriminate.
    - (* ONewObjEx *) dpopv H. dpopv H. dpopv H. inversion H; subst. apply inv_bind_call; [assumption|].
      nz. apply call_with_ok; try assumption. intros k Ek. inversion Ek; subst. assumption.
    - (* OReduce *) dpopv H. dpopv H. inversion H; subst. apply inv_bind_call; [assumption|].
      nz. apply call_with_ok; try assumption. discriminate.
    - (* OBuild *) dpopv H. dpopv H.
      eapply (fresh_stmt_inv f0 e0 (fun n => SExpr (ECall (EAttr (EVar n) "__setstate__") [e] None)));
        [exact J0|exact E0| |exact H].
      intros j Lj b Wb Ej. cbn [body_wf]. split; [|assumption].
      apply call_ok; [apply evar_ok; lia|]. constructor; [|constructor]. nz.
      eapply eok_mono; [|exact E]. lia.
    - (* OBinPersId *) dpopv H. inversion H; subst. apply inv_bind_call; [assumption|].
      apply call_ok; [apply ename_ok; reflexivity|]. constructor; [assumption|constructor].
    - (* OPut *) dtop H. inversion H; subst. apply inv_memo_put; assumption.
    - (* OGet *) destruct (memo_get k (memo s)) as [e|] eqn:M; [|discriminate]. inversion H; subst.
      apply inv_push; [assumption|]. eapply memo_get_inv; eassumption.
    - (* OMemoize *) dtop H. inversion H; subst. apply inv_memo_put; assumption.
    - (* ONoop *) inversion H; subst. assumption.
    - (* ONoRun *) discriminate.
  Qed.
End Inv.

(* ================= the reserved spellings ================= *)
From Coq Require Import DecimalPos.

Lemma z_string_roundtrip : forall n : nat, z_of_string (nat_to_string n) = Some (Z.of_nat n).
Proof.
  intros n. unfold nat_to_string, z_to_string, z_of_string.
  rewrite NilZero.isi.
  - rewrite DecimalZ.of_to. reflexivity.
  - destruct (Z.of_nat n) as [|p|p]; cbn [Z.to_int]; try discriminate.
    intros E. inversion E as [E']. exact (Unsigned.to_uint_nonnil p E').
  - destruct (Z.of_nat n) as [|p|p] eqn:Z; cbn [Z.to_int]; try discriminate. lia.
Qed.

Lemma nat_to_string_inj : forall a b, nat_to_string a = nat_to_string b -> a = b.
Proof.
  intros a b E. pose proof (z_string_roundtrip a) as A. rewrite E, z_string_roundtrip in A.
  inversion A. lia.
Qed.

Lemma uint_digits : forall d, all_digits (NilEmpty.string_of_uint d) = true.
Proof. induction d; cbn [NilEmpty.string_of_uint all_digits]; try reflexivity; exact IHd. Qed.

Lemma nat_string_digits : forall n, all_digits (nat_to_string n) = true.
Proof.
  intros n. unfold nat_to_string, z_to_string.
  destruct (Z.of_nat n) as [|p|p] eqn:Z; try lia; cbn [Z.to_int NilZero.string_of_int].
  - reflexivity.
  - unfold NilZero.string_of_uint. destruct (Pos.to_uint p); try reflexivity; apply uint_digits.
Qed.

Lemma var_name_reserved : forall j, is_reserved (var_name j) = true.
Proof. intros j. unfold is_reserved, var_name. cbn. apply nat_string_digits. Qed.
Lemma result_name_reserved : forall i, is_reserved (result_name i) = true.
Proof. intros i. unfold is_reserved, result_name. cbn. apply nat_string_digits. Qed.
Lemma var_name_inj : forall a b, var_name a = var_name b -> a = b.
Proof. intros a b E. unfold var_name in E. cbn in E. inversion E. apply nat_to_string_inj. assumption. Qed.
Lemma result_name_inj : forall a b, result_name a = result_name b -> a = b.
Proof. intros a b E. unfold result_name in E. cbn in E. inversion E. apply nat_to_string_inj. assumption. Qed.
Lemma var_not_result : forall a b, var_name a <> result_name b.
Proof. intros a b E. unfold var_name, result_name in E. cbn in E. discriminate. Qed.

(* ================= running a whole program / a whole stack ================= *)
Definition pc_of (p : list op) : string -> bool :=
  if existsb is_stack_global p then unres else fun _ => true.

Lemma run_from_inv : forall pc lo p s s1,
  inv pc lo s ->
  Forall (fun o => op_globals_free o = true /\
                   (forall x, o = OConst (CStr x) -> pc x = true) /\
                   (o = OStackGlobal -> forall x, pc x = true -> unres x = true)) p ->
  run_from p s = Ok s1 -> inv pc lo s1.
Proof.
  intros pc lo p. induction p as [|o p IH]; intros s s1 I F H; cbn [run_from] in H.
  - inversion H; subst. assumption.
  - destruct (stopped s); [inversion H; subst; assumption|].
    destruct (step o s) as [s2|e] eqn:S; cbn [bind] in H; [|discriminate].
    inversion F as [|? ? (G & HC & HS) F']; subst.
    apply (IH s2 s1); try assumption. eapply step_inv; eassumption.
Qed.

Lemma fk_init_inv : forall pc lo, inv pc lo (fk_init lo).
Proof. intros pc lo. constructor; cbn; auto. Qed.

Lemma reserved_free_ops : forall p, reserved_free p = true ->
  Forall (fun o => op_globals_free o = true /\
                   (forall x, o = OConst (CStr x) -> pc_of p x = true) /\
                   (o = OStackGlobal -> forall x, pc_of p x = true -> unres x = true)) p.
Proof.
  intros p R. unfold reserved_free in R. apply andb_true_iff in R. destruct R as [G C].
  apply Forall_forall. intros o Io. split; [exact (proj1 (forallb_forall _ _) G o Io)|].
  unfold pc_of. destruct (existsb is_stack_global p) eqn:X.
  - cbn [negb orb] in C. split; [|auto]. intros x E. subst.
    exact (proj1 (forallb_forall _ _) C _ Io).
  - split; [reflexivity|]. intros E. subst.
    assert (existsb is_stack_global p = true) by (apply existsb_exists; exists OStackGlobal; auto).
    congruence.
Qed.

Lemma run_scoped : forall p lo s, reserved_free p = true -> run_from p (fk_init lo) = Ok s ->
  inv (pc_of p) lo s.
Proof.
  intros p lo s R H. eapply run_from_inv; [apply fk_init_inv|apply reserved_free_ops; exact R|exact H].
Qed.

(* indices 0,1,2,...; each interpreter starts where the previous one stopped *)
Fixpoint seg_chain (i v : nat) (l : list seg) : Prop :=
  match l with
  | [] => True
  | g :: r => sg_index g = i /\ sg_first g = v /\ seg_chain (S i) (sg_next g) r
  end.
Definition seg_inv (g : seg) : Prop := exists pc, inv pc (sg_first g) (sg_state g).

Lemma decompile_from_spec : forall ps i v segs st,
  Forall (fun p => reserved_free p = true) ps ->
  cli_decompile_from i v ps = (segs, st) ->
  seg_chain i v segs /\ Forall seg_inv segs /\
  List.length segs <= List.length ps /\
  (st = Exit 0 /\ List.length segs = List.length ps /\
     Forall2 (fun g p => run_from p (fk_init (sg_first g)) = Ok (sg_state g)) segs ps
   \/ exists e, st = Raised e /\ List.length segs < List.length ps /\
        Forall2 (fun g p => run_from p (fk_init (sg_first g)) = Ok (sg_state g))
                segs (firstn (List.length segs) ps)).
Proof.
  induction ps as [|p ps IH]; intros i v segs st F H; cbn [cli_decompile_from] in H.
  - inversion H; subst. cbn. split; [exact Logic.I|]. split; [constructor|]. split; [lia|].
    left. split; [reflexivity|]. split; [reflexivity|constructor].
  - inversion F as [|? ? R F']; subst.
    destruct (run_from p (fk_init v)) as [s|e] eqn:Rn.
    + destruct (cli_decompile_from (S i) (ctr s) ps) as [l st'] eqn:D. inversion H; subst.
      destruct (IH _ _ _ _ F' D) as (Ch & Fi & Le & Alt).
      split; [cbn; auto|]. split.
      { constructor; [|exact Fi]. exists (pc_of p). cbn [sg_first sg_state]. apply run_scoped; assumption. }
      split; [cbn; lia|].
      destruct Alt as [(E1 & E2 & E3)|(e & E1 & E2 & E3)]; [left|right; exists e]; cbn [List.length];
        (split; [assumption|]); (split; [lia|]); cbn [firstn]; constructor; assumption.
    + inversion H; subst. cbn. split; [exact Logic.I|]. split; [constructor|]. split; [lia|].
      right. exists e. split; [reflexivity|]. split; [lia|constructor].
Qed.

(* ================= STOP binds the result, and nothing runs after it ================= *)
Lemma pop_val_stopped : forall s e s1, pop_val s = Ok (e, s1) -> stopped s1 = stopped s.
Proof.
  intros s e s1 H. unfold pop_val in H. destruct (stack s) as [|[|x] r]; try discriminate.
  inversion H; subst. reflexivity.
Qed.
Lemma pop_slice_stopped : forall s l s1, pop_slice s = Ok (l, s1) -> stopped s1 = stopped s.
Proof.
  intros s l s1 H. unfold pop_slice in H. destruct (split_mark (stack s) []) as [[a b]|]; cbn in H;
    try discriminate. inversion H; subst. reflexivity.
Qed.

Ltac dv H := match type of H with context [pop_val ?s] =>
   let P := fresh "P" in destruct (pop_val s) as [[? ?]|?] eqn:P; cbn [bind] in H; [|discriminate H];
   apply pop_val_stopped in P end.
Ltac ds H := match type of H with context [pop_slice ?s] =>
   let P := fresh "P" in destruct (pop_slice s) as [[? ?]|?] eqn:P; cbn [bind] in H; [|discriminate H];
   apply pop_slice_stopped in P end.
Ltac dt H := match type of H with context [top_val ?s] =>
   destruct (top_val s) as [?|?]; cbn [bind] in H; [|discriminate H] end.
Ltac dm H := repeat match type of H with
   | context [match ?x with _ => _ end] => destruct x; try discriminate H
   end.

Lemma stopped_fold_setitems name (kvs : list (expr * expr)) : forall s,
  stopped (fold_left (fun st kv => emit (SSetItemV name (fst kv) (snd kv)) st) kvs s) = stopped s.
Proof. induction kvs as [|kv r IH]; intros s; cbn [fold_left]; [reflexivity|]. rewrite IH. reflexivity. Qed.

Lemma step_stopped : forall o s s1, step o s = Ok s1 -> o <> OStop -> stopped s1 = stopped s.
Proof.
  intros o s s1 H NS. destruct o; try congruence; cbn [step] in H;
    repeat (first [dv H | ds H | dt H]);
    first
    [ match type of H with context [fold_left] => idtac end;
      unfold new_variable, push, set_node, with_stack in H; cbn iota in H;
      dm H; inversion H; subst; cbn [stopped]; rewrite ?stopped_fold_setitems; cbn [stopped]; congruence
    | unfold bind_call, new_variable, alloc, emit_import, emit, push, set_node, with_stack in H;
      dm H; inversion H; subst; cbn [stopped]; congruence ].
Qed.

Lemma step_stop_body : forall s s1, step OStop s = Ok s1 ->
  stopped s1 = true /\ exists e r, body s1 = SResult e :: r.
Proof.
  intros s s1 H. cbn [step] in H. destruct (pop_val s) as [[e s2]|]; cbn [bind] in H; [|discriminate].
  inversion H; subst. cbn. eauto.
Qed.

Lemma run_from_result : forall p s s1, run_from p s = Ok s1 ->
  (stopped s = true -> exists e r, body s = SResult e :: r) ->
  stopped s1 = true -> exists e r, body s1 = SResult e :: r.
Proof.
  induction p as [|o p IH]; intros s s1 H G T; cbn [run_from] in H.
  - inversion H; subst. auto.
  - destruct (stopped s) eqn:St; [inversion H; subst; auto|].
    destruct (step o s) as [s2|] eqn:S; cbn [bind] in H; [|discriminate].
    apply (IH s2 s1 H); [|exact T]. intros T2.
    destruct o; try (rewrite (step_stopped _ _ _ S) in T2 by discriminate; congruence).
    apply (step_stop_body _ _ S).
Qed.

(* ================= what the invariant says about the printed program ================= *)
Section Consequences.
  Variable pc : string -> bool.
  Variable lo : nat.

  Lemma body_assigns : forall b c, body_wf pc lo b c ->
    lo <= c /\ flat_map stmt_assigns (List.rev b) = seq lo (c - lo).
  Proof.
    induction b as [|st b IH]; intros c W.
    - cbn in W. subst. rewrite Nat.sub_diag. split; [lia|reflexivity].
    - cbn [List.rev]. rewrite flat_map_app. cbn [flat_map]. rewrite app_nil_r.
      destruct st; cbn [body_wf stmt_assigns] in *.
      + destruct W as [_ W]. destruct (IH _ W) as [L E]. rewrite E, app_nil_r. auto.
      + destruct W as (Ec & _ & W). destruct (IH _ W) as [L E]. subst c. split; [lia|].
        rewrite E. replace (S i - lo) with (S (i - lo)) by lia. rewrite seq_S.
        replace (lo + (i - lo)) with i by lia. reflexivity.
      + destruct W as [_ W]. destruct (IH _ W) as [L E]. rewrite E, app_nil_r. auto.
      + destruct W as (_ & _ & _ & W). destruct (IH _ W) as [L E]. rewrite E, app_nil_r. auto.
      + destruct W as [_ W]. destruct (IH _ W) as [L E]. rewrite E, app_nil_r. auto.
  Qed.

  (* the counter before / the atoms of the statement at any position *)
  Lemma body_split : forall post st pre c, body_wf pc lo (post ++ st :: pre) c ->
    exists c', body_wf pc lo pre c' /\ c' <= c /\
               forall a, In a (stmt_atoms st) -> atom_ok pc lo c' a.
  Proof.
    induction post as [|x post IH]; intros st pre c W.
    - cbn [app] in W. destruct st; cbn [body_wf stmt_atoms] in *.
      + destruct W as [_ W]. exists c. split; [assumption|]. split; [lia|]. intros a [].
      + destruct W as (Ec & He & W). exists i. split; [assumption|]. split; [lia|exact He].
      + destruct W as [He W]. exists c. split; [assumption|]. split; [lia|exact He].
      + destruct W as (Lj & Hk & He & W). exists c. split; [assumption|]. split; [lia|].
        intros a [Ea|Ia]; [subst; exact Lj|]. apply in_app_or in Ia. destruct Ia; auto.
      + destruct W as [He W]. exists c. split; [assumption|]. split; [lia|exact He].
    - cbn [app] in W.
      assert (G : exists c0, body_wf pc lo (post ++ st :: pre) c0 /\ c0 <= c).
      { destruct x; cbn [body_wf] in W.
        - destruct W as [_ W]. eauto.
        - destruct W as (Ec & _ & W). exists i. split; [assumption|lia].
        - destruct W as [_ W]. eauto.
        - destruct W as (_ & _ & _ & W). eauto.
        - destruct W as [_ W]. eauto. }
      destruct G as (c0 & W0 & L0). destruct (IH _ _ _ W0) as (c' & A & B & C).
      exists c'. split; [assumption|]. split; [lia|assumption].
  Qed.

  Lemma body_atoms_ok : forall b c, body_wf pc lo b c ->
    forall st, In st b -> forall a, In a (stmt_atoms st) -> atom_ok pc lo c a.
  Proof.
    intros b c W st I a Ia. apply in_split in I. destruct I as (post & pre & E). subst b.
    destruct (body_split _ _ _ _ W) as (c' & _ & L & H). eapply atom_ok_mono; [exact L|auto].
  Qed.
End Consequences.

Lemma vars_of_in : forall l j, In j (vars_of l) <-> In (AVar j) l.
Proof.
  intros l j. unfold vars_of. rewrite in_flat_map. split.
  - intros (a & Ia & Ij). destruct a; cbn in Ij; try tauto. destruct Ij as [E|[]]. subst. exact Ia.
  - intros I. exists (AVar j). split; [exact I|left; reflexivity].
Qed.

Lemma seg_assigns_seq : forall g, seg_inv g ->
  sg_first g <= sg_next g /\ seg_assigns g = seq (sg_first g) (sg_next g - sg_first g).
Proof.
  intros g (pc & I). unfold seg_assigns, seg_body, sg_next. apply (body_assigns pc). apply (i_body _ _ _ I).
Qed.

Lemma seg_reads_earlier : forall g pre st post, seg_inv g ->
  seg_body g = pre ++ st :: post ->
  forall j, In j (vars_of (stmt_atoms st)) -> In j (flat_map stmt_assigns pre).
Proof.
  intros g pre st post (pc & I) E j Ij. unfold seg_body in E.
  assert (Eb : body (sg_state g) = List.rev post ++ st :: List.rev pre).
  { rewrite <- (rev_involutive (body (sg_state g))), E, rev_app_distr. cbn [List.rev].
    rewrite <- app_assoc. reflexivity. }
  pose proof (i_body _ _ _ I) as W. rewrite Eb in W.
  destruct (body_split _ _ _ _ _ _ W) as (c' & Wp & _ & H).
  destruct (body_assigns _ _ _ _ Wp) as [L A]. rewrite rev_involutive in A. rewrite A.
  apply vars_of_in in Ij. specialize (H _ Ij). cbn in H. apply in_seq. lia.
Qed.

Lemma seg_atoms_ok : forall g, seg_inv g -> exists pc,
  forall a, In a (flat_map stmt_atoms (seg_body g) ++ heap_atoms (sg_state g)) ->
            atom_ok pc (sg_first g) (sg_next g) a.
Proof.
  intros g (pc & I). exists pc. intros a Ia. apply in_app_or in Ia. destruct Ia as [Ia|Ia].
  - apply in_flat_map in Ia. destruct Ia as (st & Is & Ia). unfold seg_body in Is.
    apply in_rev in Is. exact (body_atoms_ok _ _ _ _ (i_body _ _ _ I) st Is a Ia).
  - unfold heap_atoms in Ia. apply in_flat_map in Ia. destruct Ia as (n & In_ & Ia).
    exact (proj1 (Forall_forall _ _) (i_nodes _ _ _ I) n In_ a Ia).
Qed.

Lemma seg_vars_in_range : forall g, seg_inv g ->
  forall j, In j (vars_of (flat_map stmt_atoms (seg_body g) ++ heap_atoms (sg_state g))) ->
            sg_first g <= j < sg_next g.
Proof.
  intros g Hg j Ij. destruct (seg_atoms_ok g Hg) as (pc & H). apply vars_of_in in Ij.
  exact (H _ Ij).
Qed.

Lemma seg_reads_reserved : forall g x, seg_inv g -> In x (seg_reads g) -> is_reserved x = true ->
  exists j, x = var_name j /\ sg_first g <= j < sg_next g.
Proof.
  intros g x Hg Ix R. destruct (seg_atoms_ok g Hg) as (pc & H). unfold seg_reads in Ix.
  apply in_flat_map in Ix. destruct Ix as (a & Ia & Ix). specialize (H a Ia).
  destruct a; cbn [atom_name atom_ok In] in Ix, H; try tauto; destruct Ix as [E|[]]; subst.
  - exists j. split; [reflexivity|exact H].
  - unfold unres in H. rewrite R in H. discriminate.
Qed.

Lemma seg_binds_reserved : forall g x, seg_inv g -> In x (seg_binds g) -> is_reserved x = true ->
  (exists j, x = var_name j /\ sg_first g <= j < sg_next g) \/ x = result_name (sg_index g).
Proof.
  intros g x Hg Ix R. unfold seg_binds in Ix. apply in_flat_map in Ix. destruct Ix as (st & Is & Ix).
  destruct st; cbn [stmt_binds In] in Ix; try tauto; destruct Ix as [E|[]]; subst.
  - (* import *) exfalso. destruct Hg as (pc & I). unfold seg_body in Is. apply in_rev in Is.
    apply in_split in Is. destruct Is as (post & pre & E). pose proof (i_body _ _ _ I) as W.
    rewrite E in W. clear E. revert W. generalize (ctr (sg_state g)).
    induction post as [|y post IH]; intros c W; cbn [app body_wf] in W.
    + destruct W as [U _]. unfold unres in U. rewrite R in U. discriminate.
    + destruct y; cbn [body_wf] in W; [destruct W as [_ W]|destruct W as (_ & _ & W)|
        destruct W as [_ W]|destruct W as (_ & _ & _ & W)|destruct W as [_ W]]; eapply IH; exact W.
  - left. exists i. split; [reflexivity|]. destruct (seg_assigns_seq g Hg) as [L A].
    assert (Ii : In i (seg_assigns g)).
    { unfold seg_assigns. apply in_flat_map. exists (SAssignV i e). split; [exact Is|left; reflexivity]. }
    rewrite A in Ii. apply in_seq in Ii. lia.
  - right. reflexivity.
Qed.

(* ---- across segments ---- *)
Lemma chain_later : forall r g i v, seg_chain i v (g :: r) -> Forall seg_inv (g :: r) ->
  forall g2, In g2 r -> sg_next g <= sg_first g2 /\ sg_index g < sg_index g2.
Proof.
  induction r as [|h r IH]; intros g i v C F g2 I2; [destruct I2|].
  cbn [seg_chain] in C. destruct C as (Ei & Ev & Eh & Evh & C).
  inversion F as [|? ? Fg Fr]; subst. inversion Fr as [|? ? Fh Fr']; subst.
  destruct I2 as [E|I2]; [subst; lia|].
  assert (C' : seg_chain (S (sg_index g)) (sg_next g) (h :: r)) by (cbn [seg_chain]; auto).
  destruct (IH h _ _ C' Fr g2 I2) as [A B].
  destruct (seg_assigns_seq h Fh) as [L _]. lia.
Qed.

Lemma chain_app : forall l1 l i v, seg_chain i v (l1 ++ l) -> exists i' v', seg_chain i' v' l.
Proof.
  induction l1 as [|x l1 IH]; intros l i v C; [eauto|]. cbn [app seg_chain] in C.
  destruct C as (_ & _ & C). eauto.
Qed.

Lemma segs_ordered : forall segs i v l1 g1 l2 g2 l3,
  seg_chain i v segs -> Forall seg_inv segs -> segs = l1 ++ g1 :: l2 ++ g2 :: l3 ->
  sg_next g1 <= sg_first g2 /\ sg_index g1 < sg_index g2.
Proof.
  intros segs i v l1 g1 l2 g2 l3 C F E. subst segs.
  destruct (chain_app _ _ _ _ C) as (i' & v' & C'). apply Forall_app in F. destruct F as [_ F].
  apply (chain_later _ _ _ _ C' F). apply in_or_app. right. left. reflexivity.
Qed.

Lemma segs_no_reuse : forall segs i v l1 g1 l2 g2 l3,
  seg_chain i v segs -> Forall seg_inv segs -> segs = l1 ++ g1 :: l2 ++ g2 :: l3 ->
  forall x, In x (seg_binds g1 ++ seg_reads g1) -> In x (seg_binds g2 ++ seg_reads g2) ->
            is_reserved x = false.
Proof.
  intros segs i v l1 g1 l2 g2 l3 C F E x I1 I2.
  destruct (segs_ordered _ _ _ _ _ _ _ _ C F E) as [Lv Li].
  assert (F1 : seg_inv g1).
  { subst segs. apply Forall_app in F. destruct F as [_ F]. inversion F; assumption. }
  assert (F2 : seg_inv g2).
  { subst segs. apply Forall_app in F. destruct F as [_ F]. inversion F as [|? ? _ F']; subst.
    apply Forall_app in F'. destruct F' as [_ F']. inversion F'; assumption. }
  destruct (is_reserved x) eqn:R; [exfalso|reflexivity].
  assert (A1 : (exists j, x = var_name j /\ sg_first g1 <= j < sg_next g1) \/ x = result_name (sg_index g1)).
  { apply in_app_or in I1. destruct I1 as [I1|I1];
      [apply seg_binds_reserved; assumption|left; apply seg_reads_reserved; assumption]. }
  assert (A2 : (exists j, x = var_name j /\ sg_first g2 <= j < sg_next g2) \/ x = result_name (sg_index g2)).
  { apply in_app_or in I2. destruct I2 as [I2|I2];
      [apply seg_binds_reserved; assumption|left; apply seg_reads_reserved; assumption]. }
  destruct A1 as [(j1 & E1 & L1)|E1]; destruct A2 as [(j2 & E2 & L2)|E2]; subst x.
  - apply var_name_inj in E2. lia.
  - exact (var_not_result _ _ E2).
  - exact (var_not_result _ _ (eq_sym E2)).
  - apply result_name_inj in E2. lia.
Qed.

(* ================= the statements used by props/C18.v ================= *)
Definition seg_scoped (g : seg) : Prop :=
  sg_first g <= sg_next g /\
  seg_assigns g = seq (sg_first g) (sg_next g - sg_first g) /\
  (forall pre st post, seg_body g = pre ++ st :: post ->
     forall j, In j (vars_of (stmt_atoms st)) -> In j (flat_map stmt_assigns pre)) /\
  (forall j, In j (vars_of (flat_map stmt_atoms (seg_body g) ++ heap_atoms (sg_state g))) ->
     sg_first g <= j < sg_next g) /\
  (forall x, In x (seg_binds g) -> is_reserved x = true ->
     (exists j, x = var_name j /\ sg_first g <= j < sg_next g) \/ x = result_name (sg_index g)) /\
  (forall x, In x (seg_reads g) -> is_reserved x = true ->
     exists j, x = var_name j /\ sg_first g <= j < sg_next g).

Lemma seg_inv_scoped : forall g, seg_inv g -> seg_scoped g.
Proof.
  intros g H. destruct (seg_assigns_seq g H) as [A B]. unfold seg_scoped.
  split; [exact A|]. split; [exact B|].
  split; [intros pre st post; apply seg_reads_earlier; exact H|].
  split; [apply seg_vars_in_range; exact H|].
  split; [intros x; apply seg_binds_reserved; exact H|intros x; apply seg_reads_reserved; exact H].
Qed.

Lemma decompile_disjoint : forall ps segs st,
  Forall (fun p => reserved_free p = true) ps ->
  cli_decompile ps = (segs, st) ->
  seg_chain 0 0 segs /\
  (forall g, In g segs -> seg_scoped g) /\
  (forall l1 g1 l2 g2 l3, segs = l1 ++ g1 :: l2 ++ g2 :: l3 ->
     sg_next g1 <= sg_first g2 /\ sg_index g1 < sg_index g2 /\
     forall x, In x (seg_binds g1 ++ seg_reads g1) -> In x (seg_binds g2 ++ seg_reads g2) ->
               is_reserved x = false) /\
  (st = Exit 0 /\ List.length segs = List.length ps /\
     Forall2 (fun g p => run_from p (fk_init (sg_first g)) = Ok (sg_state g)) segs ps
   \/ exists e, st = Raised e /\ List.length segs < List.length ps /\
        Forall2 (fun g p => run_from p (fk_init (sg_first g)) = Ok (sg_state g))
                segs (firstn (List.length segs) ps)).
Proof.
  intros ps segs st F H. destruct (decompile_from_spec _ _ _ _ _ F H) as (C & Fi & _ & Alt).
  split; [exact C|]. split.
  { intros g Ig. apply seg_inv_scoped. exact (proj1 (Forall_forall _ _) Fi g Ig). }
  split; [|exact Alt].
  intros l1 g1 l2 g2 l3 E. destruct (segs_ordered _ _ _ _ _ _ _ _ C Fi E) as [A B].
  split; [exact A|]. split; [exact B|]. exact (segs_no_reuse _ _ _ _ _ _ _ _ C Fi E).
Qed.

Lemma run_ends_stopped : forall p s s1, run_from (p ++ [OStop]) s = Ok s1 -> stopped s1 = true.
Proof.
  induction p as [|o p IH]; intros s s1 H.
  - change ([] ++ [OStop]) with [OStop] in H. cbn [run_from] in H.
    destruct (stopped s) eqn:St; [inversion H; subst; exact St|].
    destruct (step OStop s) as [s2|] eqn:S; cbn [bind] in H; [|discriminate]. inversion H; subst.
    apply (step_stop_body _ _ S).
  - rewrite <- app_comm_cons in H. cbn [run_from] in H.
    destruct (stopped s) eqn:St; [inversion H; subst; exact St|].
    destruct (step o s) as [s2|] eqn:S; cbn [bind] in H; [|discriminate]. eapply IH. exact H.
Qed.

(* a program that ends in STOP (every parsed pickle does) binds result<i> in its last statement *)
Lemma decompile_from_result_bound : forall ps i v segs st,
  cli_decompile_from i v ps = (segs, st) ->
  Forall (fun p => exists q, p = q ++ [OStop]) ps ->
  forall g, In g segs ->
    (exists e r, seg_body g = r ++ [SResult e]) /\ In (result_name (sg_index g)) (seg_binds g).
Proof.
  induction ps as [|p ps IH]; intros i v segs st H F g Ig; cbn [cli_decompile_from] in H.
  - inversion H; subst. destruct Ig.
  - inversion F as [|? ? (q & Eq) F']; subst.
    destruct (run_from (q ++ [OStop]) (fk_init v)) as [s|e] eqn:Rn; [|inversion H; subst; destruct Ig].
    destruct (cli_decompile_from (S i) (ctr s) ps) as [l st'] eqn:D. inversion H; subst.
    destruct Ig as [E|Ig]; [subst g|exact (IH _ _ _ _ D F' g Ig)].
    pose proof (run_ends_stopped _ _ _ Rn) as T.
    assert (G0 : stopped (fk_init v) = true -> exists e r, body (fk_init v) = SResult e :: r)
      by (cbn; discriminate).
    destruct (run_from_result _ _ _ Rn G0 T) as (e & r & Eb).
    unfold seg_binds, seg_body. cbn [sg_state sg_index]. rewrite Eb. cbn [List.rev].
    split; [eauto|]. rewrite flat_map_app. apply in_or_app. right. left. reflexivity.
Qed.

Lemma decompile_result_bound : forall ps segs st,
  cli_decompile ps = (segs, st) ->
  Forall (fun p => exists q, p = q ++ [OStop]) ps ->
  forall g, In g segs ->
    (exists e r, seg_body g = r ++ [SResult e]) /\ In (result_name (sg_index g)) (seg_binds g).
Proof. intros ps segs st. apply decompile_from_result_bound. Qed.
