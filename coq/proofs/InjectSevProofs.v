(* C08: the injected call as fickling's own symbolic interpreter sees it (for the verdict). *)
From Coq Require Import List String Ascii ZArith Bool Arith Lia.
From Verif Require Import Base Ops Interp RefVM Shape ShapeProofs Inject InjectProofs.
Import ListNotations.
Local Open Scope nat_scope.
Local Open Scope list_scope.

Ltac crush H :=
  repeat (match type of H with
   | Ok _ = Ok _ => injection H as <-
   | Err _ = Ok _ => discriminate H
   | context [match ?x with _ => _ end] => let E := fresh "E" in destruct x eqn:E; cbn in H
   end).

Ltac crush_hyps :=
  repeat match goal with
  | E : Err _ = Ok _ |- _ => discriminate E
  | E : Ok _ = Ok _ |- _ => inversion E; subst; clear E
  | E : (_, _) = (_, _) |- _ => inversion E; subst; clear E
  | E : ?a = (_, _) |- _ => is_var a; subst a
  | E : match ?x with _ => _ end = Ok _ |- _ => destruct x eqn:?
  end.

Lemma fold_setitem_body ct kvs : forall s0,
  exists new, body (fold_left (fun (st0 : fk) (kv : expr * expr) =>
                      mkFk (stack st0) (memo st0) (nodes st0) (SSetItemV ct (fst kv) (snd kv) :: body st0)
                           (ctr st0) (stopped st0)) kvs s0) = new ++ body s0.
Proof.
  induction kvs as [|kv r IH]; intros s0; cbn [fold_left]; [exists []; reflexivity|].
  destruct (IH (mkFk (stack s0) (memo s0) (nodes s0) (SSetItemV ct (fst kv) (snd kv) :: body s0) (ctr s0) (stopped s0)))
    as (new & E). rewrite E. cbn [body]. exists (new ++ [SSetItemV ct (fst kv) (snd kv)]).
  rewrite <- app_assoc. reflexivity.
Qed.

(* statements are only ever appended to the module body *)
Lemma step_body o s s' : step o s = Ok s' -> exists new, body s' = new ++ body s.
Proof.
  intros H. destruct s as [st mm ns bd ct sp].
  destruct o;
    unfold step, pop_val, pop_slice, top_val, push, with_stack, alloc, set_node, get_node, emit,
      bind_call, new_variable, emit_import, call_with, emit, bind in H; cbn in H; crush H; crush_hyps; cbn;
    try (first [ exists []; reflexivity | eexists [_]; reflexivity | eexists [_; _]; reflexivity
          | eexists [_; _; _]; reflexivity ]).
  all: try match goal with |- context [fold_left ?f ?kvs ?s0] =>
         destruct (fold_setitem_body ct kvs s0) as (new & E); rewrite E; cbn [body];
         eexists (new ++ [_]); rewrite <- app_assoc; reflexivity end.
  all: match goal with |- context [if (if (?m =? "__builtin__")%string then _ else _) then _ else _] =>
         destruct (if (m =? "__builtin__")%string then true
                   else if (m =? "__builtins__")%string then true
                   else if (m =? "builtins")%string then true else false) end; cbn;
       first [ exists []; reflexivity | eexists [_]; reflexivity | eexists [_; _]; reflexivity
             | eexists [_; _; _]; reflexivity ].
Qed.

Lemma run_body : forall p s s', run_from p s = Ok s' -> exists new, body s' = new ++ body s.
Proof.
  induction p as [|o r IH]; intros s s' H; cbn [run_from] in H.
  - injection H as <-. exists []. reflexivity.
  - destruct (stopped s); [injection H as <-; exists []; reflexivity|].
    destruct (step o s) as [s1|] eqn:E; cbn [bind] in H; [|discriminate].
    destruct (step_body _ _ _ E) as (n1 & E1). destruct (IH _ _ H) as (n2 & E2).
    exists (n2 ++ n1). rewrite E2, E1, app_assoc. reflexivity.
Qed.

Lemma run_stopped p s : stopped s = true -> run_from p s = Ok s.
Proof. destruct p; cbn; [reflexivity|]. intros ->. reflexivity. Qed.

Lemma run_app a b s : run_from (a ++ b) s = bind (run_from a s) (run_from b).
Proof.
  revert s. induction a as [|o r IH]; intros s; cbn [app run_from bind]; [reflexivity|].
  destruct (stopped s) eqn:E.
  - cbn [bind]. symmetry. apply run_stopped. exact E.
  - destruct (step o s) as [s1|e]; cbn [bind]; [apply IH | reflexivity].
Qed.

Lemma run_noops k r s : run_from (repeat ONoop k ++ r) s = run_from r s.
Proof.
  induction k as [|k IH]; [reflexivity|]. cbn [repeat app run_from].
  destruct (stopped s) eqn:E; [symmetry; apply run_stopped; exact E|].
  cbn [step bind]. exact IH.
Qed.

Lemma run_cons o r st mm ns bd ct :
  run_from (o :: r) (mkFk st mm ns bd ct false) = bind (step o (mkFk st mm ns bd ct false)) (run_from r).
Proof. reflexivity. Qed.

Lemma split_mark_items l st acc : split_mark (map IE l ++ IMark :: st) acc = Ok (rev l ++ acc, st).
Proof.
  revert acc. induction l as [|e r IH]; intros acc; [reflexivity|].
  cbn [map app split_mark]. rewrite IH. cbn [rev]. rewrite <- app_assoc. reflexivity.
Qed.

(* ---- the argument block on the symbolic interpreter: pushes one expression, emits nothing ---- *)
Definition fpushes (a : arg) : Prop :=
  forall rest st mm ns bd ct, exists e ns',
    run_from (encode_obj a ++ rest) (mkFk st mm ns bd ct false) =
    run_from rest (mkFk (IE e :: st) mm ns' bd ct false).

Lemma fk_enc_list l : Forall fpushes l ->
  forall rest st mm ns bd ct, exists es ns',
    run_from (enc_list l ++ rest) (mkFk st mm ns bd ct false) =
    run_from rest (mkFk (map IE es ++ st) mm ns' bd ct false).
Proof.
  induction 1 as [|x r Hx _ IH]; intros rest st mm ns bd ct.
  - exists [], ns. reflexivity.
  - cbn [enc_list]. rewrite <- app_assoc. destruct (Hx (enc_list r ++ rest) st mm ns bd ct) as (e & ns1 & E1).
    rewrite E1. destruct (IH rest (IE e :: st) mm ns1 bd ct) as (es & ns2 & E2). rewrite E2.
    exists (es ++ [e]), ns2. rewrite map_app, <- app_assoc. reflexivity.
Qed.

Lemma fk_enc_dict kvs : Forall (fun kv => fpushes (snd kv)) kvs ->
  forall rest st mm ns bd ct, exists es ns',
    Nat.even (List.length es) = true /\
    run_from (enc_dict kvs ++ rest) (mkFk st mm ns bd ct false) =
    run_from rest (mkFk (map IE es ++ st) mm ns' bd ct false).
Proof.
  induction 1 as [|[k v] r Hx _ IH]; intros rest st mm ns bd ct.
  - exists [], ns. split; reflexivity.
  - cbn [enc_dict app]. rewrite run_cons. cbn [step bind]. unfold push, with_stack. cbn [stack memo nodes body ctr stopped].
    rewrite <- app_assoc. cbn [snd] in Hx.
    destruct (Hx (enc_dict r ++ rest) (IE (EConst k) :: st) mm ns bd ct) as (e & ns1 & E1). rewrite E1.
    destruct (IH rest (IE e :: IE (EConst k) :: st) mm ns1 bd ct) as (es & ns2 & EV & E2). rewrite E2.
    exists (es ++ [e; EConst k]), ns2. split.
    + rewrite app_length. cbn [List.length]. rewrite Nat.add_comm. cbn [Nat.add Nat.even]. exact EV.
    + rewrite map_app, <- app_assoc. reflexivity.
Qed.

Lemma encode_obj_fpushes : forall a, fpushes a.
Proof.
  apply arg_ind'.
  - intros c rest st mm ns bd ct. exists (EConst c), ns. reflexivity.
  - intros l F rest st mm ns bd ct. rewrite encode_AList. cbn [app]. rewrite run_cons. cbn [step bind].
    unfold with_stack. cbn [stack memo nodes body ctr stopped]. rewrite <- app_assoc.
    destruct (fk_enc_list l F ([OList] ++ rest) (IMark :: st) mm ns bd ct) as (es & ns1 & E). rewrite E.
    cbn [app]. rewrite run_cons. unfold step, pop_slice. cbn [stack]. rewrite split_mark_items. cbn [bind].
    unfold with_stack, alloc, push, with_stack. cbn [stack memo nodes body ctr stopped bind].
    eexists _, _. reflexivity.
  - intros kvs F rest st mm ns bd ct. destruct kvs as [|kv kvs].
    + cbn [encode_obj app]. rewrite run_cons. unfold step, alloc, push, with_stack.
      cbn [stack memo nodes body ctr stopped bind]. eexists _, _. reflexivity.
    + rewrite encode_ADict_cons. cbn [app]. rewrite run_cons. cbn [step bind].
      unfold with_stack. cbn [stack memo nodes body ctr stopped]. rewrite <- app_assoc.
      destruct (fk_enc_dict _ F ([ODict] ++ rest) (IMark :: st) mm ns bd ct) as (es & ns1 & EV & E). rewrite E.
      cbn [app]. rewrite run_cons. unfold step, pop_slice. cbn [stack]. rewrite split_mark_items. cbn [bind].
      rewrite app_nil_r, rev_length, EV.
      unfold with_stack, alloc, push, with_stack. cbn [stack memo nodes body ctr stopped bind].
      eexists _, _. reflexivity.
Qed.

(* GLOBAL m n, MARK, <any arguments>, TUPLE, REDUCE: fickling records `_var<ct> = n(args...)`, with the
   callee printed by its NAME -- whatever was on the stack, in the memo or in the program before *)
Definition import_stmt (m n : string) (bd : list stmt) : list stmt :=
  if is_builtins m then bd else SImport m n :: bd.

Lemma fk_call_block m n args rest st mm ns bd ct :
  plain2 m n = true ->
  exists es ns',
    run_from (call_setup m n (encode_objs args) ++ OReduce :: rest) (mkFk st mm ns bd ct false) =
    run_from rest (mkFk (IE (EVar ct) :: st) mm ns'
                        (SAssignV ct (ECall (EName n) es None) :: import_stmt m n bd) (S ct) false).
Proof.
  intros P. unfold call_setup. rewrite encode_objs_enc_list. cbn [app]. rewrite run_cons.
  unfold step. unfold plain2 in P. rewrite P. cbn [bind].
  assert (emit_import m n (mkFk st mm ns bd ct false) = mkFk st mm ns (import_stmt m n bd) ct false) as EI.
  { unfold emit_import, import_stmt, emit. cbn [body stack memo nodes ctr stopped]. destruct (is_builtins m); reflexivity. }
  rewrite EI. unfold push, with_stack. cbn [stack memo nodes body ctr stopped].
  rewrite run_cons. cbn [step bind]. unfold with_stack. cbn [stack memo nodes body ctr stopped].
  rewrite <- app_assoc.
  destruct (fk_enc_list args (proj2 (Forall_forall fpushes args) (fun a _ => encode_obj_fpushes a))
              ([OTuple] ++ OReduce :: rest) (IMark :: IE (EName n) :: st) mm ns (import_stmt m n bd) ct)
    as (es & ns1 & E).
  rewrite E. cbn [app]. rewrite run_cons. unfold step, pop_slice. cbn [stack]. rewrite split_mark_items. cbn [bind].
  unfold with_stack, push, with_stack. cbn [stack memo nodes body ctr stopped bind].
  rewrite run_cons. unfold step, pop_val. cbn [stack bind]. unfold with_stack. cbn [stack memo nodes body ctr stopped bind].
  unfold call_with, bind_call, new_variable, push, with_stack. cbn [stack memo nodes body ctr stopped].
  eexists _, _. reflexivity.
Qed.

(* only STOP halts the symbolic interpreter *)
Lemma fold_setitem_stopped ct kvs : forall s0,
  stopped (fold_left (fun (st0 : fk) (kv : expr * expr) =>
                      mkFk (stack st0) (memo st0) (nodes st0) (SSetItemV ct (fst kv) (snd kv) :: body st0)
                           (ctr st0) (stopped st0)) kvs s0) = stopped s0.
Proof. induction kvs as [|kv r IH]; intros s0; cbn [fold_left]; [reflexivity|]. rewrite IH. reflexivity. Qed.

Lemma step_stopped o s s' : is_stop o = false -> step o s = Ok s' -> stopped s' = stopped s.
Proof.
  intros NS H. destruct s as [st mm ns bd ct sp].
  destruct o; try discriminate NS;
    unfold step, pop_val, pop_slice, top_val, push, with_stack, alloc, set_node, get_node, emit,
      bind_call, new_variable, emit_import, call_with, emit, bind in H; cbn in H; crush H; crush_hyps; cbn;
    try reflexivity.
  all: try (rewrite fold_setitem_stopped; reflexivity).
  all: match goal with |- context [if (if (?m =? "__builtin__")%string then _ else _) then _ else _] =>
         destruct (if (m =? "__builtin__")%string then true
                   else if (m =? "__builtins__")%string then true
                   else if (m =? "builtins")%string then true else false) end; reflexivity.
Qed.

Lemma run_not_stopped : forall p s s',
  stop_free p = true -> run_from p s = Ok s' -> stopped s' = stopped s.
Proof.
  induction p as [|o r IH]; intros s s' SF H; cbn [run_from] in H.
  - injection H as <-. reflexivity.
  - cbn [stop_free forallb] in SF. apply andb_prop in SF. destruct SF as [S1 S2].
    destruct (stopped s) eqn:E; [injection H as <-; exact E|].
    destruct (step o s) as [s1|] eqn:E1; cbn [bind] in H; [|discriminate].
    rewrite (IH _ _ S2 H). rewrite (step_stopped _ _ _ (proj1 (negb_true_iff _) S1) E1). exact E.
Qed.

(* a call block placed after ANY stop-free prefix and followed by anything: the decompiled program
   contains `_var<i> = n(...)` with the callee printed by name *)
Lemma block_recorded pre m n args rest fv s :
  stop_free pre = true -> plain2 m n = true ->
  run_from (pre ++ call_setup m n (encode_objs args) ++ OReduce :: rest) (fk_init fv) = Ok s ->
  exists i es, In (SAssignV i (ECall (EName n) es None)) (body s).
Proof.
  intros SF P H. rewrite run_app in H. destruct (run_from pre (fk_init fv)) as [sA|] eqn:RA; [|discriminate].
  cbn [bind] in H. pose proof (run_not_stopped _ _ _ SF RA) as NS. cbn in NS.
  destruct sA as [st mm ns bd ct sp]. cbn in NS. subst sp.
  destruct (fk_call_block m n args rest st mm ns bd ct P) as (es & ns' & E). rewrite E in H.
  destruct (run_body _ _ _ H) as (new & EB). exists ct, es. rewrite EB. apply in_or_app. right. left. reflexivity.
Qed.

Lemma append_ops_block m n cs pop :
  append_ops m n cs pop = call_setup m n (encode_objs (map AConst cs)) ++ OReduce :: (if pop then [OPop] else []).
Proof.
  unfold append_ops, call_setup, encode_objs.
  replace (flat_map encode_obj (map AConst cs)) with (map OConst cs)
    by (induction cs as [|c r IH]; [reflexivity| cbn; rewrite <- IH; reflexivity]).
  repeat (rewrite <- app_assoc; cbn [app]). reflexivity.
Qed.

(* which call an injection mode makes "contiguously" (set-up and REDUCE adjacent): every mode except
   insert_python with run_first=False; for insert_function_call_on_unpickled_object the eval of the name *)
Definition contiguous_callee (md : mode) : option (string * string) :=
  match md with
  | MInsert m n _ true _ => Some (m, n)
  | MAppend m n _ _ => Some (m, n)
  | MCallObj _ _ _ _ => Some ("builtins", "eval")%string
  | _ => None
  end.

Theorem injected_call_decompiled md m n p p' fv s :
  contiguous_callee md = Some (m, n) -> plain2 m n = true ->
  single_final_stop p = true -> inject md p = Ok p' ->
  run_from p' (fk_init fv) = Ok s ->
  exists i es, In (SAssignV i (ECall (EName n) es None)) (body s).
Proof.
  intros HC P HS HI HR. apply single_final_stop_inv in HS. destruct HS as (q0 & -> & SF).
  destruct md as [m0 n0 args rf rep|m0 n0 cs pop|magic index|fdef fname bc cargs]; cbn [contiguous_callee] in HC;
    try discriminate HC; cbn [inject] in HI.
  - destruct rf; [|discriminate HC]. injection HC as <- <-.
    apply insert_python_ok in HI. destruct HI as (_ & HI). cbv zeta in HI.
    rewrite insert_block_split, skip_noops_app_stop, insert_block_after in HI.
    set (k := skip_noops q0) in *. set (q := skipn k q0) in *.
    replace (repeat ONoop k ++ call_setup m0 n0 (encode_objs args) ++ [OReduce] ++ q ++ [OStop])
      with ((repeat ONoop k ++ call_setup m0 n0 (encode_objs args) ++ [OReduce] ++ q) ++ [OStop]) in HI
      by (repeat rewrite <- app_assoc; reflexivity).
    rewrite insert_last_seq_app in HI. subst p'.
    repeat rewrite <- app_assoc in HR. cbn [app] in HR.
    exact (block_recorded (repeat ONoop k) m0 n0 args _ fv s (stop_free_repeat k) P HR).
  - injection HC as <- <-. apply append_python_ok in HI. destruct HI as (_ & ->).
    rewrite insert_last_seq_app, append_ops_block in HR. repeat rewrite <- app_assoc in HR. cbn [app] in HR.
    exact (block_recorded q0 m0 n0 (map AConst cs) _ fv s SF P HR).
  - injection HC as <- <-. apply callobj_ok in HI. subst p'.
    rewrite insert_last_seq_app in HR. unfold call_on_object_ops in HR.
    rewrite (append_ops_block "builtins" "eval") in HR.
    set (X := match bc with
              | Some b => append_ops "marshal" "loads" [CBytes b] false ++
                          [OPut 1; OPop; OGlobal "builtins" "exec"; OMark; OGet 1; OTuple; OReduce; OPop]
              | None => append_ops "builtins" "exec" [CStr fdef] true end) in *.
    assert (stop_free (q0 ++ X) = true) as SX.
    { rewrite stop_free_app, SF. unfold X. destruct bc; [rewrite stop_free_app|]; rewrite stop_free_append_ops; reflexivity. }
    repeat rewrite <- app_assoc in HR. cbn [app] in HR. rewrite app_assoc in HR.
    exact (block_recorded (q0 ++ X) _ _ _ _ fv s SX P HR).
Qed.
