(* Detection floors (C04) and totality (C19) of the analysis model. *)
From Coq Require Import List String Ascii ZArith Bool Arith Lia.
From Verif Require Import Base Ops Interp Unparse Severity SeverityProofs AnalysisTable MLTable ReportTable Analysis.
Import ListNotations.
Local Open Scope nat_scope.
Local Open Scope list_scope.

(* a finding of the given severity name and nothing else *)
Definition sevf (name : string) : finding := mkFinding "" name "" ("", 0) None TNone.

Section Proofs.
Variable crepr : const -> string.
Variable std : string -> bool.

(* ---------- generic ---------- *)
Lemma find_sev_bound name : forall l i k, find_sev name i l = Some k -> i <= k < i + List.length l.
Proof.
  induction l as [|[n v] r IH]; intros i k H; cbn in H; [discriminate|].
  destruct (String.eqb n name).
  - inversion H; subst. cbn. lia.
  - apply IH in H. cbn. lia.
Qed.

Lemma finding_sev_wf f : wf (finding_sev f).
Proof.
  unfold finding_sev, sev_of_name. destruct (find_sev (f_sev f) 0 SevTable.sev_table) eqn:E.
  - apply find_sev_bound in E. unfold wf, nsev. cbn [Nat.add] in E. destruct E as [_ E]. exact E.
  - unfold wf. rewrite nsev_6. lia.
Qed.

Lemma verdict_ge fs f : In f fs -> doc_rank (finding_sev f) <= doc_rank (verdict fs).
Proof.
  intros H. unfold verdict. apply severity_upper.
  - apply Forall_forall. intros x Hx. apply in_map_iff in Hx. destruct Hx as (g & <- & _). apply finding_sev_wf.
  - apply in_map. exact H.
Qed.

(* the severity names the analyses use, on the regenerated table *)
Lemma rank_names :
  doc_rank (finding_sev (sevf "SUSPICIOUS")) = 2 /\
  doc_rank (finding_sev (sevf "LIKELY_UNSAFE")) = 3 /\
  doc_rank (finding_sev (sevf "LIKELY_OVERTLY_MALICIOUS")) = 4 /\
  doc_rank (finding_sev (sevf "OVERTLY_MALICIOUS")) = 5.
Proof. vm_compute. auto. Qed.

Lemma rank_of_name f name :
  f_sev f = name -> doc_rank (finding_sev f) = doc_rank (finding_sev (sevf name)).
Proof. intros <-. reflexivity. Qed.

(* text of a call whose callee is a plain name starts with "name(" -- also after shortening *)
Lemma unparse_call_eq n ns f args kw :
  unparse_expr crepr (S (S n)) ns (ECall (EName f) args kw) =
  (f ++ "(" ++ commas (map (unparse_expr crepr (S n) ns) args ++
                       match kw with Some k => ["**" ++ unparse_expr crepr (S n) ns k] | None => [] end)
     ++ ")")%string.
Proof. reflexivity. Qed.

Lemma call_text_name ns f args kw :
  exists rest, call_text crepr ns (ECall (EName f) args kw) = (f ++ "(" ++ rest)%string.
Proof.
  unfold call_text. change UDEPTH with (S (S 38)). rewrite unparse_call_eq. eexists. reflexivity.
Qed.

Lemma bad_name_prefix : forall f, In f bad_calls -> forall rest,
  bad_prefix (shorten (f ++ "(" ++ rest)%string) = true.
Proof.
  intros f Hin rest. unfold bad_calls in Hin.
  repeat (destruct Hin as [<-|Hin];
          [unfold shorten; match goal with |- context[if ?c then _ else _] => destruct c end;
           cbn; reflexivity |]).
  destruct Hin.
Qed.


Local Opaque unparse_expr shorten.

(* ---------- NonStandardImports ---------- *)
Lemma nonstd_reports_first : forall imps,
  (exists mn, In mn imps /\ std (fst mn) = false) ->
  exists f, In f (fst (non_standard_imports std imps [])) /\ f_sev f = "LIKELY_UNSAFE"%string.
Proof.
  induction imps as [|mn r IH]; intros (x & Hin & Hx); [destruct Hin|].
  cbn [non_standard_imports]. destruct (std (fst mn)) eqn:S.
  - destruct Hin as [->|Hin]; [congruence|]. apply IH. eauto.
  - unfold add. cbn [mem_str].
    destruct (non_standard_imports std r [shorten (imp_text mn)]) as [fs d'] eqn:E. cbn [fst app].
    eexists. split; [left; reflexivity | reflexivity].
Qed.

(* ---------- UnsafeImportsML ---------- *)
Lemma unsafe_ml_reports : forall imps d m n p,
  In (m, n) imps -> In p (dotted_prefixes m) -> mem_str p unsafe_modules = true ->
  exists f, In f (fst (unsafe_imports_ml imps d)) /\ f_sev f = "LIKELY_OVERTLY_MALICIOUS"%string.
Proof.
  induction imps as [|mn r IH]; intros d m n p Hin Hp Hm; [destruct Hin|].
  cbn [unsafe_imports_ml]. destruct (unsafe_imports_ml r _) as [fs d'] eqn:E.
  destruct Hin as [->|Hin].
  - cbn [fst snd].
    match goal with |- context[flat_map ?g (dotted_prefixes m)] => set (G := g) end.
    assert (exists f, In f (flat_map G (dotted_prefixes m)) /\ f_sev f = "LIKELY_OVERTLY_MALICIOUS"%string) as (f0 & HI & HS).
    { eexists. split.
      - apply in_flat_map. exists p. split; [exact Hp|]. subst G. cbv beta. rewrite Hm. left; reflexivity.
      - reflexivity. }
    exists f0. split; [apply in_or_app; left; exact HI | exact HS].
  - destruct (IH (add (shorten (imp_text mn)) d) m n p Hin Hp Hm) as (f & Hf & Hs).
    rewrite E in Hf. cbn in Hf. exists f. split; [|exact Hs].
    cbn [fst]. apply in_or_app; right. apply in_or_app; right. exact Hf.
Qed.

(* ---------- BadCalls ---------- *)
Lemma bad_calls_reports ns : forall calls d c,
  In c calls -> bad_prefix (shorten (call_text crepr ns c)) = true ->
  exists f, In f (fst (bad_calls_an crepr ns calls d)) /\ f_sev f = "OVERTLY_MALICIOUS"%string.
Proof.
  induction calls as [|x r IH]; intros d c Hin Hb; [destruct Hin|].
  cbn [bad_calls_an]. destruct Hin as [->|Hin].
  - rewrite Hb. destruct (bad_calls_an crepr ns r _) as [fs d'] eqn:E. cbn.
    eexists. split; [left; reflexivity | reflexivity].
  - destruct (bad_prefix (shorten (call_text crepr ns x))).
    + destruct (IH (add (shorten (call_text crepr ns x)) d) c Hin Hb) as (f & Hf & Hs).
      destruct (bad_calls_an crepr ns r _) as [fs d'] eqn:E. cbn [fst] in *.
      exists f. split; [right; exact Hf | exact Hs].
    + apply (IH d c); assumption.
Qed.

Lemma stmt_call_in ns b i c :
  In (SAssignV i c) b -> (exists f a k, c = ECall f a k) -> In c (flat_map (stmt_calls ns) b).
Proof.
  intros Hin (f & a & k & ->). apply in_flat_map. eexists. split; [exact Hin|].
  cbn. left; reflexivity.
Qed.

End Proofs.
