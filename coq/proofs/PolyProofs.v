(* Lemmas for C17 (format identification table, torch acceptance, create_polyglot cleanliness). *)
From Coq Require Import List String Ascii Bool Arith Lia.
From Verif Require Import Base PolyTable Poly PolySpec.
Import ListNotations.
Open Scope string_scope.

(* ================= strings ================= *)
Lemma prefix_spec : forall s n, prefix s n = true <-> exists b, n = s ++ b.
Proof.
  induction s as [|a s IH]; intros n; simpl.
  - destruct n; split; intros; eauto.
  - destruct n as [|b n]; simpl.
    + split; [discriminate|]. intros [x H]. discriminate.
    + destruct (ascii_dec a b) as [->|Hne].
      * rewrite IH. split; intros [x H]; exists x; [subst; reflexivity|]. inversion H; reflexivity.
      * split; [discriminate|]. intros [x H]. inversion H. congruence.
Qed.

Lemma prefix_app : forall s x, prefix s (s ++ x) = true.
Proof. intros. apply prefix_spec. eauto. Qed.

Lemma prefix_refl : forall s, prefix s s = true.
Proof. intros. apply prefix_spec. exists "". induction s; simpl; congruence. Qed.

Lemma append_nil_r : forall s, s ++ "" = s.
Proof. induction s; simpl; congruence. Qed.

Lemma append_assoc : forall a b c : string, (a ++ b) ++ c = a ++ (b ++ c).
Proof. induction a; simpl; intros; congruence. Qed.

Lemma contains_eq : forall s n,
  contains s n = if prefix s n then true
                 else match n with EmptyString => false | String _ r => contains s r end.
Proof. destruct n; reflexivity. Qed.

(* `s in n` is exactly "n = a ++ s ++ b for some a, b" *)
Lemma contains_spec : forall s n, contains s n = true <-> exists a b, n = a ++ s ++ b.
Proof.
  intros s n. induction n as [|c n IH]; rewrite contains_eq.
  - destruct (prefix s "") eqn:P.
    + split; auto. intros _. apply prefix_spec in P. destruct P as [b H]. exists "", b. exact H.
    + split; [discriminate|]. intros [a [b H]].
      destruct a; simpl in H.
      * assert (prefix s "" = true) by (apply prefix_spec; eauto). congruence.
      * discriminate.
  - destruct (prefix s (String c n)) eqn:P.
    + split; auto. intros _. apply prefix_spec in P. destruct P as [b H]. exists "", b. exact H.
    + rewrite IH. split.
      * intros [a [b H]]. exists (String c a), b. simpl. congruence.
      * intros [a [b H]]. destruct a as [|c' a]; simpl in H.
        -- assert (prefix s (String c n) = true) by (apply prefix_spec; eauto). congruence.
        -- inversion H. eauto.
Qed.

(* `n.endswith(s)` is exactly "n = a ++ s for some a" *)
Lemma ends_with_spec : forall s n, ends_with s n = true <-> exists a, n = a ++ s.
Proof.
  intros s n. induction n as [|c n IH]; simpl.
  - destruct (String.eqb_spec s "").
    + subst. split; auto. intros _. exists "". reflexivity.
    + split; [discriminate|]. intros [a H]. destruct a; simpl in H; [congruence|discriminate].
  - destruct (String.eqb_spec s (String c n)).
    + subst. split; auto. intros _. exists "". reflexivity.
    + rewrite IH. split.
      * intros [a H]. exists (String c a). simpl. congruence.
      * intros [a H]. destruct a as [|c' a]; simpl in H; [congruence|]. inversion H. eauto.
Qed.

(* the suffix test implies the substring test (also for a longer suffix "x" ++ s) *)
Lemma ends_with_contains : forall x s n, ends_with (x ++ s) n = true -> contains s n = true.
Proof.
  intros x s n H. apply ends_with_spec in H. destruct H as [a H].
  apply contains_spec. exists (a ++ x), "". rewrite append_nil_r, append_assoc. exact H.
Qed.

Lemma mem_str_In : forall x l, mem_str x l = true <-> In x l.
Proof.
  induction l as [|y l IH]; simpl.
  - split; [discriminate|tauto].
  - destruct (String.eqb_spec x y).
    + subst. tauto.
    + rewrite IH. split; [tauto|]. intros [H|H]; [congruence|exact H].
Qed.

(* ================= the table ================= *)
Fixpoint list_str_eqb (a b : list string) : bool :=
  match a, b with
  | [], [] => true
  | x :: r, y :: t => String.eqb x y && list_str_eqb r t
  | _, _ => false
  end.

Lemma list_str_eqb_eq : forall a b, list_str_eqb a b = true -> a = b.
Proof.
  induction a; destruct b; simpl; intros H; try discriminate; auto.
  apply andb_true_iff in H. destruct H as [H1 H2]. apply String.eqb_eq in H1. f_equal; auto.
Qed.

(* the whole of C17_table as a boolean, decided per record *)
Definition table_ok (p : props) : bool :=
  match identify p with
  | Err _ => false
  | Ok fs =>
      list_str_eqb fs (filter (fun f => mem_str f fs) precedence)
      && forallb (fun r => implb (mem_str (fst r) fs)
                                 (is_torch_zip p && forallb (marker p) (snd r))) doc_zip_table
      && forallb (fun r => implb (negb (fst r =? "TorchScript v1.0") && is_torch_zip p
                                  && forallb (marker p) (snd r))
                                 (mem_str (fst r) fs)) doc_zip_table
      && Bool.eqb (mem_str "TorchScript v1.0" fs)
                  (is_torch_zip p && has_model_json p && has_constants_pkl p)
      && implb (is_torch_zip p && has_data_pkl p) (mem_str "PyTorch v1.3" fs)
      && Bool.eqb (mem_str "PyTorch v0.1.1" fs) (is_tar p && legacy_ok p)
      && Bool.eqb (mem_str "PyTorch v0.1.10" fs) (is_valid_pickle p)
      && Bool.eqb (mem_str "PyTorch model archive format" fs) (is_standard_zip p && mar_ok p)
  end.

Definition bools : list bool := [true; false].

(* all 2^11 = 2048 records: 32 marker subsets x all values of the six other inputs *)
Definition all_props : list props :=
  flat_map (fun a => flat_map (fun b => flat_map (fun c => flat_map (fun d =>
  flat_map (fun e => flat_map (fun f => flat_map (fun g => flat_map (fun h =>
  flat_map (fun i => flat_map (fun j => map (fun k => mkProps a b c d e f g h i j k) bools)
  bools) bools) bools) bools) bools) bools) bools) bools) bools) bools.

Lemma in_bools : forall b, In b bools.
Proof. destruct b; simpl; auto. Qed.

Lemma all_props_length : List.length all_props = 2048.
Proof. vm_compute. reflexivity. Qed.

Lemma all_props_complete : forall p, In p all_props.
Proof.
  intros [a b c d e f g h i j k]. unfold all_props.
  apply in_flat_map; exists a; split; [apply in_bools|].
  apply in_flat_map; exists b; split; [apply in_bools|].
  apply in_flat_map; exists c; split; [apply in_bools|].
  apply in_flat_map; exists d; split; [apply in_bools|].
  apply in_flat_map; exists e; split; [apply in_bools|].
  apply in_flat_map; exists f; split; [apply in_bools|].
  apply in_flat_map; exists g; split; [apply in_bools|].
  apply in_flat_map; exists h; split; [apply in_bools|].
  apply in_flat_map; exists i; split; [apply in_bools|].
  apply in_flat_map; exists j; split; [apply in_bools|].
  apply in_map. apply in_bools.
Qed.

(* exhaustive evaluation against the generated format_conditions *)
Lemma table_ok_all : forallb table_ok all_props = true.
Proof. vm_compute. reflexivity. Qed.

Lemma table_ok_holds : forall p, table_ok p = true.
Proof. intros p. exact (proj1 (forallb_forall table_ok all_props) table_ok_all p (all_props_complete p)). Qed.

Lemma eqb_true_iff' : forall a b, Bool.eqb a b = true -> (a = true <-> b = true).
Proof. destruct a, b; simpl; intros; split; congruence. Qed.

Definition table_statement (p : props) (fs : list string) : Prop :=
  fs = filter (fun f => mem_str f fs) precedence /\
  (forall f ms, In (f, ms) doc_zip_table -> In f fs ->
     is_torch_zip p = true /\ forall m, In m ms -> marker p m = true) /\
  (forall f ms, In (f, ms) doc_zip_table -> f <> "TorchScript v1.0" -> is_torch_zip p = true ->
     (forall m, In m ms -> marker p m = true) -> In f fs) /\
  (In "TorchScript v1.0" fs <->
     is_torch_zip p = true /\ has_model_json p = true /\ has_constants_pkl p = true) /\
  (is_torch_zip p = true -> has_data_pkl p = true -> In "PyTorch v1.3" fs) /\
  (In "PyTorch v0.1.1" fs <-> is_tar p = true /\ legacy_ok p = true) /\
  (In "PyTorch v0.1.10" fs <-> is_valid_pickle p = true) /\
  (In "PyTorch model archive format" fs <-> is_standard_zip p = true /\ mar_ok p = true).

Lemma table_holds : forall p, exists fs, identify p = Ok fs /\ table_statement p fs.
Proof.
  intros p. pose proof (table_ok_holds p) as H. unfold table_ok in H.
  destruct (identify p) as [fs|e]; [|discriminate]. exists fs. split; [reflexivity|].
  apply andb_true_iff in H; destruct H as [H Hmar].
  apply andb_true_iff in H; destruct H as [H Hpkl].
  apply andb_true_iff in H; destruct H as [H Htar].
  apply andb_true_iff in H; destruct H as [H Hdata].
  apply andb_true_iff in H; destruct H as [H Hv10].
  apply andb_true_iff in H; destruct H as [H Hcomp].
  apply andb_true_iff in H; destruct H as [Hord Hsound].
  apply eqb_true_iff' in Hmar. apply eqb_true_iff' in Hpkl. apply eqb_true_iff' in Htar.
  apply eqb_true_iff' in Hv10.
  rewrite forallb_forall in Hsound. rewrite forallb_forall in Hcomp.
  unfold table_statement.
  split; [apply list_str_eqb_eq; exact Hord|].
  split.
  { intros f ms Hin Hf. specialize (Hsound _ Hin). simpl in Hsound.
    apply mem_str_In in Hf. rewrite Hf in Hsound. simpl in Hsound.
    apply andb_true_iff in Hsound. destruct Hsound as [A B]. split; [exact A|].
    rewrite forallb_forall in B. exact B. }
  split.
  { intros f ms Hin Hne Htz Hm. specialize (Hcomp _ Hin). simpl in Hcomp. apply mem_str_In.
    assert (E : (f =? "TorchScript v1.0") = false) by (apply String.eqb_neq; exact Hne).
    rewrite E, Htz in Hcomp. simpl in Hcomp.
    assert (F : forallb (marker p) ms = true) by (apply forallb_forall; exact Hm).
    rewrite F in Hcomp. exact Hcomp. }
  split.
  { rewrite <- mem_str_In. rewrite Hv10. rewrite !andb_true_iff. tauto. }
  split.
  { intros A B. apply mem_str_In. rewrite A, B in Hdata. exact Hdata. }
  split.
  { rewrite <- mem_str_In. rewrite Htar. rewrite andb_true_iff. tauto. }
  split.
  { rewrite <- mem_str_In. exact Hpkl. }
  { rewrite <- mem_str_In. rewrite Hmar. rewrite andb_true_iff. tauto. }
Qed.

(* ================= torch's acceptance ================= *)
Lemma has_sub_In : forall s names n, In n names -> contains s n = true -> has_sub s names = true.
Proof. intros. unfold has_sub. apply existsb_exists. eauto. Qed.

Lemma torch_accepts_data_pkl : forall tz names, torch_accepts tz names = true ->
  tz = true /\ exists n, In n names /\ ends_with "/data.pkl" n = true.
Proof.
  unfold torch_accepts. intros tz names H. apply andb_true_iff in H. destruct H as [A B].
  split; [exact A|]. destruct names as [|n0 r]; [discriminate|].
  destruct (upto_slash n0) as [d|]; [|discriminate].
  apply andb_true_iff in B. destruct B as [_ B]. apply mem_str_In in B. exists (d ++ "/data.pkl"). split; [exact B|].
  apply ends_with_spec. eauto.
Qed.

Lemma torch_accepts_implies_v13 : forall tz tar pkl std legacy names,
  torch_accepts tz names = true ->
  is_torch_zip (props_of_names tz tar pkl std legacy names) = true /\
  has_data_pkl (props_of_names tz tar pkl std legacy names) = true /\
  exists fs, identify (props_of_names tz tar pkl std legacy names) = Ok fs /\ In "PyTorch v1.3" fs.
Proof.
  intros tz tar pkl std legacy names H.
  apply torch_accepts_data_pkl in H. destruct H as [-> [n [Hin He]]].
  assert (D : has_sub "data.pkl" names = true).
  { apply has_sub_In with n; [exact Hin|]. apply (ends_with_contains "/" "data.pkl"). exact He. }
  split; [reflexivity|]. split; [simpl; exact D|].
  destruct (table_holds (props_of_names true tar pkl std legacy names)) as [fs [E T]].
  exists fs. split; [exact E|]. destruct T as [_ [_ [_ [_ [T _]]]]]. apply T; simpl; auto.
Qed.

(* the standard/TorchScript polyglot, at the level of name lists: a zip at offset 0 whose names are
   those of a data.pkl-bearing archive plus "constants.pkl" and "version" is both formats *)
Lemma has_sub_app_l : forall s a b, has_sub s a = true -> has_sub s (a ++ b) = true.
Proof. intros. unfold has_sub in *. rewrite existsb_app, H. reflexivity. Qed.

Lemma has_sub_app_r : forall s a b, has_sub s b = true -> has_sub s (a ++ b) = true.
Proof. intros. unfold has_sub in *. rewrite existsb_app, H. apply orb_true_r. Qed.

Lemma polyglot_identified : forall tar pkl std legacy names,
  has_sub "data.pkl" names = true ->
  exists fs, identify (props_of_names true tar pkl std legacy (names ++ ["constants.pkl"; "version"])) = Ok fs /\
             In "TorchScript v1.4" fs /\ In "PyTorch v1.3" fs.
Proof.
  intros tar pkl std legacy names D.
  set (p := props_of_names true tar pkl std legacy (names ++ ["constants.pkl"; "version"])).
  destruct (table_holds p) as [fs [E T]]. exists fs. split; [exact E|].
  destruct T as [_ [_ [C [_ [V _]]]]].
  assert (Hd : has_data_pkl p = true) by (simpl; apply has_sub_app_l; exact D).
  assert (Hc : has_constants_pkl p = true) by (simpl; apply has_sub_app_r; reflexivity).
  assert (Hv : has_version p = true) by (simpl; apply has_sub_app_r; reflexivity).
  split.
  - apply (C "TorchScript v1.4" ["data.pkl"; "constants.pkl"; "version"]).
    + simpl; auto.
    + discriminate.
    + reflexivity.
    + intros m [<-|[<-|[<-|[]]]]; assumption.
  - apply V; [reflexivity|exact Hd].
Qed.

(* ================= identification is a function of what it consults ================= *)
Lemma zip_formats_ext : forall p q conds,
  (forall k, prop_key p k = prop_key q k) -> zip_formats p conds = zip_formats q conds.
Proof.
  intros p q conds H. induction conds as [|[keys name] r IH]; simpl; [reflexivity|].
  assert (A : all_keys p keys = all_keys q keys).
  { induction keys as [|k t IHk]; simpl; [reflexivity|]. rewrite H, IHk. reflexivity. }
  rewrite A, IH. reflexivity.
Qed.

Lemma identify_consults : forall p q,
  is_torch_zip p = is_torch_zip q -> is_tar p = is_tar q ->
  is_valid_pickle p = is_valid_pickle q -> is_standard_zip p = is_standard_zip q ->
  (is_torch_zip p = true ->
     has_data_pkl p = has_data_pkl q /\ has_constants_pkl p = has_constants_pkl q /\
     has_version p = has_version q /\ has_model_json p = has_model_json q /\
     has_attributes_pkl p = has_attributes_pkl q) ->
  (is_tar p = true -> legacy_ok p = legacy_ok q) ->
  (is_standard_zip p = true -> mar_ok p = mar_ok q) ->
  identify p = identify q.
Proof.
  intros [a b c d e f g h i j k] [a' b' c' d' e' f' g' h' i' j' k']; simpl.
  intros -> -> -> -> Hm Hl Hmar. unfold identify; cbn [is_torch_zip is_tar is_valid_pickle is_standard_zip legacy_ok mar_ok].
  assert (Z : (if a' then zip_formats (mkProps a' b' c' d' e f g h i j k) format_conditions else Ok []) =
              (if a' then zip_formats (mkProps a' b' c' d' e' f' g' h' i' j' k') format_conditions else Ok [])).
  { destruct a'; [|reflexivity]. destruct (Hm eq_refl) as (-> & -> & -> & -> & ->).
    apply zip_formats_ext. intros; reflexivity. }
  rewrite Z.
  destruct b'; [rewrite (Hl eq_refl)|]; (destruct d'; [rewrite (Hmar eq_refl)|]); reflexivity.
Qed.

(* ================= abstract file system ================= *)
Lemma lookup_remove : forall fs p q,
  lookup (remove fs p) q = if String.eqb p q then None else lookup fs q.
Proof.
  induction fs as [|[k n] r IH]; intros p q; simpl.
  - destruct (p =? q); reflexivity.
  - destruct (String.eqb_spec k p).
    + subst. rewrite IH. destruct (String.eqb_spec p q); reflexivity.
    + simpl. rewrite IH.
      destruct (String.eqb_spec k q); destruct (String.eqb_spec p q); try reflexivity. congruence.
Qed.

Lemma lookup_write : forall fs p n q,
  lookup (write fs p n) q = if String.eqb p q then Some n else lookup fs q.
Proof.
  intros. unfold write. simpl. rewrite lookup_remove. destruct (p =? q); reflexivity.
Qed.

Lemma lookup_rmtree : forall fs d q,
  lookup (rmtree fs d) q = if in_tree d q then None else lookup fs q.
Proof.
  induction fs as [|[k n] r IH]; intros d q; simpl.
  - destruct (in_tree d q); reflexivity.
  - destruct (in_tree d k) eqn:T.
    + rewrite IH. destruct (String.eqb_spec k q); [subst; rewrite T; reflexivity|reflexivity].
    + simpl. rewrite IH. destruct (String.eqb_spec k q); [subst; rewrite T; reflexivity|reflexivity].
Qed.

Lemma in_tree_temp_sub : forall x, in_tree "temp" ("temp/" ++ x) = true.
Proof.
  intros. unfold in_tree. change ("temp" ++ "/") with "temp/". rewrite prefix_app. apply orb_true_r.
Qed.

Lemma in_tree_temp_name : forall x, in_tree "temp" (temp_name x) = false.
Proof. intros. reflexivity. Qed.

Lemma lookup_fold_dirs : forall ds fs q, in_tree "temp" q = false ->
  lookup (fold_left (fun f d => write f ("temp/" ++ d) Dir) ds fs) q = lookup fs q.
Proof.
  induction ds as [|d ds IH]; intros fs q H; simpl; [reflexivity|].
  rewrite IH by exact H. rewrite lookup_write.
  match goal with |- context [String.eqb ?a ?b] => destruct (String.eqb_spec a b) as [E|E] end; [|reflexivity].
  subst q. change (in_tree "temp" ("temp/" ++ d) = false) in H. rewrite in_tree_temp_sub in H. discriminate.
Qed.

Lemma lookup_extract_temp : forall fs name c q, in_tree "temp" q = false ->
  lookup (extract_temp fs name c) q = lookup fs q.
Proof.
  intros fs name c q H. unfold extract_temp. rewrite lookup_write.
  match goal with |- context [String.eqb ?a ?b] => destruct (String.eqb_spec a b) as [E|E] end.
  { subst q. rewrite in_tree_temp_sub in H. discriminate. }
  rewrite lookup_fold_dirs by exact H. rewrite lookup_write.
  destruct (String.eqb_spec "temp" q); [|reflexivity]. subst. discriminate.
Qed.

Lemma forallb_not_in_tree : forall d fs q,
  forallb (fun e : string * node => negb (in_tree d (fst e))) fs = true ->
  in_tree d q = true -> lookup fs q = None.
Proof.
  induction fs as [|[k n] r IH]; intros q H T; simpl in *; [reflexivity|].
  apply andb_true_iff in H. destruct H as [A B].
  destruct (String.eqb_spec k q); [subst; rewrite T in A; discriminate|]. apply IH; assumption.
Qed.

Lemma first_with_In : forall fmt files p, first_with fmt files = Some p -> exists f, In (p, f) files.
Proof.
  induction files as [|[q f] r IH]; simpl; intros p H; [discriminate|].
  destruct (f =? fmt).
  - inversion H; subst. eauto.
  - destruct (IH _ H) as [g G]. eauto.
Qed.

Lemma and_then_false : forall r f, and_then r (fun _ => false) f = r.
Proof. destruct r; reflexivity. Qed.

Lemma and_then_true : forall s f, and_then (Go s) (fun _ => true) f = f s.
Proof. reflexivity. Qed.

(* at most one constructor applies to a pair of primary formats *)
Lemma branches_exclusive : forall f1 f2,
  let fm := [f1; f2] in
  (subset2 F_MAR F_PKL fm && subset2 F_PT13 F_TS14 fm = false) /\
  (subset2 F_MAR F_PKL fm && subset2 F_MAR F_TAR fm = false) /\
  (subset2 F_PT13 F_TS14 fm && subset2 F_MAR F_TAR fm = false).
Proof.
  intros f1 f2. unfold subset2, mem_str.
  destruct (String.eqb_spec F_MAR f1); destruct (String.eqb_spec F_MAR f2);
  destruct (String.eqb_spec F_PKL f1); destruct (String.eqb_spec F_PKL f2);
  destruct (String.eqb_spec F_PT13 f1); destruct (String.eqb_spec F_PT13 f2);
  destruct (String.eqb_spec F_TS14 f1); destruct (String.eqb_spec F_TS14 f2);
  destruct (String.eqb_spec F_TAR f1); destruct (String.eqb_spec F_TAR f2);
  subst; simpl; try (repeat split; reflexivity); try discriminate.
Qed.

Section Clean.
  Variable ident : content -> res (list string).
  Variable znames : content -> list string.
  Variable fs : fsys.
  Variables first second : string.
  Variable out : option string.
  Variable K : content -> Prop.
  Hypothesis Hfresh : fresh fs first second out = true.
  Hypothesis HK1 : forall c, file_at fs first = Some c -> K c.
  Hypothesis HK2 : forall c, file_at fs second = Some c -> K c.

  Let t1 := temp_name first.
  Let t2 := temp_name second.

  Lemma fresh_parts :
    lookup fs t1 = None /\ lookup fs t2 = None /\
    (forall q, in_tree "temp" q = true -> lookup fs q = None) /\
    (forall n, In n (candidates out) ->
       n <> first /\ n <> second /\ n <> t1 /\ n <> t2 /\ in_tree "temp" n = false).
  Proof.
    unfold fresh in Hfresh.
    apply andb_true_iff in Hfresh. destruct Hfresh as [H Hc].
    apply andb_true_iff in H. destruct H as [H Ht].
    apply andb_true_iff in H. destruct H as [H1 H2].
    split; [|split; [|split]].
    - fold t1 in H1. destruct (lookup fs t1); [discriminate|reflexivity].
    - fold t2 in H2. destruct (lookup fs t2); [discriminate|reflexivity].
    - intros q Q. apply forallb_not_in_tree with "temp"; assumption.
    - intros n Hn. rewrite forallb_forall in Hc. specialize (Hc n Hn).
      repeat (apply andb_true_iff in Hc; destruct Hc as [Hc ?]).
      repeat match goal with
             | X : negb (_ =? _) = true |- _ => apply negb_true_iff in X; apply String.eqb_neq in X
             | X : negb _ = true |- _ => apply negb_true_iff in X
             end.
      auto.
  Qed.

  Definition agree_out (S : list string) (f : fsys) : Prop :=
    forall p, ~ In p S -> lookup f p = lookup fs p.

  Definition inv (s : st) : Prop :=
    agree_out [t1; t2] (s_fs s) /\
    (forall p f, In (p, f) (s_files s) -> p = t1 \/ p = t2) /\
    (forall p c, p = t1 \/ p = t2 -> file_at (s_fs s) p = Some c -> K c) /\
    s_name s = out.

  Definition success (f : fsys) (S : list string -> list string) : Prop :=
    exists name c, In name (candidates out) /\ lookup f name = Some (File c) /\
                   polyglot_from K znames c /\ agree_out (S [name]) f.

  Definition branch_post (r : step) : Prop :=
    match r with
    | Stop _ f => agree_out [t1; t2] f
    | Go s => (s_found s = false /\ agree_out [t1; t2] (s_fs s)) \/
              (s_found s = true /\ success (s_fs s) (fun l => t1 :: t2 :: l))
    end.

  Lemma name_or_cand : forall d, In d ["polyglot.mar.pt"; "polyglot.pt"; "polyglot.mar.tar"] ->
    In (name_or out d) (candidates out).
  Proof. intros d H. destruct out; simpl; auto. Qed.

  Lemma file_at_lookup : forall f p c, file_at f p = Some c -> lookup f p = Some (File c).
  Proof. unfold file_at. intros f p c H. destruct (lookup f p) as [[x|]|]; inversion H; reflexivity. Qed.

  (* append_file(src, dst); shutil.copy(dst, name) on two working copies *)
  Lemma append_copy : forall f src dst name,
    agree_out [t1; t2] f ->
    (forall p c, p = t1 \/ p = t2 -> file_at f p = Some c -> K c) ->
    src = t1 \/ src = t2 -> dst = t1 \/ dst = t2 -> In name (candidates out) ->
    match append_file f src dst with
    | Some f1 => match copy f1 dst name with
                 | Some f2 => success f2 (fun l => t1 :: t2 :: l)
                 | None => agree_out [t1; t2] f1
                 end
    | None => True
    end.
  Proof.
    intros f src dst name Ha Hk Hs Hd Hn.
    destruct fresh_parts as [_ [_ [_ Hc]]]. destruct (Hc name Hn) as [_ [_ [N1 [N2 _]]]].
    unfold append_file.
    destruct (file_at f src) as [cs|] eqn:Es; [|exact I].
    destruct (file_at f dst) as [cd|] eqn:Ed; [|exact I].
    assert (A1 : agree_out [t1; t2] (write f dst (File (Cat cd cs)))).
    { intros p Hp. rewrite lookup_write. destruct (String.eqb_spec dst p).
      - subst p. exfalso. apply Hp. simpl. destruct Hd; auto.
      - apply Ha. exact Hp. }
    unfold copy. rewrite lookup_write, String.eqb_refl.
    destruct (lookup (write f dst (File (Cat cd cs))) name) as [[x|]|] eqn:L; try exact A1.
    - exists name, (Cat cd cs). split; [exact Hn|]. split; [rewrite lookup_write, String.eqb_refl; reflexivity|].
      split.
      + exists cd, cs. split; [apply (Hk dst); assumption|]. split; [apply (Hk src); assumption|]. left. reflexivity.
      + intros p Hp. rewrite lookup_write. destruct (String.eqb_spec name p).
        * subst p. exfalso. apply Hp. simpl. auto.
        * apply A1. simpl in *. tauto.
    - exists name, (Cat cd cs). split; [exact Hn|]. split; [rewrite lookup_write, String.eqb_refl; reflexivity|].
      split.
      + exists cd, cs. split; [apply (Hk dst); assumption|]. split; [apply (Hk src); assumption|]. left. reflexivity.
      + intros p Hp. rewrite lookup_write. destruct (String.eqb_spec name p).
        * subst p. exfalso. apply Hp. simpl. auto.
        * apply A1. simpl in *. tauto.
  Qed.

  Lemma mar_pickle_post : forall s, inv s -> List.length (s_files s) = 2 -> branch_post (mar_pickle s).
  Proof.
    intros s [Ha [Hf [Hk Hn]]] Hl. unfold mar_pickle.
    destruct (s_files s) as [|[p1 f1] [|[p2 f2] [|]]] eqn:E; try discriminate. clear Hl.
    assert (P1 : p1 = t1 \/ p1 = t2) by (apply (Hf p1 f1); simpl; auto).
    assert (P2 : p2 = t1 \/ p2 = t2) by (apply (Hf p2 f2); simpl; auto).
    assert (Hc : In (name_or (s_name s) "polyglot.mar.pt") (candidates out))
      by (rewrite Hn; apply name_or_cand; simpl; auto).
    simpl.
    destruct (f1 =? F_MAR); destruct (f2 =? F_MAR); simpl.
    - pose proof (append_copy (s_fs s) p1 p2 _ Ha Hk P1 P2 Hc) as Q.
      destruct (append_file (s_fs s) p1 p2) as [g|]; [|exact Ha].
      destruct (copy g p2 _); [right; split; [reflexivity|exact Q]|exact Q].
    - pose proof (append_copy (s_fs s) p1 p2 _ Ha Hk P1 P2 Hc) as Q.
      destruct (append_file (s_fs s) p1 p2) as [g|]; [|exact Ha].
      destruct (copy g p2 _); [right; split; [reflexivity|exact Q]|exact Q].
    - pose proof (append_copy (s_fs s) p2 p1 _ Ha Hk P2 P1 Hc) as Q.
      destruct (append_file (s_fs s) p2 p1) as [g|]; [|exact Ha].
      destruct (copy g p1 _); [right; split; [reflexivity|exact Q]|exact Q].
    - pose proof (append_copy (s_fs s) p1 p2 _ Ha Hk P1 P2 Hc) as Q.
      destruct (append_file (s_fs s) p1 p2) as [g|]; [|exact Ha].
      destruct (copy g p2 _); [right; split; [reflexivity|exact Q]|exact Q].
  Qed.

  Lemma mar_tar_post : forall s, inv s -> branch_post (mar_tar s).
  Proof.
    intros s [Ha [Hf [Hk Hn]]]. unfold mar_tar.
    destruct (first_with F_MAR (s_files s)) as [mar|] eqn:E1; [|exact Ha].
    destruct (first_with F_TAR (s_files s)) as [tar|] eqn:E2; [|exact Ha].
    destruct (first_with_In _ _ _ E1) as [g1 G1]. destruct (first_with_In _ _ _ E2) as [g2 G2].
    assert (Hc : In (name_or (s_name s) "polyglot.mar.tar") (candidates out))
      by (rewrite Hn; apply name_or_cand; simpl; auto).
    pose proof (append_copy (s_fs s) mar tar _ Ha Hk (Hf _ _ G1) (Hf _ _ G2) Hc) as Q.
    destruct (append_file (s_fs s) mar tar) as [g|]; [|exact Ha].
    destruct (copy g tar _); [right; split; [reflexivity|exact Q]|exact Q].
  Qed.

  Lemma std_torchscript_post : forall s, inv s -> branch_post (std_torchscript znames s).
  Proof.
    intros s [Ha [Hf [Hk Hn]]]. unfold std_torchscript.
    destruct fresh_parts as [_ [_ [Htemp Hcand]]].
    destruct (first_with F_PT13 (s_files s)) as [std|] eqn:E1; [|exact Ha].
    destruct (first_with F_TS14 (s_files s)) as [ts|] eqn:E2; [|exact Ha].
    destruct (first_with_In _ _ _ E1) as [g1 G1]. destruct (first_with_In _ _ _ E2) as [g2 G2].
    pose proof (Hf _ _ G1) as S1. pose proof (Hf _ _ G2) as S2.
    destruct (file_at (s_fs s) std) as [cstd|] eqn:F1; [|exact Ha].
    destruct (file_at (s_fs s) ts) as [cts|] eqn:F2; [|exact Ha].
    destruct (find (ends_with "constants.pkl") (znames cts)) as [cp|] eqn:Fc;
      [|left; split; [reflexivity|exact Ha]].
    destruct (find (ends_with "version") (znames cts)) as [vp|] eqn:Fv;
      [|left; split; [reflexivity|exact Ha]].
    destruct (sane_member cp && sane_member vp); [|exact Ha].
    set (name := name_or (s_name s) "polyglot.pt").
    assert (Hc : In name (candidates out))
      by (unfold name; rewrite Hn; apply name_or_cand; simpl; auto).
    destruct (Hcand name Hc) as [_ [_ [N1 [N2 NT]]]].
    set (fs1 := extract_temp (s_fs s) cp (Member cts cp)).
    set (fs2 := extract_temp fs1 vp (Member cts vp)).
    assert (A2 : forall q, in_tree "temp" q = false -> lookup fs2 q = lookup (s_fs s) q).
    { intros q Q. unfold fs2, fs1. rewrite !lookup_extract_temp by exact Q. reflexivity. }
    assert (T12 : in_tree "temp" t1 = false /\ in_tree "temp" t2 = false)
      by (split; apply in_tree_temp_name).
    assert (R2 : agree_out [t1; t2] (rmtree fs2 "temp")).
    { intros p Hp. rewrite lookup_rmtree. destruct (in_tree "temp" p) eqn:T.
      - symmetry. apply Htemp. exact T.
      - rewrite A2 by exact T. apply Ha. exact Hp. }
    unfold copy.
    assert (Lstd : lookup fs2 std = Some (File cstd)).
    { rewrite A2; [apply file_at_lookup; exact F1|]. destruct S1; subst std; apply in_tree_temp_name. }
    rewrite Lstd.
    assert (OK : success (rmtree (write (write fs2 name (File cstd)) name
        (File (ZipAdd cstd [("constants.pkl", Member cts cp); ("version", Member cts vp)]))) "temp")
        (fun l => t1 :: t2 :: l)).
    { exists name, (ZipAdd cstd [("constants.pkl", Member cts cp); ("version", Member cts vp)]).
      split; [exact Hc|]. split.
      { rewrite lookup_rmtree, NT, lookup_write, String.eqb_refl. reflexivity. }
      split.
      { exists cstd, cts. split; [apply (Hk std); assumption|]. split; [apply (Hk ts); assumption|].
        right. exists cp, vp.
        apply find_some in Fc. apply find_some in Fv. tauto. }
      intros p Hp. rewrite lookup_rmtree. destruct (in_tree "temp" p) eqn:T.
      - symmetry. apply Htemp. exact T.
      - rewrite !lookup_write. destruct (String.eqb_spec name p).
        + subst p. exfalso. apply Hp. simpl. auto.
        + rewrite A2 by exact T. apply Ha. simpl in *. tauto. }
    destruct (lookup fs2 name) as [[x|]|]; try (right; split; [reflexivity|exact OK]). exact R2.
  Qed.

  Lemma cleanup_agree : forall f, agree_out [t1; t2] f ->
    forall p, lookup (cleanup f first second) p = lookup fs p.
  Proof.
    intros f Ha p. destruct fresh_parts as [F1 [F2 _]]. unfold cleanup. fold t1 t2.
    rewrite !lookup_remove.
    destruct (String.eqb_spec t2 p); [subst p; symmetry; exact F2|].
    destruct (String.eqb_spec t1 p); [subst p; symmetry; exact F1|].
    apply Ha. simpl. intros [H|[H|[]]]; congruence.
  Qed.

  Definition post (r : outcome * fsys) : Prop :=
    match fst r with
    | Returned true =>
        exists name c, In name (candidates out) /\ lookup (snd r) name = Some (File c) /\
                       polyglot_from K znames c /\
                       forall p, p <> name -> lookup (snd r) p = lookup fs p
    | _ => forall p, lookup (snd r) p = lookup fs p
    end.

  Lemma cleanup_success : forall f, success f (fun l => t1 :: t2 :: l) ->
    exists name c, In name (candidates out) /\
                   lookup (cleanup f first second) name = Some (File c) /\
                   polyglot_from K znames c /\
                   forall p, p <> name -> lookup (cleanup f first second) p = lookup fs p.
  Proof.
    intros f [name [c [Hc [L [P A]]]]]. destruct fresh_parts as [F1 [F2 [_ Hcand]]].
    destruct (Hcand name Hc) as [_ [_ [N1 [N2 _]]]].
    exists name, c. split; [exact Hc|]. unfold cleanup. fold t1 t2. split; [|split; [exact P|]].
    - rewrite !lookup_remove.
      destruct (String.eqb_spec t2 name); [congruence|]. destruct (String.eqb_spec t1 name); [congruence|].
      exact L.
    - intros p Hp. rewrite !lookup_remove.
      destruct (String.eqb_spec t2 p); [subst p; symmetry; exact F2|].
      destruct (String.eqb_spec t1 p); [subst p; symmetry; exact F1|].
      apply A. simpl. intros [H|[H|[H|[]]]]; congruence.
  Qed.

  Lemma branch_finish : forall r, branch_post r ->
    post (match r with
          | Go s => (Returned (s_found s), cleanup (s_fs s) first second)
          | Stop c f => (Raised c, cleanup f first second)
          end).
  Proof.
    intros [s|c f] H; unfold post; simpl in *.
    - destruct H as [[E A]|[E S]]; rewrite E.
      + apply cleanup_agree. exact A.
      + apply cleanup_success. exact S.
    - apply cleanup_agree. exact H.
  Qed.

  Theorem create_polyglot_post : post (create_polyglot ident znames fs first second out).
  Proof.
    destruct fresh_parts as [F1 [F2 [Htemp Hcand]]].
    assert (A0 : agree_out [t1; t2] fs) by (intros p _; reflexivity).
    unfold create_polyglot, body. fold t1 t2.
    destruct (copy fs first t1) as [fs1|] eqn:C1;
      [|unfold post; simpl; apply cleanup_agree; exact A0].
    assert (E1 : exists c1, lookup fs first = Some (File c1) /\ fs1 = write fs t1 (File c1)).
    { unfold copy in C1. destruct (lookup fs first) as [[c1|]|]; try discriminate.
      rewrite F1 in C1. inversion C1. eauto. }
    destruct E1 as [c1 [L1 ->]].
    assert (A1 : agree_out [t1; t2] (write fs t1 (File c1))).
    { intros p Hp. rewrite lookup_write. destruct (String.eqb_spec t1 p); [|reflexivity].
      subst p. exfalso. apply Hp. simpl. auto. }
    destruct (copy (write fs t1 (File c1)) second t2) as [fs2|] eqn:C2;
      [|unfold post; simpl; apply cleanup_agree; exact A1].
    assert (E2 : exists c2, lookup (write fs t1 (File c1)) second = Some (File c2) /\
                            fs2 = write (write fs t1 (File c1)) t2 (File c2)).
    { unfold copy in C2. destruct (lookup (write fs t1 (File c1)) second) as [[c2|]|]; try discriminate.
      destruct (lookup (write fs t1 (File c1)) t2) as [[x|]|]; try discriminate; inversion C2; eauto. }
    destruct E2 as [c2 [L2 ->]].
    set (fs2 := write (write fs t1 (File c1)) t2 (File c2)).
    assert (A2 : agree_out [t1; t2] fs2).
    { intros p Hp. unfold fs2. rewrite lookup_write. destruct (String.eqb_spec t2 p).
      - subst p. exfalso. apply Hp. simpl. auto.
      - apply A1. exact Hp. }
    assert (K1 : K c1) by (apply HK1; unfold file_at; rewrite L1; reflexivity).
    assert (K2 : K c2).
    { rewrite lookup_write in L2. destruct (String.eqb_spec t1 second).
      - inversion L2. subst c2. exact K1.
      - apply HK2. unfold file_at. rewrite L2. reflexivity. }
    assert (KK : forall p c, p = t1 \/ p = t2 -> file_at fs2 p = Some c -> K c).
    { intros p c Hp Hf. unfold file_at, fs2 in Hf. rewrite !lookup_write in Hf.
      destruct (t2 =? p); [inversion Hf; subst; exact K2|].
      destruct (t1 =? p); [inversion Hf; subst; exact K1|].
      destruct Hp as [->| ->]; [rewrite F1 in Hf|rewrite F2 in Hf]; discriminate. }
    destruct (file_at fs2 t1) as [d1|] eqn:D1;
      [|unfold post; simpl; apply cleanup_agree; exact A2].
    destruct (file_at fs2 t2) as [d2|] eqn:D2;
      [|unfold post; simpl; apply cleanup_agree; exact A2].
    destruct (ident d1) as [[|f1 l1]|e1];
      try (unfold post; simpl; apply cleanup_agree; exact A2).
    destruct (ident d2) as [[|f2 l2]|e2];
      try (unfold post; simpl; apply cleanup_agree; exact A2).
    set (s0 := mkSt fs2 [(t1, f1); (t2, f2)] out false).
    assert (I0 : inv s0).
    { split; [exact A2|]. split; [|split; [exact KK|reflexivity]].
      simpl. intros p f [H|[H|[]]]; inversion H; auto. }
    change (formats_of s0) with [f1; f2].
    destruct (branches_exclusive f1 f2) as [X12 [X13 X23]]. simpl in X12, X13, X23.
    match goal with
    | |- post (let '(o, fs') := match ?r with Go s => _ | Stop c f => _ end in _) =>
        assert (R : branch_post r); [|destruct r; exact (branch_finish _ R)]
    end.
    destruct (subset2 F_MAR F_PKL [f1; f2]) eqn:B1;
      destruct (subset2 F_PT13 F_TS14 [f1; f2]) eqn:B2;
      destruct (subset2 F_MAR F_TAR [f1; f2]) eqn:B3; simpl in X12, X13, X23; try discriminate;
      rewrite ?and_then_false, ?and_then_true.
    - apply mar_pickle_post; [exact I0|reflexivity].
    - apply std_torchscript_post; exact I0.
    - apply mar_tar_post; exact I0.
    - left. split; [reflexivity|exact A2].
  Qed.
End Clean.

(* the statement of C17_polyglot_clean *)
Lemma polyglot_clean : forall ident znames fs first second out,
  fresh fs first second out = true ->
  let r := create_polyglot ident znames fs first second out in
  lookup (snd r) first = lookup fs first /\
  lookup (snd r) second = lookup fs second /\
  match fst r with
  | Returned true =>
      exists name c, In name (candidates out) /\ lookup (snd r) name = Some (File c) /\
        polyglot_from (fun x => file_at fs first = Some x \/ file_at fs second = Some x) znames c /\
        forall p, p <> name -> lookup (snd r) p = lookup fs p
  | _ => forall p, lookup (snd r) p = lookup fs p
  end.
Proof.
  intros ident znames fs first second out Hf r.
  pose proof (create_polyglot_post ident znames fs first second out
                (fun x => file_at fs first = Some x \/ file_at fs second = Some x) Hf
                (fun c H => or_introl H) (fun c H => or_intror H)) as P.
  fold r in P. unfold post in P.
  destruct (fresh_parts fs first second out Hf) as [_ [_ [_ Hc]]].
  destruct (fst r) as [[|]|c].
  - destruct P as [name [c [Hn [L [Q A]]]]]. destruct (Hc name Hn) as [N1 [N2 _]].
    split; [apply A; congruence|]. split; [apply A; congruence|].
    exists name, c. auto.
  - auto.
  - auto.
Qed.
