(* C04: detection floors, from the reference VM's events to fickling's verdict. *)
From Coq Require Import List String Ascii ZArith Bool Arith Lia.
From Verif Require Import Base Ops Interp RefVM Unparse Severity SeverityProofs AnalysisTable MLTable
  Analysis AnalysisProofs SimRel SimProofs.
Import ListNotations.
Local Open Scope nat_scope.
Local Open Scope list_scope.

Section Floors.
Variable crepr : const -> string.
Variable std : string -> bool.

(* Analyzer.analyze with the regenerated Analysis.ALL order, written out *)
Lemma analyze_eq protos s :
  analyze crepr std protos s =
  let b := rev (body s) in
  let ns := nodes s in
  let imps := imports_of b in
  let calls := flat_map (stmt_calls ns) b in
  let safe := map snd (filter (fun mn => std (fst mn)) imps) in
  let r3 := non_standard_imports std imps [] in
  let r4 := unsafe_imports_ml imps (snd r3) in
  let r5 := bad_calls_an crepr ns calls (snd r4) in
  let r6 := overtly_bad_evals crepr ns safe (filter (fun c => negb (is_setstate_call c)) calls) (snd r5) in
  let r7 := unsafe_imports_an imps (snd r6) in
  let r8 := unused_variables_an crepr ns (unused_vars ns b) (snd r7) in
  let r9 := ml_allowlist_an imps (snd r8) in
  Some (fst (proto_findings protos) ++ snd (proto_findings protos) ++
        fst r3 ++ fst r4 ++ fst r5 ++ fst r6 ++ fst r7 ++ fst r8 ++ fst r9 ++ []).
Proof.
  lazy [analyze analysis_order run_all run_analysis String.eqb Ascii.eqb Bool.eqb].
  lazy zeta.
  destruct (non_standard_imports std _ []) as [f3 d3]; cbn [fst snd].
  destruct (unsafe_imports_ml _ d3) as [f4 d4]; cbn [fst snd].
  destruct (bad_calls_an crepr _ _ d4) as [f5 d5]; cbn [fst snd].
  destruct (overtly_bad_evals crepr _ _ _ d5) as [f6 d6]; cbn [fst snd].
  destruct (unsafe_imports_an _ d6) as [f7 d7]; cbn [fst snd].
  destruct (unused_variables_an crepr _ _ d7) as [f8 d8]; cbn [fst snd].
  destruct (ml_allowlist_an _ d8) as [f9 d9]; cbn [fst snd].
  reflexivity.
Qed.

Lemma import_in_imps b m n : In (SImport m n) b -> In (m, n) (imports_of (rev b)).
Proof.
  intros H. unfold imports_of. apply in_flat_map. exists (SImport m n).
  split; [apply -> in_rev; exact H | left; reflexivity].
Qed.

Lemma floor_from_finding fs f k name :
  In f fs -> f_sev f = name -> doc_rank (finding_sev (sevf name)) = k ->
  k <= doc_rank (verdict fs).
Proof.
  intros Hin Hn Hk. rewrite <- Hk, <- (rank_of_name f name Hn). apply verdict_ge. exact Hin.
Qed.

(* ---- body-level floors ---- *)
Theorem body_floor_nonstd protos s fs m n :
  analyze crepr std protos s = Some fs ->
  In (SImport m n) (body s) -> std m = false -> 3 <= doc_rank (verdict fs).
Proof.
  intros HA Hin Hs. rewrite analyze_eq in HA. cbv zeta in HA. inversion HA as [HF]; clear HA.
  destruct (nonstd_reports_first std (imports_of (rev (body s)))) as (f & Hf & Hn).
  { exists (m, n). split; [apply import_in_imps; exact Hin | exact Hs]. }
  eapply floor_from_finding; [ | exact Hn | apply rank_names].
  apply in_or_app; right. apply in_or_app; right. apply in_or_app; left. exact Hf.
Qed.

Theorem body_floor_dangerous protos s fs m n p :
  analyze crepr std protos s = Some fs ->
  In (SImport m n) (body s) -> In p (dotted_prefixes m) -> mem_str p unsafe_modules = true ->
  4 <= doc_rank (verdict fs).
Proof.
  intros HA Hin Hp Hm. rewrite analyze_eq in HA. cbv zeta in HA. inversion HA as [HF]; clear HA.
  destruct (unsafe_ml_reports (imports_of (rev (body s)))
              (snd (non_standard_imports std (imports_of (rev (body s))) [])) m n p) as (f & Hf & Hn);
    [apply import_in_imps; exact Hin | exact Hp | exact Hm |].
  eapply floor_from_finding; [ | exact Hn | apply rank_names].
  do 3 (apply in_or_app; right). apply in_or_app; left. exact Hf.
Qed.

Lemma verdict_wf fs : wf (verdict fs).
Proof.
  unfold verdict. apply severity_wf. apply Forall_forall. intros x Hx.
  apply in_map_iff in Hx. destruct Hx as (g0 & <- & _). apply finding_sev_wf.
Qed.

Theorem body_floor_bad_call protos s fs i f args kw :
  analyze crepr std protos s = Some fs ->
  In (SAssignV i (ECall (EName f) args kw)) (body s) -> In f bad_calls ->
  doc_rank (verdict fs) = 5.
Proof.
  intros HA Hin Hf.
  pose proof (doc_rank_lt6 _ (verdict_wf fs)) as U.
  assert (5 <= doc_rank (verdict fs)) as L; [|lia].
  rewrite analyze_eq in HA. cbv zeta in HA. inversion HA as [HF]; clear HA.
  set (ns := nodes s) in *.
  assert (In (ECall (EName f) args kw) (flat_map (stmt_calls ns) (rev (body s)))) as Hc.
  { eapply stmt_call_in; [apply -> in_rev; exact Hin | eauto]. }
  destruct (call_text_name crepr ns f args kw) as (rest & Ht).
  pose proof (bad_name_prefix f Hf rest) as Hb. rewrite <- Ht in Hb.
  match goal with |- context[bad_calls_an crepr ns ?calls ?d] =>
    destruct (bad_calls_reports crepr ns calls d _ Hc Hb) as (g & Hg & Hn) end.
  eapply floor_from_finding; [ | exact Hn | apply rank_names].
  do 4 (apply in_or_app; right). apply in_or_app; left. exact Hg.
Qed.

End Floors.
