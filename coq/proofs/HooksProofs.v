(* Lemmas about the hook-lifecycle model (C12). *)
From Coq Require Import List String Bool Arith Lia.
From Verif Require Import Base Allowlist Hooks.
Import ListNotations.
Local Open Scope list_scope.
Local Open Scope nat_scope.

(* ---------- the allow-listing unpickler ---------- *)

Fixpoint take_ok (a : list gname) (gs : list gname) : list gname :=
  match gs with
  | [] => []
  | g :: r => if spec_permits a g then g :: take_ok a r else []
  end.

Fixpoint first_bad (a : list gname) (gs : list gname) : option gname :=
  match gs with
  | [] => None
  | g :: r => if spec_permits a g then first_bad a r else Some g
  end.

Definition ml_result (a : list gname) (gs : list gname) : result :=
  match first_bad a gs with None => Returned | Some g => UnsafeML g end.

Lemma ml_resolve_spec a gs : ml_resolve a gs = (ml_result a gs, take_ok a gs).
Proof.
  unfold ml_result. induction gs as [|g r IH]; simpl; [reflexivity|].
  destruct (spec_permits a g) eqn:E; [|reflexivity].
  rewrite IH. reflexivity.
Qed.

Lemma take_ok_all a gs : Forall (fun g => spec_permits a g = true) (take_ok a gs).
Proof.
  induction gs as [|g r IH]; simpl; [constructor|].
  destruct (spec_permits a g) eqn:E; constructor; assumption.
Qed.

(* the resolved globals are the longest permitted prefix; the first refused one follows it *)
Lemma take_ok_prefix a gs :
  match first_bad a gs with
  | None => take_ok a gs = gs
  | Some g => spec_permits a g = false /\ exists rest, gs = take_ok a gs ++ g :: rest
  end.
Proof.
  induction gs as [|g r IH]; simpl; [reflexivity|].
  destruct (spec_permits a g) eqn:E.
  - destruct (first_bad a r) as [b|].
    + destruct IH as [Hb [rest Hr]]. split; [exact Hb|]. exists rest. simpl. congruence.
    + congruence.
  - split; [exact E|]. exists r. reflexivity.
Qed.

Lemma first_bad_not_resolved a gs g :
  first_bad a gs = Some g -> ~ In g (take_ok a gs).
Proof.
  intros H Hin. pose proof (take_ok_prefix a gs) as P. rewrite H in P. destruct P as [Hb _].
  pose proof (take_ok_all a gs) as F. rewrite Forall_forall in F. specialize (F g Hin). congruence.
Qed.

Lemma ml_resolve_no_recursion a gs : fst (ml_resolve a gs) <> RecursionErr.
Proof. rewrite ml_resolve_spec. unfold ml_result. simpl. destruct (first_bad a gs); discriminate. Qed.

(* ---------- invariants over all histories ---------- *)

Definition ml_binding (m : option (list gname)) : binding :=
  match m with Some a => ML a | None => Orig end.

(* pickle.loads, _pickle.load, _pickle.loads always equal the last activation / removal *)
Definition others_rel (s : hstate) (g : ghost) : Prop :=
  pls s = ml_binding (g_ml g) /\ cl s = ml_binding (g_ml g) /\ cls s = ml_binding (g_ml g).

Lemma others_step s g o : others_rel s g -> others_rel (hstep s o) (gstep g o).
Proof.
  unfold others_rel. intros (A & B & C).
  destruct o; simpl; auto; destruct (ctxs s); simpl; auto.
Qed.

Lemma others_run h : forall s g, others_rel s g -> others_rel (hrun s h) (grun g h).
Proof.
  induction h as [|o r IH]; intros s g H; simpl; [exact H|].
  apply IH. apply others_step. exact H.
Qed.

Lemma others_init : others_rel h_init g_init.
Proof. repeat split. Qed.

Lemma others_reachable h : others_rel (hrun h_init h) (grun g_init h).
Proof. apply others_run. exact others_init. Qed.

Lemma ml_binding_not_checked m : ml_binding m <> Checked.
Proof. destruct m; discriminate. Qed.

Lemma pls_never_checked h : pls (hrun h_init h) <> Checked.
Proof. destruct (others_reachable h) as (A & _). rewrite A. apply ml_binding_not_checked. Qed.

(* ---------- probes ---------- *)

Lemma probe_checked s e p :
  binding_of s e = Checked ->
  (flagged p = true -> probe s e p = (UnsafeAnalysis, [])) /\
  (fst (probe s e p) = Returned -> flagged p = false).
Proof.
  intros H. unfold probe. rewrite H. simpl.
  destruct (flagged p); split; intros H0; try reflexivity; try discriminate;
    try (simpl in H0; discriminate).
Qed.

Lemma probe_checked_over_ml s e p a :
  binding_of s e = Checked -> pls s = ML a -> flagged p = false ->
  probe s e p = ml_resolve a (globals p).
Proof. intros H H1 H2. unfold probe. rewrite H. simpl. rewrite H2, H1. reflexivity. Qed.

Lemma probe_checked_over_orig s e p :
  binding_of s e = Checked -> pls s = Orig -> flagged p = false ->
  probe s e p = (Returned, globals p).
Proof. intros H H1 H2. unfold probe. rewrite H. simpl. rewrite H2, H1. reflexivity. Qed.

Lemma probe_ml s e p a :
  binding_of s e = ML a ->
  probe s e p = (ml_result a (globals p), take_ok a (globals p)).
Proof. intros H. unfold probe. rewrite H. simpl. apply ml_resolve_spec. Qed.

Lemma probe_no_recursion s e p : pls s <> Checked -> fst (probe s e p) <> RecursionErr.
Proof.
  intros H. unfold probe. destruct (binding_of s e); simpl.
  - discriminate.
  - destruct (flagged p); simpl; [discriminate|].
    destruct (pls s) eqn:E; simpl; [discriminate|congruence|apply ml_resolve_no_recursion].
  - apply ml_resolve_no_recursion.
Qed.

Lemma probe_protected h e p :
  let s := hrun h_init h in
  fst (probe s e p) <> RecursionErr /\
  (binding_of s e = Checked ->
     (flagged p = true -> probe s e p = (UnsafeAnalysis, [])) /\
     (fst (probe s e p) = Returned -> flagged p = false) /\
     (forall a, pls s = ML a -> flagged p = false -> probe s e p = ml_resolve a (globals p))) /\
  (forall a, binding_of s e = ML a ->
     probe s e p = (ml_result a (globals p), take_ok a (globals p)) /\
     Forall (fun g => spec_permits a g = true) (snd (probe s e p)) /\
     (forall g, first_bad a (globals p) = Some g ->
        fst (probe s e p) = UnsafeML g /\ spec_permits a g = false /\ ~ In g (snd (probe s e p)))).
Proof.
  intros s. split; [apply probe_no_recursion; apply pls_never_checked|]. split.
  - intros H. destruct (probe_checked s e p H) as [A B]. split; [exact A|]. split; [exact B|].
    intros a Ha Hf. apply probe_checked_over_ml; assumption.
  - intros a H. pose proof (probe_ml s e p a H) as E. split; [exact E|]. rewrite E. simpl. split.
    + apply take_ok_all.
    + intros g Hg. unfold ml_result. rewrite Hg. split; [reflexivity|]. split.
      * pose proof (take_ok_prefix a (globals p)) as P. rewrite Hg in P. tauto.
      * apply first_bad_not_resolved. exact Hg.
Qed.

(* ---------- contexts ---------- *)

Lemma hrun_app h1 h2 : forall s, hrun s (h1 ++ h2) = hrun (hrun s h1) h2.
Proof. induction h1 as [|o r IH]; intros s; simpl; [reflexivity|apply IH]. Qed.

Lemma grun_app h1 h2 : forall g, grun g (h1 ++ h2) = grun (grun g h1) h2.
Proof. induction h1 as [|o r IH]; intros g; simpl; [reflexivity|apply IH]. Qed.

(* stack discipline: a segment that never leaves more than it entered keeps everything below *)
Definition is_leave (o : hop) : bool :=
  match o with HLeave | HLeaveExc => true | _ => false end.

Lemma leave_step_ctxs s lv t top0 base :
  is_leave lv = true -> ctxs s = (t :: top0) ++ base -> ctxs (hstep s lv) = top0 ++ base.
Proof. intros Hl H. destruct lv; try discriminate; simpl; rewrite H; reflexivity. Qed.

Lemma ctxs_discipline h : forall d d' s top base,
  depth_ok d h = Some d' -> ctxs s = top ++ base -> List.length top = d ->
  exists top', ctxs (hrun s h) = top' ++ base /\ List.length top' = d'.
Proof.
  induction h as [|o r IH]; intros d d' s top base Hd Hc Hl.
  - simpl in *. inversion Hd; subst. exists top. split; auto.
  - cbn [hrun]. destruct o; cbn [depth_ok] in Hd.
    + apply (IH d d' _ top base Hd); [exact Hc|exact Hl].
    + apply (IH d d' _ top base Hd); [exact Hc|exact Hl].
    + apply (IH d d' _ top base Hd); [exact Hc|exact Hl].
    + apply (IH (S d) d' _ (pl s :: top) base Hd); [simpl; rewrite Hc; reflexivity|simpl; lia].
    + destruct d as [|d0]; [discriminate|].
      destruct top as [|t top0]; [simpl in Hl; lia|].
      apply (IH d0 d' _ top0 base Hd); [apply (leave_step_ctxs s HLeave t); auto|simpl in Hl; lia].
    + destruct d as [|d0]; [discriminate|].
      destruct top as [|t top0]; [simpl in Hl; lia|].
      apply (IH d0 d' _ top0 base Hd); [apply (leave_step_ctxs s HLeaveExc t); auto|simpl in Hl; lia].
    + apply (IH d d' _ top base Hd); [exact Hc|exact Hl].
Qed.

Lemma balanced_keeps_stack h s : balanced h = true -> ctxs (hrun s h) = ctxs s.
Proof.
  unfold balanced. intros H. destruct (depth_ok 0 h) as [[|n]|] eqn:E; try discriminate.
  destruct (ctxs_discipline h 0 0 s [] (ctxs s) E eq_refl eq_refl) as (top' & Hc & Hl).
  destruct top'; [exact Hc|simpl in Hl; lia].
Qed.

Definition others (s : hstate) : binding * binding * binding := (pls s, cl s, cls s).

Lemma others_quiet_step s o : quiet [o] = true -> others (hstep s o) = others s.
Proof.
  unfold others. destruct o; simpl; intros H; try discriminate; try reflexivity;
    destruct (ctxs s); reflexivity.
Qed.

Lemma others_quiet h : forall s, quiet h = true -> others (hrun s h) = others s.
Proof.
  induction h as [|o r IH]; intros s H; simpl; [reflexivity|].
  assert (quiet [o] = true /\ quiet r = true) as [H1 H2].
  { destruct o; simpl in *; try discriminate; auto. }
  rewrite IH by exact H2. apply others_quiet_step. exact H1.
Qed.

(* leaving restores pickle.load and the context stack exactly; the other three bindings are not
   touched by the entry or by the exit; if nothing was activated / removed inside, the whole
   four-binding state is the one in force on entry *)
Lemma leave_restores s0 seg lv :
  balanced seg = true -> is_leave lv = true ->
  let s1 := hrun s0 (HEnter :: seg) in
  let s2 := hstep s1 lv in
  pl s2 = pl s0 /\ ctxs s2 = ctxs s0 /\
  others (hstep s0 HEnter) = others s0 /\ others s2 = others s1 /\
  (quiet seg = true -> others s2 = others s0).
Proof.
  intros Hb Hl s1 s2.
  assert (Hc : ctxs s1 = pl s0 :: ctxs s0).
  { unfold s1. simpl. rewrite balanced_keeps_stack by exact Hb. reflexivity. }
  assert (H2 : pl s2 = pl s0 /\ ctxs s2 = ctxs s0 /\ others s2 = others s1).
  { unfold s2. destruct lv; try discriminate; simpl; rewrite Hc; simpl; auto. }
  destruct H2 as (A & B & C). repeat split; auto.
  intros Hq. rewrite C. unfold s1. simpl. rewrite others_quiet by exact Hq. reflexivity.
Qed.

(* ---------- removal ---------- *)

Definition all_orig (s : hstate) : Prop :=
  pl s = Orig /\ pls s = Orig /\ cl s = Orig /\ cls s = Orig.

(* operations that switch nothing on *)
Definition inert (o : hop) : bool :=
  match o with HArm | HActivate _ | HEnter => false | _ => true end.

Lemma inert_keeps_orig h : forall s,
  all_orig s -> ctxs s = [] -> forallb inert h = true -> all_orig (hrun s h) /\ ctxs (hrun s h) = [].
Proof.
  induction h as [|o r IH]; intros s Ho Hc Hi; simpl; [auto|].
  simpl in Hi. apply andb_true_iff in Hi. destruct Hi as [Hi1 Hi2].
  apply IH; [| |exact Hi2]; destruct o; simpl in *; try discriminate; try rewrite Hc; auto;
    repeat split; reflexivity.
Qed.

Lemma remove_restores_all h rest :
  let s := hrun h_init (h ++ [HRemove]) in
  ctxs s = [] -> forallb inert rest = true ->
  all_orig s /\ all_orig (hrun s rest).
Proof.
  intros s Hc Hi.
  assert (Ho : all_orig s).
  { unfold s. rewrite hrun_app. simpl. repeat split. }
  split; [exact Ho|]. apply inert_keeps_orig; assumption.
Qed.

(* ---------- exit by exception ---------- *)

Lemma exception_exit_same h : forall s, hrun s (map norm_exc h) = hrun s h.
Proof.
  induction h as [|o r IH]; intros s; simpl; [reflexivity|].
  rewrite IH. destruct o; reflexivity.
Qed.

Lemma exception_step_same s : hstep s HLeaveExc = hstep s HLeave.
Proof. reflexivity. Qed.

(* ---------- "while any protection is in force": the switched-on mechanisms vs the bindings ---------- *)

Definition mech_on (g : ghost) : Prop := g_armed g = true \/ g_ml g <> None.

(* pickle.load followed by what the open contexts saved *)
Definition chain (s : hstate) : list binding := pl s :: ctxs s.

Definition disc_inv (s : hstate) (g : ghost) : Prop :=
  exists b, chain s = repeat Checked (g_depth g) ++ [b] /\ (mech_on g -> b <> Orig).

Lemma disc_inv_run h : forall s g,
  disc_inv s g -> disciplined (g_depth g) h = true -> disc_inv (hrun s h) (grun g h).
Proof.
  induction h as [|o r IH]; intros s g Hi Hd; simpl; [exact Hi|].
  destruct Hi as (b & Hc & Hp). unfold chain in Hc.
  destruct o; simpl in Hd.
  - (* arm *)
    apply andb_true_iff in Hd. destruct Hd as [H0 Hd]. apply Nat.eqb_eq in H0.
    apply IH; [|simpl; rewrite H0; rewrite H0 in Hd; exact Hd].
    rewrite H0 in Hc. simpl in Hc. inversion Hc; subst.
    exists Checked. unfold chain. simpl. rewrite H0, <- H2. simpl. split; [reflexivity|discriminate].
  - (* activate *)
    apply andb_true_iff in Hd. destruct Hd as [H0 Hd]. apply Nat.eqb_eq in H0.
    apply IH; [|simpl; rewrite H0; rewrite H0 in Hd; exact Hd].
    rewrite H0 in Hc. simpl in Hc. inversion Hc; subst.
    exists (ML adds). unfold chain. simpl. rewrite H0, <- H2. simpl. split; [reflexivity|discriminate].
  - (* remove *)
    apply andb_true_iff in Hd. destruct Hd as [H0 Hd]. apply Nat.eqb_eq in H0.
    apply IH; [|simpl; rewrite H0; rewrite H0 in Hd; exact Hd].
    rewrite H0 in Hc. simpl in Hc. inversion Hc; subst.
    exists Orig. unfold chain. simpl. rewrite H0, <- H2. simpl. split; [reflexivity|].
    unfold mech_on. simpl. intros [X|X]; [discriminate|congruence].
  - (* enter *)
    apply IH; [|simpl; exact Hd].
    exists b. unfold chain. simpl. rewrite Hc. split; [reflexivity|exact Hp].
  - (* leave *)
    destruct (g_depth g) as [|d0] eqn:Eg; [discriminate|].
    apply IH; [|simpl; rewrite Eg; exact Hd].
    simpl in Hc. inversion Hc as [[Hpl Hcx]].
    exists b. unfold chain. simpl. rewrite Eg. simpl.
    destruct (ctxs s) as [|sv rr] eqn:Ec.
    + destruct d0; simpl in Hcx; discriminate.
    + simpl. split; [rewrite Hpl in Hcx; exact Hcx|exact Hp].
  - (* leave by exception *)
    destruct (g_depth g) as [|d0] eqn:Eg; [discriminate|].
    apply IH; [|simpl; rewrite Eg; exact Hd].
    simpl in Hc. inversion Hc as [[Hpl Hcx]].
    exists b. unfold chain. simpl. rewrite Eg. simpl.
    destruct (ctxs s) as [|sv rr] eqn:Ec.
    + destruct d0; simpl in Hcx; discriminate.
    + simpl. split; [rewrite Hpl in Hcx; exact Hcx|exact Hp].
  - (* probe *)
    apply IH; [|simpl; exact Hd]. exists b. split; assumption.
Qed.

Lemma disc_inv_init : disc_inv h_init g_init.
Proof. exists Orig. split; [reflexivity|]. intros [X|X]; [discriminate|exfalso; apply X; reflexivity]. Qed.

(* for disciplined histories: a switched-on mechanism or an open context means pickle.load is
   not the original; and (all histories) the other three follow the ML environment exactly *)
Lemma armed_protected h :
  disciplined 0 h = true ->
  let s := hrun h_init h in
  let g := grun g_init h in
  (mech_on g \/ 0 < g_depth g -> pl s <> Orig) /\
  List.length (ctxs s) = g_depth g.
Proof.
  intros Hd s g.
  destruct (disc_inv_run h h_init g_init disc_inv_init Hd) as (b & Hc & Hp).
  fold s in Hc. fold g in Hc, Hp. unfold chain in Hc. split.
  - intros [Hm|Hz].
    + destruct (g_depth g) as [|d0]; simpl in Hc; injection Hc as Hb Hx; rewrite Hb.
      * apply Hp. exact Hm.
      * discriminate.
    + destruct (g_depth g) as [|d0]; [lia|]. simpl in Hc. injection Hc as Hb Hx. rewrite Hb.
      discriminate.
  - assert (L : List.length (pl s :: ctxs s) = List.length (repeat Checked (g_depth g) ++ [b]))
      by (rewrite Hc; reflexivity).
    simpl in L. rewrite app_length, repeat_length in L. simpl in L. lia.
Qed.

(* the same for the weaker discipline "nothing is switched ON inside a context" (removals may
   happen anywhere): a switched-on mechanism means that pickle.load AND everything the open
   contexts will restore are protections *)
Definition on_inv (s : hstate) (g : ghost) (d : nat) : Prop :=
  List.length (ctxs s) = d /\ (mech_on g -> Forall (fun b => b <> Orig) (chain s)).

Lemma on_inv_run h : forall s g d,
  on_inv s g d -> on_outside d h = true ->
  exists d', on_inv (hrun s h) (grun g h) d'.
Proof.
  induction h as [|o r IH]; intros s g d Hi Hd; cbn [hrun grun]; [exists d; exact Hi|].
  destruct Hi as (Hl & Hp). unfold chain in Hp.
  destruct o; cbn [on_outside] in Hd.
  - apply andb_true_iff in Hd. destruct Hd as [H0 Hd]. apply Nat.eqb_eq in H0. rewrite H0 in Hd, Hl.
    apply (IH _ _ 0); [|exact Hd]. destruct (ctxs s) eqn:Ec; [|discriminate].
    split; [simpl; rewrite Ec; reflexivity|]. intros _. unfold chain. simpl. rewrite Ec.
    constructor; [discriminate|constructor].
  - apply andb_true_iff in Hd. destruct Hd as [H0 Hd]. apply Nat.eqb_eq in H0. rewrite H0 in Hd, Hl.
    apply (IH _ _ 0); [|exact Hd]. destruct (ctxs s) eqn:Ec; [|discriminate].
    split; [simpl; rewrite Ec; reflexivity|]. intros _. unfold chain. simpl. rewrite Ec.
    constructor; [discriminate|constructor].
  - apply (IH _ _ d); [|exact Hd]. split; [simpl; exact Hl|].
    unfold mech_on. simpl. intros [X|X]; [discriminate|congruence].
  - apply (IH _ _ (S d)); [|exact Hd]. split; [simpl; rewrite Hl; reflexivity|].
    intros Hm. unfold chain. simpl. constructor; [discriminate|]. apply Hp. exact Hm.
  - destruct d as [|d0]; [discriminate|]. apply (IH _ _ d0); [|exact Hd].
    destruct (ctxs s) as [|sv rr] eqn:Ec; [discriminate|]. simpl in Hl.
    split; [simpl; rewrite Ec; simpl; lia|].
    intros Hm. unfold chain. simpl. rewrite Ec. simpl. specialize (Hp Hm).
    inversion Hp; subst. assumption.
  - destruct d as [|d0]; [discriminate|]. apply (IH _ _ d0); [|exact Hd].
    destruct (ctxs s) as [|sv rr] eqn:Ec; [discriminate|]. simpl in Hl.
    split; [simpl; rewrite Ec; simpl; lia|].
    intros Hm. unfold chain. simpl. rewrite Ec. simpl. specialize (Hp Hm).
    inversion Hp; subst. assumption.
  - apply (IH _ _ d); [|exact Hd]. split; [exact Hl|exact Hp].
Qed.

Lemma switched_on_protected h :
  on_outside 0 h = true ->
  let s := hrun h_init h in
  let g := grun g_init h in
  mech_on g -> pl s <> Orig /\ Forall (fun b => b <> Orig) (ctxs s).
Proof.
  intros Hd s g Hm.
  assert (I0 : on_inv h_init g_init 0).
  { split; [reflexivity|]. intros [X|X]; [discriminate|exfalso; apply X; reflexivity]. }
  destruct (on_inv_run h h_init g_init 0 I0 Hd) as (d' & _ & Hp).
  specialize (Hp Hm). unfold chain in Hp. inversion Hp; subst. split; assumption.
Qed.
