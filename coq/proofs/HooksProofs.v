(* Lemmas about the hook-lifecycle model (C12). *)
From Coq Require Import List String Bool Arith Lia.
From Verif Require Import Base Allowlist Hooks.
Import ListNotations.
Local Open Scope list_scope.
Local Open Scope nat_scope.

(* ---------- the allow-listing unpickler ---------- *)

Fixpoint take_ok (a : list gname) (gs : list gname) : list gname :=
  match gs with
  | [] => []
  | g :: r => if spec_permits a g then g :: take_ok a r else []
  end.

Fixpoint first_bad (a : list gname) (gs : list gname) : option gname :=
  match gs with
  | [] => None
  | g :: r => if spec_permits a g then first_bad a r else Some g
  end.

Definition ml_result (a : list gname) (gs : list gname) : result :=
  match first_bad a gs with None => Returned | Some g => UnsafeML g end.

Lemma ml_resolve_spec a gs : ml_resolve a gs = (ml_result a gs, take_ok a gs).
Proof.
  unfold ml_result. induction gs as [|g r IH]; simpl; [reflexivity|].
  destruct (spec_permits a g) eqn:E; [|reflexivity].
  rewrite IH. reflexivity.
Qed.

Lemma take_ok_all a gs : Forall (fun g => spec_permits a g = true) (take_ok a gs).
Proof.
  induction gs as [|g r IH]; simpl; [constructor|].
  destruct (spec_permits a g) eqn:E; constructor; assumption.
Qed.

(* the resolved globals are the longest permitted prefix; the first refused one follows it *)
Lemma take_ok_prefix a gs :
  match first_bad a gs with
  | None => take_ok a gs = gs
  | Some g => spec_permits a g = false /\ exists rest, gs = take_ok a gs ++ g :: rest
  end.
Proof.
  induction gs as [|g r IH]; simpl; [reflexivity|].
  destruct (spec_permits a g) eqn:E.
  - destruct (first_bad a r) as [b|].
    + destruct IH as [Hb [rest Hr]]. split; [exact Hb|]. exists rest. simpl. congruence.
    + congruence.
  - split; [exact E|]. exists r. reflexivity.
Qed.

Lemma first_bad_not_resolved a gs g :
  first_bad a gs = Some g -> ~ In g (take_ok a gs).
Proof.
  intros H Hin. pose proof (take_ok_prefix a gs) as P. rewrite H in P. destruct P as [Hb _].
  pose proof (take_ok_all a gs) as F. rewrite Forall_forall in F. specialize (F g Hin). congruence.
Qed.

Lemma ml_resolve_no_recursion a gs : fst (ml_resolve a gs) <> RecursionErr.
Proof. rewrite ml_resolve_spec. unfold ml_result. simpl. destruct (first_bad a gs); discriminate. Qed.

(* ---------- invariants over all histories ---------- *)

Definition ml_binding (m : option (list gname)) : binding :=
  match m with Some a => ML a | None => Orig end.

(* bindings (current, or saved by an open context) against the mechanisms switched on (now, or at
   that context's entry): the four entry points other than pickle.load are exactly the ML
   environment's state; pickle.load is the checked loader or follows the ML environment; and the
   global check keeps pickle.load away from the original *)
Definition cur_rel (v : saved) (p : gpair) : Prop :=
  s_pls v = ml_binding (snd p) /\ s_cl v = ml_binding (snd p) /\
  s_cls v = ml_binding (snd p) /\ s_pu v = ml_binding (snd p) /\
  (s_pl v = Checked \/ s_pl v = ml_binding (snd p)) /\
  (fst p = true -> s_pl v <> Orig).

Definition rel (s : hstate) (g : ghost) : Prop :=
  cur_rel (snapshot s) (gsnap g) /\ Forall2 cur_rel (ctxs s) (g_stack g).

Lemma rel_step s g o : rel s g -> rel (hstep s o) (gstep g o).
Proof.
  intros (Hc & Hs). pose proof Hc as Hc0. destruct Hc as (A & B & C & D & E & F).
  unfold snapshot, gsnap in A, B, C, D, E, F. cbn [s_pl s_pls s_cl s_cls s_pu fst snd] in A, B, C, D, E, F.
  destruct o; cbn [hstep gstep].
  - (* arm *) split; [|exact Hs]. unfold cur_rel, snapshot, gsnap; cbn.
    repeat split; auto. discriminate.
  - (* activate *) split; [|exact Hs]. unfold cur_rel, snapshot, gsnap; cbn.
    repeat split; auto. discriminate.
  - (* remove *) split; [|exact Hs]. unfold cur_rel, snapshot, gsnap; cbn.
    repeat split; auto. discriminate.
  - (* enter *) split; [|constructor; [exact Hc0|exact Hs]]. unfold cur_rel, snapshot, gsnap; cbn.
    repeat split; auto. discriminate.
  - (* leave *) inversion Hs as [He1 He2|v p r r' Hv Hr He1 He2].
    + split; [exact Hc0|]. rewrite <- He1, <- He2. constructor.
    + split; [|exact Hr]. destruct v, p. exact Hv.
  - (* leave by exception *) inversion Hs as [He1 He2|v p r r' Hv Hr He1 He2].
    + split; [exact Hc0|]. rewrite <- He1, <- He2. constructor.
    + split; [|exact Hr]. destruct v, p. exact Hv.
  - (* probe *) split; assumption.
  - (* make *) split; assumption.
Qed.

Lemma rel_run h : forall s g, rel s g -> rel (hrun s h) (grun g h).
Proof.
  induction h as [|o r IH]; intros s g H; simpl; [exact H|].
  apply IH. apply rel_step. exact H.
Qed.

Lemma rel_init : rel h_init g_init.
Proof.
  split; [|constructor]. unfold cur_rel; cbn. repeat split; auto. discriminate.
Qed.

Lemma rel_reachable h : rel (hrun h_init h) (grun g_init h).
Proof. apply rel_run. exact rel_init. Qed.

(* pickle.loads, _pickle.load, _pickle.loads, pickle.Unpickler always are the ML environment in force *)
Lemma others_reachable h :
  let s := hrun h_init h in
  let g := grun g_init h in
  pls s = ml_binding (g_ml g) /\ cl s = ml_binding (g_ml g) /\ cls s = ml_binding (g_ml g) /\
  pu s = ml_binding (g_ml g).
Proof.
  intros s g. destruct (rel_reachable h) as ((A & B & C & D & _) & _). repeat split; assumption.
Qed.

Lemma ml_binding_not_checked m : ml_binding m <> Checked.
Proof. destruct m; discriminate. Qed.

Lemma pls_never_checked h : pls (hrun h_init h) <> Checked.
Proof. destruct (others_reachable h) as (A & _). rewrite A. apply ml_binding_not_checked. Qed.

(* ---------- probes ---------- *)

Lemma probe_checked s e p :
  binding_of s e = Checked ->
  (flagged p = true -> probe s e p = (UnsafeAnalysis, [])) /\
  (fst (probe s e p) = Returned -> flagged p = false).
Proof.
  intros H. unfold probe. rewrite H. simpl.
  destruct (flagged p); split; intros H0; try reflexivity; try discriminate;
    try (simpl in H0; discriminate).
Qed.

Lemma probe_checked_over_ml s e p a :
  binding_of s e = Checked -> pls s = ML a -> flagged p = false ->
  probe s e p = ml_resolve a (globals p).
Proof. intros H H1 H2. unfold probe. rewrite H. simpl. rewrite H2, H1. reflexivity. Qed.

Lemma probe_checked_over_orig s e p :
  binding_of s e = Checked -> pls s = Orig -> flagged p = false ->
  probe s e p = (Returned, globals p).
Proof. intros H H1 H2. unfold probe. rewrite H. simpl. rewrite H2, H1. reflexivity. Qed.

Lemma probe_ml s e p a :
  binding_of s e = ML a ->
  probe s e p = (ml_result a (globals p), take_ok a (globals p)).
Proof. intros H. unfold probe. rewrite H. simpl. apply ml_resolve_spec. Qed.

Lemma probe_no_recursion s e p : pls s <> Checked -> fst (probe s e p) <> RecursionErr.
Proof.
  intros H. unfold probe. destruct (binding_of s e); simpl.
  - discriminate.
  - destruct (flagged p); simpl; [discriminate|].
    destruct (pls s) eqn:E; simpl; [discriminate|congruence|apply ml_resolve_no_recursion].
  - apply ml_resolve_no_recursion.
Qed.

Lemma probe_protected h e p :
  let s := hrun h_init h in
  fst (probe s e p) <> RecursionErr /\
  (binding_of s e = Checked ->
     (flagged p = true -> probe s e p = (UnsafeAnalysis, [])) /\
     (fst (probe s e p) = Returned -> flagged p = false) /\
     (forall a, pls s = ML a -> flagged p = false -> probe s e p = ml_resolve a (globals p))) /\
  (forall a, binding_of s e = ML a ->
     probe s e p = (ml_result a (globals p), take_ok a (globals p)) /\
     Forall (fun g => spec_permits a g = true) (snd (probe s e p)) /\
     (forall g, first_bad a (globals p) = Some g ->
        fst (probe s e p) = UnsafeML g /\ spec_permits a g = false /\ ~ In g (snd (probe s e p)))).
Proof.
  intros s. split; [apply probe_no_recursion; apply pls_never_checked|]. split.
  - intros H. destruct (probe_checked s e p H) as [A B]. split; [exact A|]. split; [exact B|].
    intros a Ha Hf. apply probe_checked_over_ml; assumption.
  - intros a H. pose proof (probe_ml s e p a H) as E. split; [exact E|]. rewrite E. simpl. split.
    + apply take_ok_all.
    + intros g Hg. unfold ml_result. rewrite Hg. split; [reflexivity|]. split.
      * pose proof (take_ok_prefix a (globals p)) as P. rewrite Hg in P. tauto.
      * apply first_bad_not_resolved. exact Hg.
Qed.

(* ---------- contexts ---------- *)

Lemma hrun_app h1 h2 : forall s, hrun s (h1 ++ h2) = hrun (hrun s h1) h2.
Proof. induction h1 as [|o r IH]; intros s; simpl; [reflexivity|apply IH]. Qed.

Lemma grun_app h1 h2 : forall g, grun g (h1 ++ h2) = grun (grun g h1) h2.
Proof. induction h1 as [|o r IH]; intros g; simpl; [reflexivity|apply IH]. Qed.

(* stack discipline: a segment that never leaves more than it entered keeps everything below *)
Definition is_leave (o : hop) : bool :=
  match o with HLeave | HLeaveExc => true | _ => false end.

Lemma leave_pops s lv v r :
  is_leave lv = true -> ctxs s = v :: r ->
  hstep s lv = mkH (s_pl v) (s_pls v) (s_cl v) (s_cls v) (s_pu v) r.
Proof. intros Hl H. destruct lv; try discriminate; simpl; rewrite H; reflexivity. Qed.

Lemma leave_step_ctxs s lv t top0 base :
  is_leave lv = true -> ctxs s = (t :: top0) ++ base -> ctxs (hstep s lv) = top0 ++ base.
Proof. intros Hl H. rewrite (leave_pops s lv t (top0 ++ base) Hl H). reflexivity. Qed.

Lemma ctxs_discipline h : forall d d' s top base,
  depth_ok d h = Some d' -> ctxs s = top ++ base -> List.length top = d ->
  exists top', ctxs (hrun s h) = top' ++ base /\ List.length top' = d'.
Proof.
  induction h as [|o r IH]; intros d d' s top base Hd Hc Hl.
  - simpl in *. inversion Hd; subst. exists top. split; auto.
  - cbn [hrun]. destruct o; cbn [depth_ok] in Hd.
    + apply (IH d d' _ top base Hd); [exact Hc|exact Hl].
    + apply (IH d d' _ top base Hd); [exact Hc|exact Hl].
    + apply (IH d d' _ top base Hd); [exact Hc|exact Hl].
    + apply (IH (S d) d' _ (snapshot s :: top) base Hd); [simpl; rewrite Hc; reflexivity|simpl; lia].
    + destruct d as [|d0]; [discriminate|].
      destruct top as [|t top0]; [simpl in Hl; lia|].
      apply (IH d0 d' _ top0 base Hd); [apply (leave_step_ctxs s HLeave t); auto|simpl in Hl; lia].
    + destruct d as [|d0]; [discriminate|].
      destruct top as [|t top0]; [simpl in Hl; lia|].
      apply (IH d0 d' _ top0 base Hd); [apply (leave_step_ctxs s HLeaveExc t); auto|simpl in Hl; lia].
    + apply (IH d d' _ top base Hd); [exact Hc|exact Hl].
    + apply (IH d d' _ top base Hd); [exact Hc|exact Hl].
Qed.

Lemma balanced_keeps_stack h s : balanced h = true -> ctxs (hrun s h) = ctxs s.
Proof.
  unfold balanced. intros H. destruct (depth_ok 0 h) as [[|n]|] eqn:E; try discriminate.
  destruct (ctxs_discipline h 0 0 s [] (ctxs s) E eq_refl eq_refl) as (top' & Hc & Hl).
  destruct top'; [exact Hc|simpl in Hl; lia].
Qed.

(* leaving (either way) after ANY well-bracketed body -- whatever it armed, activated, removed,
   entered and left -- gives back the complete state in force immediately before the matching
   enter: all five bindings and the stack of enclosing contexts *)
Lemma leave_restores s0 seg lv :
  balanced seg = true -> is_leave lv = true ->
  hstep (hrun s0 (HEnter :: seg)) lv = s0.
Proof.
  intros Hb Hl.
  assert (Hc : ctxs (hrun s0 (HEnter :: seg)) = snapshot s0 :: ctxs s0).
  { simpl. rewrite balanced_keeps_stack by exact Hb. reflexivity. }
  rewrite (leave_pops _ lv _ _ Hl Hc). destruct s0; reflexivity.
Qed.

Lemma leave_restores_bindings s0 seg lv :
  balanced seg = true -> is_leave lv = true ->
  let s2 := hstep (hrun s0 (HEnter :: seg)) lv in
  s2 = s0 /\ (forall e, binding_of s2 e = binding_of s0 e) /\ ctxs s2 = ctxs s0.
Proof.
  intros Hb Hl s2. assert (E : s2 = s0) by (apply leave_restores; assumption).
  rewrite E. repeat split; reflexivity.
Qed.

(* the same inside a history: a completed context leaves no trace at all *)
Lemma leave_restores_history pre seg lv rest :
  balanced seg = true -> is_leave lv = true ->
  hrun h_init (pre ++ HEnter :: seg ++ lv :: rest) = hrun h_init (pre ++ rest).
Proof.
  intros Hb Hl. rewrite (hrun_app pre), (hrun_app pre).
  change (HEnter :: seg ++ lv :: rest) with ((HEnter :: seg) ++ lv :: rest).
  rewrite hrun_app.
  change (hrun (hrun (hrun h_init pre) (HEnter :: seg)) (lv :: rest))
    with (hrun (hstep (hrun (hrun h_init pre) (HEnter :: seg)) lv) rest).
  rewrite (leave_restores (hrun h_init pre) seg lv Hb Hl). reflexivity.
Qed.

(* ---------- removal ---------- *)

Definition all_orig (s : hstate) : Prop :=
  pl s = Orig /\ pls s = Orig /\ cl s = Orig /\ cls s = Orig /\ pu s = Orig.

(* operations that switch nothing on *)
Definition inert (o : hop) : bool :=
  match o with HArm | HActivate _ | HEnter => false | _ => true end.

Lemma inert_keeps_orig h : forall s,
  all_orig s -> ctxs s = [] -> forallb inert h = true -> all_orig (hrun s h) /\ ctxs (hrun s h) = [].
Proof.
  induction h as [|o r IH]; intros s Ho Hc Hi; simpl; [auto|].
  simpl in Hi. apply andb_true_iff in Hi. destruct Hi as [Hi1 Hi2].
  apply IH; [| |exact Hi2]; destruct o; simpl in *; try discriminate; try rewrite Hc; auto;
    repeat split; reflexivity.
Qed.

Lemma remove_restores_all h rest :
  let s := hrun h_init (h ++ [HRemove]) in
  ctxs s = [] -> forallb inert rest = true ->
  all_orig s /\ all_orig (hrun s rest).
Proof.
  intros s Hc Hi.
  assert (Ho : all_orig s).
  { unfold s. rewrite hrun_app. simpl. repeat split. }
  split; [exact Ho|]. apply inert_keeps_orig; assumption.
Qed.

(* ---------- exit by exception ---------- *)

Lemma exception_exit_same h : forall s, hrun s (map norm_exc h) = hrun s h.
Proof.
  induction h as [|o r IH]; intros s; simpl; [reflexivity|].
  rewrite IH. destruct o; reflexivity.
Qed.

Lemma exception_step_same s : hstep s HLeaveExc = hstep s HLeave.
Proof. reflexivity. Qed.

(* ---------- "while any protection is in force": the switched-on mechanisms vs the bindings ---------- *)

Definition mech_on (g : ghost) : Prop := g_armed g = true \/ g_ml g <> None.

(* ALL histories: a mechanism in force means pickle.load is a protection (the checked loader, or
   the ML environment in force); the model's context stack is as deep as the ghost's *)
Lemma switched_on_protected h :
  let s := hrun h_init h in
  let g := grun g_init h in
  (pl s = Checked \/ pl s = ml_binding (g_ml g)) /\
  (mech_on g -> pl s <> Orig) /\
  List.length (ctxs s) = g_depth g.
Proof.
  intros s g. destruct (rel_reachable h) as ((_ & _ & _ & _ & E & F) & Hs).
  fold s in E, F, Hs. fold g in E, F, Hs. cbn in E, F.
  split; [exact E|]. split.
  - intros [Ha|Hm]; [apply F; exact Ha|].
    destruct E as [E|E]; rewrite E; [discriminate|].
    destruct (g_ml g); [discriminate|congruence].
  - unfold g_depth. clear -Hs. induction Hs; simpl; congruence.
Qed.

(* an open context: pickle.load followed by what the open contexts saved for it *)
Definition chain (s : hstate) : list binding := pl s :: map s_pl (ctxs s).

(* all but the last are protections *)
Fixpoint abl (l : list binding) : Prop :=
  match l with
  | [] => True
  | x :: r => match r with [] => True | _ :: _ => x <> Orig /\ abl r end
  end.

Lemma abl_tail x r : abl (x :: r) -> abl r.
Proof. destruct r; simpl; tauto. Qed.

Lemma abl_cons x r : x <> Orig -> abl r -> abl (x :: r).
Proof. destruct r; simpl; auto. Qed.

Definition ctx_inv (s : hstate) (d : nat) : Prop :=
  List.length (ctxs s) = d /\ abl (chain s).

Lemma ctx_inv_run h : forall s d,
  ctx_inv s d -> rm_outside d h = true -> exists d', ctx_inv (hrun s h) d'.
Proof.
  induction h as [|o r IH]; intros s d Hi Hd; cbn [hrun]; [exists d; exact Hi|].
  destruct Hi as (Hl & Hp). unfold chain in Hp.
  destruct o; cbn [rm_outside] in Hd.
  - apply (IH _ d); [|exact Hd]. split; [exact Hl|].
    unfold chain; cbn. apply abl_cons; [discriminate|exact (abl_tail _ _ Hp)].
  - apply (IH _ d); [|exact Hd]. split; [exact Hl|].
    unfold chain; cbn. apply abl_cons; [discriminate|exact (abl_tail _ _ Hp)].
  - apply andb_true_iff in Hd. destruct Hd as [H0 Hd]. apply Nat.eqb_eq in H0. rewrite H0 in Hd, Hl.
    apply (IH _ 0); [|exact Hd]. destruct (ctxs s) eqn:Ec; [|discriminate].
    split; [cbn; rewrite Ec; reflexivity|]. unfold chain; cbn. rewrite Ec. exact I.
  - apply (IH _ (S d)); [|exact Hd]. split; [cbn; rewrite Hl; reflexivity|].
    unfold chain; cbn. split; [discriminate|exact Hp].
  - destruct d as [|d0]; [discriminate|]. apply (IH _ d0); [|exact Hd].
    destruct (ctxs s) as [|v rr] eqn:Ec; [discriminate|]. simpl in Hl.
    split; [cbn; rewrite Ec; cbn; lia|].
    unfold chain; cbn. rewrite Ec. cbn. exact (abl_tail _ _ Hp).
  - destruct d as [|d0]; [discriminate|]. apply (IH _ d0); [|exact Hd].
    destruct (ctxs s) as [|v rr] eqn:Ec; [discriminate|]. simpl in Hl.
    split; [cbn; rewrite Ec; cbn; lia|].
    unfold chain; cbn. rewrite Ec. cbn. exact (abl_tail _ _ Hp).
  - apply (IH _ d); [|exact Hd]. split; [exact Hl|exact Hp].
  - apply (IH _ d); [|exact Hd]. split; [exact Hl|exact Hp].
Qed.

(* histories that remove hooks only while no context is open: an open context means pickle.load is
   a protection, and so is everything the enclosing contexts but the outermost will restore *)
Lemma armed_protected h :
  rm_outside 0 h = true ->
  let s := hrun h_init h in
  let g := grun g_init h in
  (mech_on g \/ 0 < g_depth g -> pl s <> Orig) /\
  List.length (ctxs s) = g_depth g.
Proof.
  intros Hd s g. destruct (switched_on_protected h) as (_ & Hm & Hl). fold s in Hm, Hl. fold g in Hm, Hl.
  split; [|exact Hl]. intros [H|H]; [apply Hm; exact H|].
  assert (I0 : ctx_inv h_init 0) by (split; [reflexivity|exact I]).
  destruct (ctx_inv_run h h_init 0 I0 Hd) as (d' & _ & Hp). fold s in Hp.
  rewrite <- Hl in H. unfold chain in Hp. destruct (ctxs s) as [|v rr]; [simpl in H; lia|].
  cbn in Hp. tauto.
Qed.
