(* Lemmas about the Codec model (C06): the token loop, the literal back-fill algorithm of
   Pickled.load in closed form, byte-exact dumps, prefix determinism / position shift, and the
   partition of a stacked input.  All inductions are over lists of arbitrary length. *)
From Coq Require Import List String Ascii ZArith NArith Bool Arith Lia.
From Coq.Strings Require Import Byte.
From Verif Require Import Base OpTable Codec.
Import ListNotations.
Local Open Scope nat_scope.
Local Open Scope list_scope.

(* ------------------------------------------------------------------------------------------ *)
(* lists                                                                                      *)
(* ------------------------------------------------------------------------------------------ *)
Lemma skipn_skipn' : forall {A} (n m : nat) (l : list A), skipn n (skipn m l) = skipn (n + m) l.
Proof.
  intros A n m; revert n. induction m as [|m IH]; intros n l.
  - rewrite Nat.add_0_r. reflexivity.
  - destruct l as [|x l].
    + rewrite !skipn_nil. reflexivity.
    + replace (n + S m) with (S (n + m)) by lia. simpl. apply IH.
Qed.

Lemma firstn_cat_skipn : forall {A} (n m : nat) (l : list A),
  (firstn n l ++ firstn m (skipn n l))%list = firstn (n + m) l.
Proof.
  intros A n; induction n as [|n IH]; intros m l.
  - reflexivity.
  - destruct l as [|x l].
    + simpl. rewrite firstn_nil. reflexivity.
    + simpl. f_equal. apply IH.
Qed.

(* consecutive reads concatenate -- no side condition *)
Lemma read_at_cat : forall buf p n m,
  (read_at buf p n ++ read_at buf (n + p) m)%list = read_at buf p (n + m).
Proof.
  intros. unfold read_at. rewrite <- (skipn_skipn' n p buf). apply firstn_cat_skipn.
Qed.

Lemma read_at_length : forall buf p n, p + n <= List.length buf -> List.length (read_at buf p n) = n.
Proof.
  intros. unfold read_at. rewrite firstn_length, skipn_length. lia.
Qed.

(* a read inside [b] is the same inside [pre ++ b ++ rest], shifted by [length pre] *)
Lemma read_at_shift : forall pre b rest p n, p + n <= List.length b ->
  read_at (pre ++ b ++ rest) (List.length pre + p) n = read_at b p n.
Proof.
  intros pre b rest p n H. unfold read_at.
  rewrite skipn_app. rewrite skipn_all2 by lia. simpl.
  replace (List.length pre + p - List.length pre) with p by lia.
  rewrite skipn_app. rewrite firstn_app.
  rewrite skipn_length.
  replace (n - (List.length b - p)) with 0 by lia. simpl. rewrite app_nil_r. reflexivity.
Qed.

Lemma skipn_shift : forall (pre b rest : list byte) p, p <= List.length b ->
  skipn (List.length pre + p) (pre ++ b ++ rest) = (skipn p b ++ rest)%list.
Proof.
  intros. rewrite skipn_app. rewrite skipn_all2 by lia. simpl.
  replace (List.length pre + p - List.length pre) with p by lia.
  rewrite skipn_app. replace (p - List.length b) with 0 by lia. reflexivity.
Qed.

(* ------------------------------------------------------------------------------------------ *)
(* the regenerated table: the facts the theorems rest on, re-checked by computation            *)
(* ------------------------------------------------------------------------------------------ *)
Definition row_ok (r : oprow) : bool :=
  (* the reader is one the model knows *)
  (match reader_kind (row_reader r) with Some _ => true | None => false end)
  (* the opcode genops stops at is STOP and takes no argument *)
  && (if N.eqb (row_code r) stop_code
      then String.eqb (row_reader r) "none" && String.eqb (row_name r) "STOP" else true)
  (* a positive arg.n (what fickling reads at once) is exactly what the reader consumes *)
  && (if Z.ltb 0 (row_n r)
      then match reader_kind (row_reader r) with
           | Some (RFixed n) => Nat.eqb n (Z.to_nat (row_n r))
           | _ => false
           end
      else true)
  (* the code is one byte *)
  && N.ltb (row_code r) 256.

Lemma table_ok : forallb row_ok op_table = true.
Proof. vm_compute. reflexivity. Qed.

Lemma find_code_spec : forall c t r, find_code c t = Some r -> In r t /\ row_code r = c.
Proof.
  induction t as [|x t IH]; simpl; intros r H; [discriminate|].
  destruct (N.eqb (row_code x) c) eqn:E.
  - inversion H; subst. apply N.eqb_eq in E. auto.
  - destruct (IH r H). auto.
Qed.

Lemma lookup_spec : forall c r, lookup c = Some r ->
  row_ok r = true /\ row_code r = Byte.to_N c.
Proof.
  unfold lookup. intros c r H. apply find_code_spec in H. destruct H as [Hin Hc]. split; [|exact Hc].
  pose proof table_ok as T. rewrite forallb_forall in T. apply T. exact Hin.
Qed.

Lemma row_ok_reader : forall r, row_ok r = true -> exists k, reader_kind (row_reader r) = Some k.
Proof.
  unfold row_ok. intros r H. repeat (apply andb_prop in H; destruct H as [H ?]).
  destruct (reader_kind (row_reader r)); [eauto|discriminate].
Qed.

Lemma row_ok_stop : forall r, row_ok r = true -> row_code r = stop_code ->
  row_reader r = "none"%string /\ row_name r = "STOP"%string.
Proof.
  unfold row_ok. intros r H E. repeat (apply andb_prop in H; destruct H as [H ?]).
  rewrite E, N.eqb_refl in H2. apply andb_prop in H2. destruct H2 as [A B].
  apply String.eqb_eq in A. apply String.eqb_eq in B. auto.
Qed.

Lemma row_ok_fixed : forall r, row_ok r = true -> (0 < row_n r)%Z ->
  reader_kind (row_reader r) = Some (RFixed (Z.to_nat (row_n r))).
Proof.
  unfold row_ok. intros r H P. repeat (apply andb_prop in H; destruct H as [H ?]).
  apply Z.ltb_lt in P. rewrite P in H1.
  destruct (reader_kind (row_reader r)) as [[| n | | | ]|]; try discriminate.
  apply Nat.eqb_eq in H1. subst. reflexivity.
Qed.

Lemma reader_none : reader_kind "none" = Some RNone.
Proof. reflexivity. Qed.

Lemma code_byte_lookup : forall c r, lookup c = Some r -> code_byte r = c.
Proof.
  intros c r H. apply lookup_spec in H. destruct H as [_ H]. unfold code_byte. rewrite H.
  rewrite Byte.of_to_N. reflexivity.
Qed.

(* ------------------------------------------------------------------------------------------ *)
(* one token                                                                                  *)
(* ------------------------------------------------------------------------------------------ *)
Lemma line_len_bound : forall l n, line_len l = Some n -> 1 <= n <= List.length l.
Proof.
  induction l as [|b l IH]; simpl; intros n H; [discriminate|].
  destruct (Byte.eqb b x0a).
  - inversion H; subst. lia.
  - destruct (line_len l) as [m|]; [|discriminate]. inversion H; subst.
    specialize (IH m eq_refl). lia.
Qed.

Lemma line_len_app : forall l x n, line_len l = Some n -> line_len (l ++ x) = Some n.
Proof.
  induction l as [|b l IH]; simpl; intros x n H; [discriminate|].
  destruct (Byte.eqb b x0a); [exact H|].
  destruct (line_len l) as [m|]; [|discriminate]. rewrite (IH x m eq_refl). exact H.
Qed.

Ltac brk H :=
  repeat match type of H with
         | context [match ?c with _ => _ end] =>
             let E := fresh "E" in destruct c eqn:E; try discriminate H
         end.
Ltac red_arg_len H := cbv beta iota zeta delta [arg_len] in H.

Lemma arg_len_bound : forall k args n, arg_len k args = Ok n -> n <= List.length args.
Proof.
  intros k args n H. destruct k as [| f | | | w sg]; red_arg_len H.
  - inversion H. lia.
  - brk H. inversion H; subst. apply Nat.eqb_eq in E. rewrite firstn_length in E. lia.
  - brk H. inversion H; subst. apply line_len_bound in E. lia.
  - brk H. inversion H; subst.
    apply line_len_bound in E. apply line_len_bound in E0. rewrite skipn_length in E0. lia.
  - brk H. inversion H; subst. apply negb_false_iff in E. apply Nat.eqb_eq in E. rewrite firstn_length in E.
    apply N.ltb_ge in E2. rewrite skipn_length in E2. lia.
Qed.

Lemma firstn_app_le : forall {A} n (l x : list A), n <= List.length l -> firstn n (l ++ x) = firstn n l.
Proof.
  intros. rewrite firstn_app. replace (n - List.length l) with 0 by lia. simpl. apply app_nil_r.
Qed.

Lemma skipn_app_le : forall {A} n (l x : list A), n <= List.length l ->
  skipn n (l ++ x) = (skipn n l ++ x)%list.
Proof.
  intros. rewrite skipn_app. replace (n - List.length l) with 0 by lia. reflexivity.
Qed.

(* the reader looks at no byte beyond the ones it consumes *)
Lemma arg_len_app : forall k args x n, arg_len k args = Ok n -> arg_len k (args ++ x) = Ok n.
Proof.
  intros k args x n H. destruct k as [| f | | | w sg]; red_arg_len H; cbv beta iota zeta delta [arg_len].
  - exact H.
  - brk H. apply Nat.eqb_eq in E. assert (f <= List.length args) by (rewrite firstn_length in E; lia).
    rewrite firstn_app_le by lia. rewrite E, Nat.eqb_refl. exact H.
  - brk H. rewrite (line_len_app _ x _ E). exact H.
  - brk H. rewrite (line_len_app _ x _ E).
    pose proof (line_len_bound _ _ E).
    rewrite skipn_app_le by lia. rewrite (line_len_app _ x _ E0). exact H.
  - brk H. pose proof E as E'. apply negb_false_iff in E'. apply Nat.eqb_eq in E'.
    assert (w <= List.length args) by (rewrite firstn_length in E'; lia).
    rewrite firstn_app_le by lia. rewrite E, E0, E1.
    apply N.ltb_ge in E2.
    assert (N.ltb (N.of_nat (List.length (skipn w (args ++ x)))) (le_N (firstn w args)) = false) as ->.
    { apply N.ltb_ge. rewrite skipn_app_le by lia. rewrite app_length. lia. }
    exact H.
Qed.

Lemma next_token_inv : forall rest row len, next_token rest = Ok (row, len) ->
  exists c args k n, rest = c :: args /\ lookup c = Some row /\
    reader_kind (row_reader row) = Some k /\ arg_len k args = Ok n /\ len = S n.
Proof.
  intros rest row len H. unfold next_token in H. destruct rest as [|c args]; [discriminate|].
  destruct (lookup c) as [r|] eqn:L; [|discriminate].
  destruct (reader_kind (row_reader r)) as [k|] eqn:K; [|discriminate].
  destruct (arg_len k args) as [n|e] eqn:A; [|discriminate].
  inversion H; subst. exists c, args, k, n. auto.
Qed.

Lemma next_token_bound : forall rest row len, next_token rest = Ok (row, len) ->
  1 <= len <= List.length rest.
Proof.
  intros rest row len H. apply next_token_inv in H.
  destruct H as (c & args & k & n & -> & _ & _ & A & ->). apply arg_len_bound in A. simpl. lia.
Qed.

Lemma next_token_app : forall rest x row len, next_token rest = Ok (row, len) ->
  next_token (rest ++ x) = Ok (row, len).
Proof.
  intros rest x row len H. apply next_token_inv in H.
  destruct H as (c & args & k & n & -> & L & K & A & ->). simpl. rewrite L, K.
  rewrite (arg_len_app _ _ x _ A). reflexivity.
Qed.

(* ------------------------------------------------------------------------------------------ *)
(* the token loop                                                                             *)
(* ------------------------------------------------------------------------------------------ *)
(* tokens delivered from position [pos] of [buf] are contiguous and each is what next_token reads *)
Inductive chain (buf : list byte) : nat -> list token -> Prop :=
| chain_nil : forall pos, chain buf pos []
| chain_cons : forall pos row len ts,
    next_token (skipn pos buf) = Ok (row, len) ->
    chain buf (len + pos) ts ->
    chain buf pos (mkTok row pos len :: ts).

Definition is_stop (t : token) : bool := N.eqb (row_code (t_row t)) stop_code.

Fixpoint sum_len (ts : list token) : nat :=
  match ts with [] => 0 | t :: r => t_len t + sum_len r end.

Lemma genops_chain : forall fuel buf pos ts st,
  genops fuel (skipn pos buf) pos = (ts, st) -> chain buf pos ts.
Proof.
  induction fuel as [|f IH]; simpl; intros buf pos ts st H.
  - inversion H. constructor.
  - destruct (next_token (skipn pos buf)) as [[row len]|e] eqn:N.
    + destruct (N.eqb (row_code row) stop_code).
      * inversion H; subst. constructor; [exact N|constructor].
      * rewrite skipn_skipn' in H.
        destruct (genops f (skipn (len + pos) buf) (len + pos)) as [ts' st'] eqn:G.
        inversion H; subst. constructor; [exact N|]. eapply IH. exact G.
    + inversion H. constructor.
Qed.

(* genops ends with TDone exactly when the last delivered token is STOP (and no earlier one is) *)
Lemma genops_done : forall fuel rest pos ts,
  genops fuel rest pos = (ts, TDone) ->
  exists ts' tl, ts = (ts' ++ [tl])%list /\ is_stop tl = true /\ forallb (fun t => negb (is_stop t)) ts' = true.
Proof.
  induction fuel as [|f IH]; simpl; intros rest pos ts H; [discriminate|].
  destruct (next_token rest) as [[row len]|e]; [|discriminate].
  destruct (N.eqb (row_code row) stop_code) eqn:S.
  - inversion H; subst. exists [], (mkTok row pos len). split; [reflexivity|]. split; [exact S|reflexivity].
  - destruct (genops f (skipn len rest) (len + pos)) as [ts' st'] eqn:G.
    inversion H; subst. destruct (IH _ _ _ G) as (a & tl & -> & B & C).
    exists (mkTok row pos len :: a), tl. split; [reflexivity|]. split; [exact B|].
    cbn [forallb]. unfold is_stop at 1. cbn [t_row]. rewrite S. exact C.
Qed.

Lemma genops_not_done : forall fuel rest pos ts e,
  genops fuel rest pos = (ts, TErr e) -> forallb (fun t => negb (is_stop t)) ts = true.
Proof.
  induction fuel as [|f IH]; simpl; intros rest pos ts e H.
  - inversion H. reflexivity.
  - destruct (next_token rest) as [[row len]|e']; [|inversion H; reflexivity].
    destruct (N.eqb (row_code row) stop_code) eqn:S; [discriminate|].
    destruct (genops f (skipn len rest) (len + pos)) as [ts' st'] eqn:G.
    inversion H; subst. cbn [forallb]. unfold is_stop at 1. cbn [t_row]. rewrite S. eapply IH. exact G.
Qed.

(* the fuel of [genops_at] is never exhausted *)
Lemma genops_no_fuel_gen : forall fuel rest pos ts st,
  List.length rest < fuel -> genops fuel rest pos = (ts, st) -> st <> TErr EFuel.
Proof.
  induction fuel as [|f IH]; simpl; intros rest pos ts st L H; [lia|].
  destruct (next_token rest) as [[row len]|e] eqn:N.
  - destruct (N.eqb (row_code row) stop_code).
    + inversion H. discriminate.
    + destruct (genops f (skipn len rest) (len + pos)) as [ts' st'] eqn:G.
      inversion H; subst. eapply IH; [|exact G].
      apply next_token_bound in N. rewrite skipn_length. lia.
  - inversion H; subst. unfold next_token in N.
    destruct rest as [|c args]; [inversion N; discriminate|].
    destruct (lookup c); [|inversion N; discriminate].
    destruct (reader_kind (row_reader o)) as [k|]; [|inversion N; discriminate].
    destruct (arg_len k args) as [n|e'] eqn:A; [discriminate|].
    inversion N; subst. intro X. inversion X; subst.
    destruct k as [| f' | | | w sg]; red_arg_len A; brk A; discriminate A.
Qed.

Lemma genops_no_fuel : forall buf start ts st, genops_at buf start = (ts, st) -> st <> TErr EFuel.
Proof.
  unfold genops_at. intros. eapply genops_no_fuel_gen; [|exact H]. lia.
Qed.

(* more fuel and more trailing data do not change a completed token loop *)
Lemma genops_app : forall fuel rest pos ts, genops fuel rest pos = (ts, TDone) ->
  forall fuel' x, fuel <= fuel' -> genops fuel' (rest ++ x) pos = (ts, TDone).
Proof.
  induction fuel as [|f IH]; simpl; intros rest pos ts H fuel' x L; [discriminate|].
  destruct fuel' as [|f']; [lia|]. simpl.
  destruct (next_token rest) as [[row len]|e] eqn:N; [|discriminate].
  rewrite (next_token_app _ x _ _ N).
  destruct (N.eqb (row_code row) stop_code); [exact H|].
  destruct (genops f (skipn len rest) (len + pos)) as [ts' st'] eqn:G.
  inversion H; subst.
  pose proof (next_token_bound _ _ _ N).
  rewrite skipn_app_le by lia. rewrite (IH _ _ _ G f' x) by lia. reflexivity.
Qed.

Definition shift_tok (k : nat) (t : token) : token := mkTok (t_row t) (k + t_pos t) (t_len t).

Lemma genops_shift : forall fuel rest pos k ts st, genops fuel rest pos = (ts, st) ->
  genops fuel rest (k + pos) = (map (shift_tok k) ts, st).
Proof.
  induction fuel as [|f IH]; simpl; intros rest pos k ts st H.
  - inversion H. reflexivity.
  - destruct (next_token rest) as [[row len]|e]; [|inversion H; reflexivity].
    destruct (N.eqb (row_code row) stop_code); [inversion H; reflexivity|].
    destruct (genops f (skipn len rest) (len + pos)) as [ts' st'] eqn:G.
    inversion H; subst. replace (len + (k + pos)) with (k + (len + pos)) by lia.
    rewrite (IH _ _ k _ _ G). reflexivity.
Qed.

(* facts about a chain *)
Definition tok_ok (buf : list byte) (t : token) : Prop :=
  next_token (skipn (t_pos t) buf) = Ok (t_row t, t_len t).

Lemma tok_ok_bounds : forall buf t, tok_ok buf t -> 1 <= t_len t /\ t_pos t + t_len t <= List.length buf.
Proof.
  unfold tok_ok. intros buf t H. apply next_token_bound in H. rewrite skipn_length in H. lia.
Qed.

Lemma chain_app_inv : forall buf ts1 ts2 pos, chain buf pos (ts1 ++ ts2) ->
  chain buf pos ts1 /\ chain buf (sum_len ts1 + pos) ts2.
Proof.
  induction ts1 as [|t ts1 IH]; simpl; intros ts2 pos H.
  - split; [constructor|exact H].
  - inversion H; subst. destruct (IH _ _ H4) as [A B]. split.
    + constructor; assumption.
    + simpl. replace (len + sum_len ts1 + pos) with (sum_len ts1 + (len + pos)) by lia. exact B.
Qed.

Lemma chain_forall : forall buf pos ts, chain buf pos ts -> Forall (tok_ok buf) ts.
Proof.
  induction 1; constructor; [exact H|assumption].
Qed.

Lemma chain_head : forall buf pos t ts, chain buf pos (t :: ts) ->
  t_pos t = pos /\ tok_ok buf t /\ chain buf (t_len t + pos) ts.
Proof.
  intros. inversion H; subst. simpl. unfold tok_ok. simpl. auto.
Qed.

Lemma chain_end_bound : forall buf pos ts, chain buf pos ts -> ts <> [] ->
  sum_len ts + pos <= List.length buf.
Proof.
  induction 1; intros NE; [congruence|]. simpl.
  pose proof (next_token_bound _ _ _ H) as B. rewrite skipn_length in B.
  destruct ts as [|t' ts'].
  - simpl. lia.
  - assert (t' :: ts' <> []) by congruence. specialize (IHchain H1). simpl in *. lia.
Qed.

Lemma sum_len_app : forall a b, sum_len (a ++ b) = sum_len a + sum_len b.
Proof. induction a as [|t a IH]; simpl; intros; [reflexivity|]. rewrite IH. lia. Qed.

Lemma sum_len_app_one : forall a t, sum_len (a ++ [t]) = sum_len a + t_len t.
Proof. intros. rewrite sum_len_app. simpl. lia. Qed.

(* ------------------------------------------------------------------------------------------ *)
(* Pickled.load in closed form                                                                *)
(* ------------------------------------------------------------------------------------------ *)
(* an opcode holding exactly the bytes of its token *)
Definition fill (buf : list byte) (t : token) : opc :=
  mkOpc (t_row t) (t_pos t) (Some (read_at buf (t_pos t) (t_len t))).

(* the data an opcode is constructed with *)
Definition imm (buf : list byte) (t : token) : option (list byte) :=
  if argless (t_row t) then None
  else if Z.ltb 0 (row_n (t_row t))
       then Some (read_at buf (t_pos t) (1 + Z.to_nat (row_n (t_row t))))
       else None.

Definition fresh (buf : list byte) (t : token) : opc := mkOpc (t_row t) (t_pos t) (imm buf t).

(* the opcode list (newest first) after the tokens [done] (newest first) have been processed:
   every opcode but the newest holds exactly its token's bytes *)
Definition acc_of (buf : list byte) (done : list token) : list opc :=
  match done with
  | [] => []
  | t :: r => fresh buf t :: map (fill buf) r
  end.

Definition classless (t : token) : bool := negb (row_has_class (t_row t)).

Lemma tok_ok_row : forall buf t, tok_ok buf t ->
  exists c args, skipn (t_pos t) buf = c :: args /\ lookup c = Some (t_row t) /\ row_ok (t_row t) = true.
Proof.
  unfold tok_ok. intros buf t H. apply next_token_inv in H.
  destruct H as (c & args & k & n & E & L & _). exists c, args. split; [exact E|]. split; [exact L|].
  apply lookup_spec in L. tauto.
Qed.

(* a positive arg.n: the token is exactly code byte + n bytes *)
Lemma fixed_len : forall buf t, tok_ok buf t -> (0 < row_n (t_row t))%Z ->
  t_len t = 1 + Z.to_nat (row_n (t_row t)).
Proof.
  unfold tok_ok. intros buf t H P. apply next_token_inv in H.
  destruct H as (c & args & k & n & E & L & K & A & ->).
  apply lookup_spec in L. destruct L as [R _]. rewrite (row_ok_fixed _ R P) in K. inversion K; subst.
  red_arg_len A. brk A. inversion A. reflexivity.
Qed.

Lemma imm_spec : forall buf t, tok_ok buf t ->
  immediate_data buf t = Ok (imm buf t) /\
  (forall d, imm buf t = Some d -> d = read_at buf (t_pos t) (t_len t)).
Proof.
  intros buf t H. unfold immediate_data, imm. destruct (argless (t_row t)); [split; [reflexivity|discriminate]|].
  destruct (Z.ltb 0 (row_n (t_row t))) eqn:P; [|split; [reflexivity|discriminate]].
  apply Z.ltb_lt in P. pose proof (fixed_len _ _ H P) as FL. pose proof (tok_ok_bounds _ _ H) as [_ B].
  rewrite <- FL. split.
  - rewrite read_at_length by exact B. rewrite Nat.eqb_refl. reflexivity.
  - intros d E. inversion E. reflexivity.
Qed.

Lemma backfill_spec : forall buf t0 older pos, tok_ok buf t0 -> t_len t0 + t_pos t0 = pos ->
  backfill buf (fresh buf t0 :: older) pos = fill buf t0 :: older.
Proof.
  intros buf t0 older pos H E. unfold backfill. cbn [o_data fresh o_pos o_row].
  destruct (imm buf t0) as [d|] eqn:I.
  - pose proof (proj2 (imm_spec _ _ H) _ I) as D. subst d. unfold fresh, fill. rewrite I. reflexivity.
  - pose proof (tok_ok_bounds _ _ H) as [L _].
    assert (Nat.ltb (t_pos t0) pos = true) as -> by (apply Nat.ltb_lt; lia).
    replace (pos - t_pos t0) with (t_len t0) by lia. reflexivity.
Qed.

(* THE invariant of the token loop of Pickled.load, as an equation *)
Lemma load_loop_closed : forall buf ts pos done st,
  chain buf pos ts ->
  (done = [] \/ exists t0 r, done = t0 :: r /\ tok_ok buf t0 /\ t_len t0 + t_pos t0 = pos) ->
  load_loop buf ts st (acc_of buf done) =
    if existsb classless ts then LErr LNotImpl
    else match st with
         | TDone => LOk (acc_of buf (rev ts ++ done))
         | TErr EValue => LErr (value_error (acc_of buf (rev ts ++ done)))
         | TErr e => LErr (LOther e)
         end.
Proof.
  intros buf ts. induction ts as [|t more IH]; intros pos done st C D.
  - simpl. destruct st as [|e]; [reflexivity|]. destruct e; reflexivity.
  - apply chain_head in C. destruct C as (P & OK & C).
    cbn [load_loop].
    assert (backfill buf (acc_of buf done) (t_pos t) = map (fill buf) done) as ->.
    { destruct D as [->|(t0 & r & -> & OK0 & E0)]; [reflexivity|].
      cbn [acc_of map]. apply backfill_spec; [exact OK0|lia]. }
    rewrite (proj1 (imm_spec _ _ OK)).
    cbn [existsb]. unfold classless at 1.
    destruct (row_has_class (t_row t)); [|reflexivity]. cbn [negb orb].
    change (mkOpc (t_row t) (t_pos t) (imm buf t) :: map (fill buf) done) with (acc_of buf (t :: done)).
    rewrite (IH (t_len t + pos) (t :: done) st C).
    + cbn [rev]. rewrite <- app_assoc. reflexivity.
    + right. exists t, done. split; [reflexivity|]. split; [exact OK|lia].
Qed.

Lemma rev_acc_snoc : forall buf ts' tl,
  rev (acc_of buf (rev (ts' ++ [tl]) ++ [])) = map (fill buf) ts' ++ [fresh buf tl].
Proof.
  intros. rewrite app_nil_r, rev_app_distr. cbn [rev app acc_of].
  rewrite map_rev, rev_involutive. reflexivity.
Qed.

Lemma stop_imm_none : forall buf tl, tok_ok buf tl -> is_stop tl = true ->
  argless (t_row tl) = true /\ imm buf tl = None /\ t_len tl = 1 /\ row_name (t_row tl) = "STOP"%string.
Proof.
  intros buf tl H S. unfold is_stop in S. apply N.eqb_eq in S.
  unfold tok_ok in H. apply next_token_inv in H. destruct H as (c & args & k & n & E & L & K & A & LEN).
  apply lookup_spec in L. destruct L as [R _]. destruct (row_ok_stop _ R S) as [RD NM].
  assert (argless (t_row tl) = true) as AL by (unfold argless; rewrite RD; reflexivity).
  split; [exact AL|]. split; [unfold imm; rewrite AL; reflexivity|]. split; [|exact NM].
  rewrite RD, reader_none in K. inversion K; subst k. red_arg_len A. inversion A; subst. exact LEN.
Qed.

(* Pickled.load, when the token loop reaches STOP *)
Lemma load_stream_eq : forall buf start ts' tl,
  genops_at buf start = (ts' ++ [tl], TDone) ->
  load_stream buf start =
    if existsb classless (ts' ++ [tl]) then LErr LNotImpl
    else LOk (map (fill buf) ts' ++ [fresh buf tl], 1 + t_pos tl).
Proof.
  intros buf start ts' tl G. unfold load_stream. rewrite G.
  pose proof G as G'. unfold genops_at in G'.
  pose proof (genops_chain _ _ _ _ _ G') as C.
  change (@nil opc) with (acc_of buf []).
  rewrite (load_loop_closed buf _ start [] TDone C) by (left; reflexivity).
  destruct (existsb classless (ts' ++ [tl])); [reflexivity|].
  pose proof (rev_acc_snoc buf ts' tl) as RS.
  destruct (genops_done _ _ _ _ G') as (a & t & EQ & ST & _).
  apply app_inj_tail in EQ. destruct EQ as [-> ->].
  apply chain_app_inv in C. destruct C as [_ C]. apply chain_head in C. destruct C as (_ & OK & _).
  destruct (stop_imm_none _ _ OK ST) as (_ & IN & _ & _).
  rewrite app_nil_r in *. rewrite rev_app_distr in *. cbn [rev app acc_of] in *.
  cbn [o_data fresh o_pos]. rewrite IN. rewrite RS. reflexivity.
Qed.

Lemma load_stream_ok_inv : forall buf start ops e, load_stream buf start = LOk (ops, e) ->
  exists ts' tl, genops_at buf start = (ts' ++ [tl], TDone).
Proof.
  intros buf start ops e H. unfold load_stream in H.
  destruct (genops_at buf start) as [ts st] eqn:G.
  pose proof G as G'. unfold genops_at in G'.
  pose proof (genops_chain _ _ _ _ _ G') as C.
  change (@nil opc) with (acc_of buf []) in H.
  rewrite (load_loop_closed buf _ start [] st C) in H by (left; reflexivity).
  destruct (existsb classless ts); [discriminate|].
  destruct st as [|er].
  - destruct (genops_done _ _ _ _ G') as (a & t & -> & _). eauto.
  - destruct er; discriminate.
Qed.

(* ------------------------------------------------------------------------------------------ *)
(* the recording reader (non-seekable input): every read of the loop body is served from the   *)
(* bytes genops has already taken, so the loop is the loop over a random-access buffer          *)
(* ------------------------------------------------------------------------------------------ *)
Lemma read_at_firstn : forall buf m p n, p + n <= m -> read_at (firstn m buf) p n = read_at buf p n.
Proof.
  intros buf m p n H. unfold read_at. rewrite skipn_firstn_comm, firstn_firstn.
  replace (Nat.min n (m - p)) with n by lia. reflexivity.
Qed.

(* one iteration: the back-fill of the previous opcode and the new opcode's data, computed from the
   recorded bytes only, are what a random-access stream over the whole input would have given *)
Lemma loop_step_from_recorded : forall buf t acc, tok_ok buf t ->
  backfill (recorded buf t) acc (t_pos t) = backfill buf acc (t_pos t) /\
  immediate_data (recorded buf t) t = immediate_data buf t.
Proof.
  intros buf t acc OK. unfold recorded. split.
  - unfold backfill. destruct acc as [|prev older]; [reflexivity|].
    destruct (o_data prev); [reflexivity|].
    destruct (Nat.ltb (o_pos prev) (t_pos t)) eqn:L; [|reflexivity].
    apply Nat.ltb_lt in L. rewrite read_at_firstn by lia. reflexivity.
  - unfold immediate_data. destruct (argless (t_row t)); [reflexivity|].
    destruct (Z.ltb 0 (row_n (t_row t))) eqn:P; [|reflexivity].
    apply Z.ltb_lt in P. rewrite <- (fixed_len _ _ OK P).
    rewrite read_at_firstn by lia. reflexivity.
Qed.

Lemma load_loop_rec_eq : forall buf ts st acc, Forall (tok_ok buf) ts ->
  load_loop_rec buf ts st acc = load_loop buf ts st acc.
Proof.
  intros buf ts st. induction ts as [|t more IH]; intros acc F; [reflexivity|].
  inversion F as [|x l OK F']; subst. cbn [load_loop_rec load_loop].
  destruct (loop_step_from_recorded buf t acc OK) as [-> ->].
  destruct (immediate_data buf t); [|reflexivity].
  destruct (row_has_class (t_row t)); [|reflexivity]. apply IH. exact F'.
Qed.

Lemma load_stream_rec_eq : forall buf start, load_stream_rec buf start = load_stream buf start.
Proof.
  intros buf start. unfold load_stream_rec, load_stream.
  destruct (genops_at buf start) as [ts st] eqn:G. unfold genops_at in G.
  rewrite (load_loop_rec_eq buf ts st [] (chain_forall _ _ _ (genops_chain _ _ _ _ _ G))). reflexivity.
Qed.

(* ------------------------------------------------------------------------------------------ *)
(* dumps                                                                                      *)
(* ------------------------------------------------------------------------------------------ *)
Lemma dumps_app : forall a b x y, dumps a = Ok x -> dumps b = Ok y -> dumps (a ++ b) = Ok (x ++ y).
Proof.
  induction a as [|o a IH]; simpl; intros b x y A B.
  - inversion A; subst. exact B.
  - destruct (opc_data o) as [d|]; [|discriminate]. destruct (dumps a) as [t|] eqn:T; [|discriminate].
    inversion A; subst. rewrite (IH b t y eq_refl B). rewrite app_assoc. reflexivity.
Qed.

Lemma dumps_app_inv : forall a b z, dumps (a ++ b) = Ok z ->
  exists x y, dumps a = Ok x /\ dumps b = Ok y /\ z = x ++ y.
Proof.
  induction a as [|o a IH]; simpl; intros b z H.
  - exists [], z. auto.
  - destruct (opc_data o) as [d|]; [|discriminate].
    destruct (dumps (a ++ b)) as [t|] eqn:T; [|discriminate].
    destruct (IH b t T) as (x & y & -> & -> & ->). inversion H; subst.
    exists (d ++ x), y. rewrite app_assoc. auto.
Qed.

Lemma dumps_fill : forall buf pos ts, chain buf pos ts ->
  dumps (map (fill buf) ts) = Ok (read_at buf pos (sum_len ts)).
Proof.
  induction 1.
  - simpl. unfold read_at. reflexivity.
  - cbn [map dumps sum_len t_len]. unfold fill at 1. cbn [opc_data o_data t_pos t_len].
    rewrite IHchain. rewrite read_at_cat. reflexivity.
Qed.

Lemma dumps_fresh_stop : forall buf tl, tok_ok buf tl -> is_stop tl = true ->
  dumps [fresh buf tl] = Ok (read_at buf (t_pos tl) 1).
Proof.
  intros buf tl OK ST. destruct (stop_imm_none _ _ OK ST) as (AL & IN & _ & _).
  destruct (tok_ok_row _ _ OK) as (c & args & E & L & _).
  cbn [dumps]. unfold opc_data, fresh. cbn [o_data o_row]. rewrite IN. unfold encode. cbn [o_row].
  rewrite AL. rewrite (code_byte_lookup _ _ L). unfold read_at. rewrite E. reflexivity.
Qed.

(* positions do not matter to dumps *)
Definition shift_opc (k : nat) (o : opc) : opc := mkOpc (o_row o) (k + o_pos o) (o_data o).

Lemma dumps_shift : forall k ops, dumps (map (shift_opc k) ops) = dumps ops.
Proof.
  induction ops as [|o r IH]; [reflexivity|]. cbn [map dumps]. rewrite IH. reflexivity.
Qed.

(* ------------------------------------------------------------------------------------------ *)
(* byte-exact re-serialisation                                                                *)
(* ------------------------------------------------------------------------------------------ *)
Definition ends_in_stop (ops : list opc) (e : nat) : Prop :=
  exists ops' s, ops = ops' ++ [s] /\ row_name (o_row s) = "STOP"%string /\ o_data s = None /\
                 1 + o_pos s = e.

Definition starts_at (ops : list opc) (start : nat) : Prop :=
  match ops with o :: _ => o_pos o = start | [] => False end.

Lemma load_stream_exact : forall buf start ops e,
  load_stream buf start = LOk (ops, e) ->
  dumps ops = Ok (read_at buf start (e - start)) /\
  start < e <= List.length buf /\
  ends_in_stop ops e /\ starts_at ops start /\
  Forall (fun o => row_has_class (o_row o) = true) ops.
Proof.
  intros buf start ops e H.
  destruct (load_stream_ok_inv _ _ _ _ H) as (ts' & tl & G).
  rewrite (load_stream_eq _ _ _ _ G) in H.
  destruct (existsb classless (ts' ++ [tl])) eqn:CL; [discriminate|]. inversion H; subst; clear H.
  pose proof G as G'. unfold genops_at in G'.
  pose proof (genops_chain _ _ _ _ _ G') as C.
  destruct (genops_done _ _ _ _ G') as (a & t & EQ & ST & _).
  apply app_inj_tail in EQ. destruct EQ as [<- <-].
  pose proof (chain_end_bound _ _ _ C) as EB.
  apply chain_app_inv in C. destruct C as [C1 C2]. apply chain_head in C2. destruct C2 as (P & OK & _).
  destruct (stop_imm_none _ _ OK ST) as (_ & IN & L1 & NM).
  rewrite sum_len_app_one in EB.
  split; [|split; [|split; [|split]]].
  - rewrite (dumps_app _ _ _ _ (dumps_fill _ _ _ C1) (dumps_fresh_stop _ _ OK ST)).
    rewrite P. rewrite read_at_cat. f_equal. f_equal. lia.
  - assert (ts' ++ [tl] <> []) by (destruct ts'; discriminate). specialize (EB H). lia.
  - exists (map (fill buf) ts'), (fresh buf tl). cbn [fresh o_row o_data o_pos]. auto.
  - destruct ts' as [|t0 r]; cbn [map app starts_at fresh fill o_pos].
    + exact P.
    + inversion C1; subst. reflexivity.
  - apply Forall_app. split.
    + apply Forall_forall. intros o IN'. apply in_map_iff in IN'. destruct IN' as (t0 & <- & I0).
      cbn [fill o_row]. rewrite existsb_app in CL. apply orb_false_elim in CL. destruct CL as [CL _].
      destruct (row_has_class (t_row t0)) eqn:HC; [reflexivity|].
      assert (existsb classless ts' = true) by (apply existsb_exists; exists t0; unfold classless; rewrite HC; auto).
      congruence.
    + constructor; [|constructor]. cbn [fresh o_row]. rewrite existsb_app in CL.
      apply orb_false_elim in CL. destruct CL as [_ CL]. cbn [existsb] in CL. unfold classless in CL.
      destruct (row_has_class (t_row tl)); [reflexivity|discriminate].
Qed.

(* ------------------------------------------------------------------------------------------ *)
(* prefix determinism and position shift                                                      *)
(* ------------------------------------------------------------------------------------------ *)
(* the token loop over a complete pickle [b] is unchanged by whatever follows [b], and only
   shifted by whatever precedes it *)
Lemma genops_at_prefix : forall pre b rest ts,
  genops_at b 0 = (ts, TDone) ->
  genops_at (pre ++ b ++ rest) (List.length pre) = (map (shift_tok (List.length pre)) ts, TDone).
Proof.
  intros pre b rest ts G. unfold genops_at in *. cbn [skipn] in G.
  replace (skipn (List.length pre) (pre ++ b ++ rest)) with (b ++ rest).
  2:{ rewrite skipn_app, skipn_all2, Nat.sub_diag by lia. reflexivity. }
  pose proof (genops_app _ _ _ _ G (S (List.length (b ++ rest))) rest) as G2.
  rewrite app_length in G2. specialize (G2 ltac:(lia)). rewrite <- app_length in G2.
  apply (genops_shift _ _ _ (List.length pre)) in G2. rewrite Nat.add_0_r in G2. exact G2.
Qed.

Lemma fill_shift : forall pre b rest t, tok_ok b t ->
  fill (pre ++ b ++ rest) (shift_tok (List.length pre) t) = shift_opc (List.length pre) (fill b t).
Proof.
  intros pre b rest t OK. pose proof (tok_ok_bounds _ _ OK) as [_ B].
  unfold fill, shift_tok, shift_opc. cbn [t_row t_pos t_len o_row o_pos o_data].
  rewrite read_at_shift by exact B. reflexivity.
Qed.

Lemma fresh_shift : forall pre b rest t, tok_ok b t ->
  fresh (pre ++ b ++ rest) (shift_tok (List.length pre) t) = shift_opc (List.length pre) (fresh b t).
Proof.
  intros pre b rest t OK. pose proof (tok_ok_bounds _ _ OK) as [_ B].
  unfold fresh, shift_tok, shift_opc, imm. cbn [t_row t_pos t_len o_row o_pos o_data].
  destruct (argless (t_row t)); [reflexivity|].
  destruct (Z.ltb 0 (row_n (t_row t))) eqn:P; [|reflexivity].
  apply Z.ltb_lt in P. pose proof (fixed_len _ _ OK P) as FL.
  rewrite read_at_shift by lia. reflexivity.
Qed.

Lemma existsb_classless_shift : forall k ts,
  existsb classless (map (shift_tok k) ts) = existsb classless ts.
Proof.
  induction ts as [|t r IH]; [reflexivity|]. cbn [map existsb]. rewrite IH. reflexivity.
Qed.

Lemma load_stream_prefix : forall pre b rest ops e,
  load_stream b 0 = LOk (ops, e) ->
  load_stream (pre ++ b ++ rest) (List.length pre)
    = LOk (map (shift_opc (List.length pre)) ops, List.length pre + e).
Proof.
  intros pre b rest ops e H.
  destruct (load_stream_ok_inv _ _ _ _ H) as (ts' & tl & G).
  rewrite (load_stream_eq _ _ _ _ G) in H.
  destruct (existsb classless (ts' ++ [tl])) eqn:CL; [discriminate|]. inversion H; subst; clear H.
  pose proof (genops_at_prefix pre b rest _ G) as G2. rewrite map_app in G2. cbn [map] in G2.
  rewrite (load_stream_eq _ _ _ _ G2).
  assert (existsb classless (map (shift_tok (List.length pre)) ts' ++ [shift_tok (List.length pre) tl]) = false) as ->.
  { rewrite existsb_app in *. rewrite existsb_classless_shift. exact CL. }
  pose proof G as G'. unfold genops_at in G'. pose proof (genops_chain _ _ _ _ _ G') as C.
  apply chain_forall in C. apply Forall_app in C. destruct C as [F1 F2]. inversion F2; subst.
  f_equal. f_equal.
  - rewrite map_app. cbn [map]. f_equal.
    + rewrite !map_map. apply map_ext_in. intros t IN. apply fill_shift.
      rewrite Forall_forall in F1. apply F1. exact IN.
    + rewrite fresh_shift by assumption. reflexivity.
  - cbn [shift_tok t_pos]. lia.
Qed.

(* ------------------------------------------------------------------------------------------ *)
(* StackedPickle.load                                                                         *)
(* ------------------------------------------------------------------------------------------ *)
Lemma load_stream_nonempty : forall buf start ops e, load_stream buf start = LOk (ops, e) -> ops <> [].
Proof.
  intros buf start ops e H. destruct (load_stream_exact _ _ _ _ H) as (_ & _ & (a & s & -> & _) & _).
  destruct a; discriminate.
Qed.

(* at or beyond the end of the data there is no pickle: EmptyPickleError *)
Lemma load_stream_eof : forall buf start, List.length buf <= start -> load_stream buf start = LErr LEmpty.
Proof.
  intros buf start L. unfold load_stream, genops_at. rewrite skipn_all2 by lia. reflexivity.
Qed.

(* a complete pickle: [load] accepts [b] and stops exactly at its end *)
Definition complete (b : list byte) (p : list opc) : Prop := load_stream b 0 = LOk (p, List.length b).

Fixpoint shift_parts (k : nat) (items : list (list byte * list opc)) : list (list opc) :=
  match items with
  | [] => []
  | (b, p) :: r => map (shift_opc k) p :: shift_parts (List.length b + k) r
  end.

Lemma complete_nonempty : forall b p, complete b p -> 1 <= List.length b.
Proof.
  intros b p H. destruct (load_stream_exact _ _ _ _ H) as (_ & B & _). lia.
Qed.

Lemma stacked_loop_concat : forall items pre tail fuel acc,
  Forall (fun bp => complete (fst bp) (snd bp)) items ->
  load_stream (pre ++ List.concat (map fst items) ++ tail) (List.length pre + List.length (List.concat (map fst items)))
    = LErr LEmpty ->
  List.length items < fuel ->
  stacked_loop fuel (pre ++ List.concat (map fst items) ++ tail) (List.length pre) acc
    = LOk (rev acc ++ shift_parts (List.length pre) items,
           List.length pre + List.length (List.concat (map fst items))).
Proof.
  induction items as [|[b p] items IH]; intros pre tail fuel acc F E L.
  - destruct fuel as [|f]; [simpl in L; lia|]. cbn [stacked_loop].
    cbn [map List.concat List.length] in *. rewrite Nat.add_0_r in *. rewrite E.
    cbn [shift_parts]. rewrite app_nil_r. reflexivity.
  - destruct fuel as [|f]; [simpl in L; lia|]. cbn [stacked_loop].
    inversion F as [|x l CB F']; subst. cbn [fst snd] in CB.
    cbn [map List.concat fst] in *. rewrite <- app_assoc in *.
    rewrite (load_stream_prefix pre b (List.concat (map fst items) ++ tail) _ _ CB).
    pose proof (load_stream_nonempty _ _ _ _ CB) as NE.
    destruct (map (shift_opc (List.length pre)) p) as [|o r] eqn:MP.
    { destruct p; [congruence|discriminate]. }
    rewrite <- MP.
    replace (pre ++ b ++ List.concat (map fst items) ++ tail)
      with ((pre ++ b) ++ List.concat (map fst items) ++ tail) by (rewrite <- app_assoc; reflexivity).
    replace (List.length pre + List.length b) with (List.length (pre ++ b)) by (rewrite app_length; reflexivity).
    rewrite (IH (pre ++ b) tail f).
    + cbn [rev shift_parts]. rewrite <- app_assoc. cbn [app].
      rewrite !app_length. f_equal. f_equal; [|lia].
      f_equal. f_equal. f_equal. lia.
    + exact F'.
    + rewrite <- app_assoc. rewrite <- E. f_equal. rewrite !app_length. lia.
    + simpl in L. lia.
Qed.

(* every successful iteration strictly advances: the fuel of [stacked_stream] never runs out *)
Lemma stacked_no_fuel_gen : forall fuel buf pos acc,
  List.length buf - pos + 1 < fuel -> stacked_loop fuel buf pos acc <> LErr (LOther EFuel).
Proof.
  induction fuel as [|f IH]; intros buf pos acc L; [lia|]. cbn [stacked_loop].
  destruct (load_stream buf pos) as [[ops e]|er] eqn:LS.
  - destruct ops as [|o r]; [discriminate|].
    destruct (load_stream_exact _ _ _ _ LS) as (_ & B & _). apply IH. lia.
  - destruct er as [| | |x]; try discriminate.
    intro X. inversion X; subst. clear X.
    (* load_stream itself never reports fuel *)
    unfold load_stream in LS. destruct (genops_at buf pos) as [ts st] eqn:G.
    pose proof (genops_no_fuel _ _ _ _ G) as NF.
    pose proof G as G'. unfold genops_at in G'. pose proof (genops_chain _ _ _ _ _ G') as C.
    change (@nil opc) with (acc_of buf []) in LS.
    rewrite (load_loop_closed buf _ pos [] st C) in LS by (left; reflexivity).
    destruct (existsb classless ts); [discriminate|].
    destruct st as [|e0].
    + destruct (acc_of buf (rev ts ++ [])); discriminate.
    + destruct e0; try discriminate.
      * destruct (acc_of buf (rev ts ++ [])); discriminate.
      * congruence.
Qed.

Lemma stacked_no_fuel : forall buf start, stacked_stream buf start <> LErr (LOther EFuel).
Proof.
  intros buf start. unfold stacked_stream.
  pose proof (stacked_no_fuel_gen (2 + (List.length buf - start)) buf start [] ltac:(lia)) as NF.
  destruct (stacked_loop (2 + (List.length buf - start)) buf start []) as [[ps e]|er]; [|exact NF].
  destruct ps; discriminate.
Qed.

(* soundness for ANY input: the elements of the stack are contiguous and re-serialise, in order,
   to exactly the bytes between the start and the end of the last accepted pickle *)
Lemma stacked_loop_sound : forall fuel buf pos acc parts e start,
  stacked_loop fuel buf pos acc = LOk (parts, e) ->
  start <= pos ->
  dumps (List.concat (rev acc)) = Ok (read_at buf start (pos - start)) ->
  Forall (fun p => exists q, ends_in_stop p q) acc ->
  dumps (List.concat parts) = Ok (read_at buf start (e - start)) /\ pos <= e /\
  Forall (fun p => exists q, ends_in_stop p q) parts /\
  List.length acc <= List.length parts.
Proof.
  induction fuel as [|f IH]; intros buf pos acc parts e start H S D F; [discriminate|].
  cbn [stacked_loop] in H.
  assert (stop_here : (parts, e) = (rev acc, pos) ->
          dumps (List.concat parts) = Ok (read_at buf start (e - start)) /\ pos <= e /\
          Forall (fun p => exists q, ends_in_stop p q) parts /\ List.length acc <= List.length parts).
  { intros X. inversion X; subst. split; [exact D|]. split; [lia|]. split.
    - apply Forall_rev. exact F.
    - rewrite rev_length. lia. }
  destruct (load_stream buf pos) as [[ops e1]|er] eqn:LS.
  - destruct ops as [|o r] eqn:OPS; [apply stop_here; congruence|]. rewrite <- OPS in *.
    destruct (load_stream_exact _ _ _ _ LS) as (DX & B & ES & _).
    specialize (IH buf e1 (ops :: acc) parts e start H ltac:(lia)).
    cbn [rev] in IH. rewrite concat_app in IH. cbn [List.concat] in IH. rewrite app_nil_r in IH.
    rewrite (dumps_app _ _ _ _ D DX) in IH.
    replace (pos - start) with (pos - start + 0) in IH by lia.
    assert (read_at buf start (pos - start + 0) ++ read_at buf pos (e1 - pos) = read_at buf start (e1 - start)) as RC.
    { rewrite Nat.add_0_r. replace pos with ((pos - start) + start) at 2 by lia.
      rewrite read_at_cat. f_equal. lia. }
    rewrite RC in IH. specialize (IH eq_refl).
    destruct IH as (A1 & A2 & A3 & A4).
    + constructor; [eauto|exact F].
    + split; [exact A1|]. split; [lia|]. split; [exact A3|]. simpl in A4. lia.
  - destruct er; try discriminate. apply stop_here. congruence.
Qed.

(* ------------------------------------------------------------------------------------------ *)
(* the statements used by props/C06.v                                                         *)
(* ------------------------------------------------------------------------------------------ *)
Lemma seekable_exact : forall bs o r,
  load_model KSeekable bs o = LOk r ->
  dumps (l_ops r) = Ok (firstn (l_end r - o) (skipn o bs)) /\
  ends_in_stop (l_ops r) (l_end r) /\ starts_at (l_ops r) o /\
  o < l_end r <= List.length bs /\
  l_caller r = Some (l_end r) /\
  caller_rest bs r = Some (skipn (l_end r) bs) /\
  bs = firstn o bs ++ firstn (l_end r - o) (skipn o bs) ++ skipn (l_end r) bs.
Proof.
  intros bs o r H. unfold load_model in H.
  destruct (load_stream bs o) as [[ops e]|er] eqn:LS; [|discriminate]. inversion H; subst; clear H.
  destruct (load_stream_exact _ _ _ _ LS) as (D & B & ES & SA & _).
  cbn [l_ops l_end l_caller]. unfold caller_rest. cbn [l_caller].
  repeat split; try assumption; try lia.
  rewrite <- (firstn_skipn o bs) at 1. f_equal.
  rewrite <- (firstn_skipn (e - o) (skipn o bs)) at 1. f_equal.
  rewrite skipn_skipn'. f_equal. lia.
Qed.

Lemma bytes_exact : forall bs o r,
  load_model KBytes bs o = LOk r ->
  dumps (l_ops r) = Ok (firstn (l_end r) bs) /\
  ends_in_stop (l_ops r) (l_end r) /\ starts_at (l_ops r) 0 /\
  0 < l_end r <= List.length bs /\ l_caller r = None.
Proof.
  intros bs o r H. unfold load_model in H.
  destruct (load_stream bs 0) as [[ops e]|er] eqn:LS; [|discriminate]. inversion H; subst; clear H.
  destruct (load_stream_exact _ _ _ _ LS) as (D & B & ES & SA & _).
  cbn [l_ops l_end l_caller]. rewrite Nat.sub_0_r in D. unfold read_at in D. cbn [skipn] in D.
  repeat split; try assumption; try lia.
Qed.

Lemma nonseekable_exact : forall bs off r,
  load_model KNonSeekable bs off = LOk r ->
  dumps (l_ops r) = Ok (firstn (l_end r) (skipn off bs)) /\
  ends_in_stop (l_ops r) (l_end r) /\ starts_at (l_ops r) 0 /\
  0 < l_end r /\ off + l_end r <= List.length bs /\
  l_caller r = Some (off + l_end r) /\
  caller_rest bs r = Some (skipn (off + l_end r) bs) /\
  bs = firstn off bs ++ firstn (l_end r) (skipn off bs) ++ skipn (off + l_end r) bs.
Proof.
  intros bs off r H. unfold load_model in H. rewrite load_stream_rec_eq in H.
  destruct (load_stream (skipn off bs) 0) as [[ops e]|er] eqn:LS; [|discriminate].
  inversion H; subst; clear H.
  destruct (load_stream_exact _ _ _ _ LS) as (D & B & ES & SA & _).
  rewrite skipn_length in B.
  cbn [l_ops l_end l_caller]. unfold caller_rest. cbn [l_caller].
  rewrite Nat.sub_0_r in D. unfold read_at in D. cbn [skipn] in D.
  repeat split; try assumption; try lia.
  rewrite <- (firstn_skipn off bs) at 1. f_equal.
  rewrite <- (firstn_skipn e (skipn off bs)) at 1. f_equal.
  rewrite skipn_skipn'. f_equal. lia.
Qed.

(* the parse of a non-seekable input is the parse of the bytes object holding what the stream held *)
Lemma nonseekable_as_bytes_model : forall bs off r,
  load_model KNonSeekable bs off = LOk r ->
  load_model KBytes (skipn off bs) 0 = LOk (mkLoaded (l_ops r) (l_end r) None).
Proof.
  intros bs off r H. unfold load_model in *. rewrite load_stream_rec_eq in H.
  destruct (load_stream (skipn off bs) 0) as [[ops e]|x] eqn:E; [|discriminate].
  inversion H; subst. reflexivity.
Qed.

Lemma shift_tok_0 : forall ts, map (shift_tok 0) ts = ts.
Proof. induction ts as [|[r p l] ts IH]; [reflexivity|]. cbn [map]. rewrite IH. reflexivity. Qed.

Lemma shift_opc_0 : forall ops, map (shift_opc 0) ops = ops.
Proof. induction ops as [|[r p d] ops IH]; [reflexivity|]. cbn [map]. rewrite IH. reflexivity. Qed.

Lemma tokenize_prefix : forall pre b rest ts,
  tokenize b 0 = Ok ts ->
  tokenize (pre ++ b ++ rest) (List.length pre) = Ok (map (shift_tok (List.length pre)) ts).
Proof.
  intros pre b rest ts H. unfold tokenize in *.
  destruct (genops_at b 0) as [ts0 st] eqn:G. destruct st; [|discriminate]. inversion H; subst.
  rewrite (genops_at_prefix pre b rest _ G). reflexivity.
Qed.

Lemma tokenize_rest_irrelevant : forall b rest ts, tokenize b 0 = Ok ts -> tokenize (b ++ rest) 0 = Ok ts.
Proof.
  intros b rest ts H. pose proof (tokenize_prefix [] b rest ts H) as P.
  cbn [app List.length] in P. rewrite shift_tok_0 in P. exact P.
Qed.

Definition shift_loaded (k : nat) (r : loaded) : loaded :=
  mkLoaded (map (shift_opc k) (l_ops r)) (k + l_end r)
           (match l_caller r with Some p => Some (k + p) | None => None end).

Lemma seekable_prefix : forall pre b rest r,
  load_model KSeekable b 0 = LOk r ->
  load_model KSeekable (pre ++ b ++ rest) (List.length pre) = LOk (shift_loaded (List.length pre) r).
Proof.
  intros pre b rest r H. unfold load_model in *.
  destruct (load_stream b 0) as [[ops e]|er] eqn:LS; [|discriminate]. inversion H; subst; clear H.
  rewrite (load_stream_prefix pre b rest _ _ LS). reflexivity.
Qed.

Lemma bytes_rest_irrelevant : forall b rest r o o',
  load_model KBytes b o = LOk r -> load_model KBytes (b ++ rest) o' = LOk r.
Proof.
  intros b rest r o o' H. unfold load_model in *.
  destruct (load_stream b 0) as [[ops e]|er] eqn:LS; [|discriminate]. inversion H; subst; clear H.
  pose proof (load_stream_prefix [] b rest _ _ LS) as P. cbn [app List.length] in P.
  rewrite P. rewrite shift_opc_0. reflexivity.
Qed.

(* stacked *)
Lemma items_length : forall items, Forall (fun bp => complete (fst bp) (snd bp)) items ->
  List.length items <= List.length (List.concat (map fst items)).
Proof.
  induction 1 as [|[b p] l C F IH]; [simpl; lia|]. cbn [map List.concat fst List.length] in *.
  rewrite app_length. apply complete_nonempty in C. lia.
Qed.

Lemma shift_parts_spec : forall items k, Forall (fun bp => complete (fst bp) (snd bp)) items ->
  List.length (shift_parts k items) = List.length items /\
  Forall2 (fun part bp => dumps part = Ok (fst bp)) (shift_parts k items) items.
Proof.
  induction items as [|[b p] items IH]; intros k F; [split; [reflexivity|constructor]|].
  inversion F as [|x l C F']; subst. cbn [fst snd] in C. cbn [shift_parts List.length].
  destruct (IH (List.length b + k) F') as [A B]. split; [rewrite A; reflexivity|].
  constructor; [|exact B]. cbn [fst]. rewrite dumps_shift.
  destruct (load_stream_exact _ _ _ _ C) as (D & _). rewrite D. unfold read_at. cbn [skipn].
  rewrite Nat.sub_0_r, firstn_all. reflexivity.
Qed.

Lemma stacked_stream_concat : forall items pre tail,
  items <> [] ->
  Forall (fun bp => complete (fst bp) (snd bp)) items ->
  load_stream (pre ++ List.concat (map fst items) ++ tail)
              (List.length pre + List.length (List.concat (map fst items))) = LErr LEmpty ->
  stacked_stream (pre ++ List.concat (map fst items) ++ tail) (List.length pre)
    = LOk (shift_parts (List.length pre) items, List.length pre + List.length (List.concat (map fst items))).
Proof.
  intros items pre tail NE F E. unfold stacked_stream.
  rewrite (stacked_loop_concat items pre tail _ [] F E).
  - cbn [rev app]. destruct items as [|[b p] items]; [congruence|]. cbn [shift_parts].
    reflexivity.
  - pose proof (items_length _ F). rewrite !app_length. lia.
Qed.

Lemma stacked_bytes_partition : forall items,
  items <> [] ->
  Forall (fun bp => complete (fst bp) (snd bp)) items ->
  stacked_load KBytes (List.concat (map fst items)) 0
    = LOk (shift_parts 0 items, List.length (List.concat (map fst items))) /\
  List.length (shift_parts 0 items) = List.length items /\
  Forall2 (fun part bp => dumps part = Ok (fst bp)) (shift_parts 0 items) items.
Proof.
  intros items NE F. split; [|apply shift_parts_spec; exact F].
  unfold stacked_load.
  pose proof (stacked_stream_concat items [] [] NE F) as P. cbn [app List.length] in P.
  rewrite app_nil_r in P. apply P. apply load_stream_eof. simpl. lia.
Qed.

Lemma stacked_seekable_partition : forall items pre tail,
  items <> [] ->
  Forall (fun bp => complete (fst bp) (snd bp)) items ->
  load_stream (pre ++ List.concat (map fst items) ++ tail)
              (List.length pre + List.length (List.concat (map fst items))) = LErr LEmpty ->
  stacked_load KSeekable (pre ++ List.concat (map fst items) ++ tail) (List.length pre)
    = LOk (shift_parts (List.length pre) items, List.length pre + List.length (List.concat (map fst items))) /\
  List.length (shift_parts (List.length pre) items) = List.length items /\
  Forall2 (fun part bp => dumps part = Ok (fst bp)) (shift_parts (List.length pre) items) items.
Proof.
  intros items pre tail NE F E. split; [|apply shift_parts_spec; exact F].
  unfold stacked_load. apply stacked_stream_concat; assumption.
Qed.

(* a non-seekable stream that has already handed out [pre]: positions count from the first pickle *)
Lemma stacked_nonseekable_partition : forall items pre tail,
  items <> [] ->
  Forall (fun bp => complete (fst bp) (snd bp)) items ->
  load_stream (List.concat (map fst items) ++ tail) (List.length (List.concat (map fst items))) = LErr LEmpty ->
  stacked_load KNonSeekable (pre ++ List.concat (map fst items) ++ tail) (List.length pre)
    = LOk (shift_parts 0 items, List.length (List.concat (map fst items))) /\
  List.length (shift_parts 0 items) = List.length items /\
  Forall2 (fun part bp => dumps part = Ok (fst bp)) (shift_parts 0 items) items.
Proof.
  intros items pre tail NE F E. split; [|apply shift_parts_spec; exact F].
  unfold stacked_load. rewrite skipn_app, skipn_all, Nat.sub_diag. cbn [skipn app].
  exact (stacked_stream_concat items [] tail NE F E).
Qed.

Lemma stacked_stream_sound : forall buf start parts e,
  stacked_stream buf start = LOk (parts, e) ->
  dumps (List.concat parts) = Ok (firstn (e - start) (skipn start buf)) /\
  start <= e /\ parts <> [] /\ Forall (fun p => exists q, ends_in_stop p q) parts.
Proof.
  intros buf start parts e H. unfold stacked_stream in H.
  destruct (stacked_loop (2 + (List.length buf - start)) buf start []) as [[ps e0]|er] eqn:SL.
  - destruct ps as [|p0 ps']; [discriminate|]. inversion H; subst; clear H.
    destruct (stacked_loop_sound _ _ _ _ _ _ start SL (le_n _)) as (A & B & C & _).
    + rewrite Nat.sub_diag. reflexivity.
    + constructor.
    + repeat split; try assumption. discriminate.
  - discriminate.
Qed.

Lemma tokenize_sound : forall bs pos ts,
  tokenize bs pos = Ok ts ->
  chain bs pos ts /\
  (exists ts' tl, ts = ts' ++ [tl] /\ row_name (t_row tl) = "STOP"%string /\ t_len tl = 1 /\
                  forallb (fun t => negb (is_stop t)) ts' = true) /\
  pos < sum_len ts + pos <= List.length bs.
Proof.
  intros bs pos ts H. unfold tokenize in H.
  destruct (genops_at bs pos) as [ts0 st] eqn:G. destruct st; [|discriminate]. inversion H; subst; clear H.
  unfold genops_at in G. pose proof (genops_chain _ _ _ _ _ G) as C.
  destruct (genops_done _ _ _ _ G) as (a & t & -> & ST & NS).
  split; [exact C|].
  pose proof (chain_end_bound _ _ _ C ltac:(destruct a; discriminate)) as EB.
  pose proof C as C'. apply chain_app_inv in C'. destruct C' as [_ C2]. apply chain_head in C2.
  destruct C2 as (_ & OK & _). destruct (stop_imm_none _ _ OK ST) as (_ & _ & L1 & NM).
  split; [exists a, t; auto|]. rewrite sum_len_app_one in *. lia.
Qed.

Lemma tokenize_no_fuel : forall bs pos, tokenize bs pos <> Err EFuel.
Proof.
  intros bs pos. unfold tokenize. destruct (genops_at bs pos) as [ts st] eqn:G.
  pose proof (genops_no_fuel _ _ _ _ G). destruct st; [discriminate|]. congruence.
Qed.

(* the success domain of Pickled.load: exactly the streams on which the token loop reaches STOP and
   every opcode has a class; then there is one opcode per token, at the token's position *)
Lemma existsb_classless_forallb : forall ts,
  existsb classless ts = negb (forallb (fun t => row_has_class (t_row t)) ts).
Proof.
  induction ts as [|t r IH]; [reflexivity|]. cbn [existsb forallb]. rewrite IH. unfold classless.
  destruct (row_has_class (t_row t)); reflexivity.
Qed.

Lemma load_accepts : forall bs o ts,
  tokenize bs o = Ok ts ->
  (forallb (fun t => row_has_class (t_row t)) ts = true ->
     exists r, load_model KSeekable bs o = LOk r /\
               map o_row (l_ops r) = map t_row ts /\ map o_pos (l_ops r) = map t_pos ts) /\
  (forallb (fun t => row_has_class (t_row t)) ts = false -> load_model KSeekable bs o = LErr LNotImpl).
Proof.
  intros bs o ts H. unfold tokenize in H.
  destruct (genops_at bs o) as [ts0 st] eqn:G. destruct st; [|discriminate]. inversion H; subst; clear H.
  pose proof G as G'. unfold genops_at in G'. destruct (genops_done _ _ _ _ G') as (a & t & -> & _ & _).
  unfold load_model. rewrite (load_stream_eq _ _ _ _ G). rewrite existsb_classless_forallb.
  split; intros F; rewrite F; cbn [negb]; [|reflexivity].
  eexists. split; [reflexivity|]. cbn [l_ops].
  rewrite !map_app, !map_map. cbn [map fresh fill o_row o_pos]. split; reflexivity.
Qed.

Lemma load_rejects : forall bs o e,
  tokenize bs o = Err e ->
  exists x, load_model KSeekable bs o = LErr x /\
            (e = EValue -> x = LEmpty \/ x = LDecode \/ x = LNotImpl).
Proof.
  intros bs o e H. unfold tokenize in H.
  destruct (genops_at bs o) as [ts st] eqn:G. destruct st as [|e0]; [discriminate|]. inversion H; subst; clear H.
  pose proof G as G'. unfold genops_at in G'. pose proof (genops_chain _ _ _ _ _ G') as C.
  unfold load_model, load_stream. rewrite G.
  change (@nil opc) with (acc_of bs []).
  rewrite (load_loop_closed bs _ o [] (TErr e) C) by (left; reflexivity).
  destruct (existsb classless ts).
  - eexists. split; [reflexivity|]. auto.
  - destruct e; try (eexists; split; [reflexivity|]; intros; discriminate).
    eexists. split; [reflexivity|]. intros _. destruct (acc_of bs (rev ts ++ [])); cbn; auto.
Qed.
