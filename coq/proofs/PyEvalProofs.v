(* C05 layer B: evaluating the decompiled program (PyEval) rebuilds a value observationally equal
   to the reference VM's.  Built on the simulation relation of SimRel / SimProofs (layer A). *)
From Coq Require Import List String ZArith Bool Arith Lia.
From Verif Require Import Base Ops AnalysisTable Interp RefVM ShapeProofs SimRel SimProofs PyEval.
Import ListNotations.
Local Open Scope nat_scope.
Local Open Scope list_scope.

(* ================= part 1: same_shape ================= *)
Lemma forallb2_impl {A B} (f g : A -> B -> bool) :
  (forall a b, f a b = true -> g a b = true) ->
  forall l l', forallb2 f l l' = true -> forallb2 g l l' = true.
Proof.
  intros H. induction l as [|a l IH]; destruct l' as [|b l']; cbn; try congruence.
  intros E. apply andb_true_iff in E. destruct E as [E1 E2].
  rewrite (H _ _ E1), (IH _ E2). reflexivity.
Qed.

Lemma forallb2_app {A B} (f : A -> B -> bool) l1 l1' l2 l2' :
  forallb2 f l1 l1' = true -> forallb2 f l2 l2' = true -> forallb2 f (l1 ++ l2) (l1' ++ l2') = true.
Proof.
  revert l1'. induction l1 as [|a l IH]; destruct l1' as [|b l']; cbn; try congruence.
  intros E F. apply andb_true_iff in E. destruct E as [E1 E2]. rewrite E1. cbn. auto.
Qed.

Lemma const_eqb_refl c : const_eqb c c = true.
Proof.
  destruct c; cbn; auto using Z.eqb_refl, String.eqb_refl. destruct b; reflexivity.
Qed.

Lemma same_shape_S n h1 h2 : forall a b,
  same_shape n h1 h2 a b = true -> same_shape (S n) h1 h2 a b = true.
Proof.
  induction n as [|n IH]; intros a b H; [discriminate|].
  remember (S n) as k. cbn [same_shape]. subst k. cbn [same_shape] in H.
  destruct a, b; try discriminate; try exact H;
    try (eapply forallb2_impl; [|exact H]; exact IH).
  destruct (nth_error h1 i) as [[l|l|kvs]|]; try discriminate;
  destruct (nth_error h2 i0) as [[l'|l'|kvs']|]; try discriminate;
    try (eapply forallb2_impl; [|exact H]; exact IH).
  eapply forallb2_impl; [|exact H]. intros p q E. cbn beta in E |- *.
  apply andb_true_iff in E. destruct E as [E1 E2]. apply andb_true_iff; split; apply IH; assumption.
Qed.

Lemma same_shape_le n m h1 h2 a b :
  n <= m -> same_shape n h1 h2 a b = true -> same_shape m h1 h2 a b = true.
Proof. induction 1; auto using same_shape_S. Qed.

(* the evaluator's heap only grows *)
Lemma same_shape_ext n h1 h2 x : forall a b,
  same_shape n h1 h2 a b = true -> same_shape n h1 (h2 ++ x) a b = true.
Proof.
  induction n as [|n IH]; intros a b H; [discriminate|].
  cbn [same_shape] in *.
  destruct a, b; try discriminate; try exact H;
    try (eapply forallb2_impl; [|exact H]; exact IH).
  destruct (nth_error h1 i) as [o1|]; [|discriminate].
  destruct (nth_error h2 i0) as [o2|] eqn:E2; [|destruct o1; discriminate].
  rewrite (nth_error_app1 h2 x), E2
    by (apply nth_error_Some; congruence).
  destruct o1 as [l|l|kvs], o2 as [l'|l'|kvs']; try discriminate;
    try (eapply forallb2_impl; [|exact H]; exact IH).
  eapply forallb2_impl; [|exact H]. intros p q E. cbn beta in E |- *.
  apply andb_true_iff in E. destruct E as [E1 E2']. apply andb_true_iff; split; apply IH; assumption.
Qed.

Lemma forallb2_same_ext n h1 h2 x l l' :
  forallb2 (same_shape n h1 h2) l l' = true -> forallb2 (same_shape n h1 (h2 ++ x)) l l' = true.
Proof. apply forallb2_impl. apply same_shape_ext. Qed.

(* hashability is a property of the shape *)
Lemma same_hashable n h1 h2 : forall a b,
  same_shape n h1 h2 a b = true -> hashable a = hashable b.
Proof.
  induction n as [|n IH]; intros a b H; [discriminate|].
  cbn [same_shape] in H. destruct a, b; try discriminate; try reflexivity.
  cbn [hashable]. revert l0 H. induction l as [|x l IHl]; destruct l0 as [|y l0]; cbn; try congruence.
  intros E. apply andb_true_iff in E. destruct E as [E1 E2].
  rewrite (IH _ _ E1), (IHl _ E2). reflexivity.
Qed.

Lemma forallb2_hashable n h1 h2 : forall l l',
  forallb2 (same_shape n h1 h2) l l' = true -> forallb hashable l = forallb hashable l'.
Proof.
  induction l as [|x l IHl]; destruct l' as [|y l']; cbn; try congruence.
  intros E. apply andb_true_iff in E. destruct E as [E1 E2].
  rewrite (same_hashable _ _ _ _ _ E1), (IHl _ E2). reflexivity.
Qed.

Lemma leaf_same_shape n h1 h2 a b : leaf_same a b = true -> same_shape (S n) h1 h2 a b = true.
Proof. destruct a, b; cbn; congruence. Qed.

(* ================= part 3: the evaluator rebuilds what an expression denotes ================= *)
Section Core.
Variable P : val -> bool.
Variable al : env.
Variable ns : list node.
Variable h : list hobj.                    (* the VM's FINAL heap *)
Variable imps : list (string * string).
Variable vars : list (nat * val).
Variable bound : nat.
Variable okname : string -> bool.
Hypothesis Hheap : Forall2 (rel_node al) ns h.
Hypothesis Hwf : forallb (obj_wf P) h = true.
Hypothesis Hvars : forall i x, i < bound -> nth_error al i = Some x ->
  exists y, lookup_var i vars = Some y /\ leaf_same x y = true.
Hypothesis Hnames : forall m n, P (VGlobal m n) = true -> okname n = true ->
  leaf_same (VGlobal m n) (lookup_name n imps) = true.

Definition denotes (n : nat) (e : expr) (v : val) : Prop :=
  forall hp, fits n ns bound okname e = true -> rel al e v -> wfv P v = true ->
  exists v' hp', eval ns imps vars n e hp = Ok (v', hp ++ hp') /\
                 same_shape n h (hp ++ hp') v v' = true.

Lemma eval_seq_denotes n :
  (forall e v, denotes n e v) ->
  forall es vs, Forall2 (rel al) es vs -> forall hp,
  forallb (fits n ns bound okname) es = true -> forallb (wfv P) vs = true ->
  exists vs' hp', eval_seq (eval ns imps vars n) es hp = Ok (vs', hp ++ hp') /\
                  forallb2 (same_shape n h (hp ++ hp')) vs vs' = true.
Proof.
  intros IH es vs F. induction F as [|e v es vs Hr F IHF]; intros hp Hf Hw.
  - exists [], []. rewrite app_nil_r. split; reflexivity.
  - cbn in Hf, Hw. apply andb_true_iff in Hf. destruct Hf as [Hf1 Hf2].
    apply andb_true_iff in Hw. destruct Hw as [Hw1 Hw2].
    destruct (IH e v hp Hf1 Hr Hw1) as (v' & hp1 & E1 & S1).
    destruct (IHF (hp ++ hp1) Hf2 Hw2) as (vs' & hp2 & E2 & S2).
    exists (v' :: vs'), (hp1 ++ hp2). cbn [eval_seq]. rewrite E1. cbn [bind]. rewrite E2. cbn [bind].
    rewrite app_assoc. split; [reflexivity|]. cbn [forallb2].
    rewrite <- app_assoc in S2 |- *. rewrite S2, andb_true_r.
    rewrite app_assoc. apply same_shape_ext. exact S1.
Qed.

Lemma eval_pairs_denotes n :
  (forall e v, denotes n e v) ->
  forall es vs, Forall2 (rel_pair al) es vs -> forall hp,
  forallb (fun kv => fits n ns bound okname (fst kv) && fits n ns bound okname (snd kv)) es = true ->
  forallb (fun kv => wfv P (fst kv) && wfv P (snd kv)) vs = true ->
  exists vs' hp', eval_pairs (eval ns imps vars n) es hp = Ok (vs', hp ++ hp') /\
    forallb2 (fun p q => same_shape n h (hp ++ hp') (fst p) (fst q) &&
                         same_shape n h (hp ++ hp') (snd p) (snd q)) vs vs' = true.
Proof.
  intros IH es vs F. induction F as [|[k x] [kv xv] es vs [Hk Hx] F IHF]; intros hp Hf Hw.
  - exists [], []. rewrite app_nil_r. split; reflexivity.
  - cbn in Hk, Hx. cbn [forallb fst snd] in Hf, Hw.
    apply andb_true_iff in Hf. destruct Hf as [Hf1 Hf2]. apply andb_true_iff in Hf1. destruct Hf1 as [Hfk Hfx].
    apply andb_true_iff in Hw. destruct Hw as [Hw1 Hw2]. apply andb_true_iff in Hw1. destruct Hw1 as [Hwk Hwx].
    destruct (IH k kv hp Hfk Hk Hwk) as (k' & hp1 & E1 & S1).
    destruct (IH x xv (hp ++ hp1) Hfx Hx Hwx) as (x' & hp2 & E2 & S2).
    destruct (IHF ((hp ++ hp1) ++ hp2) Hf2 Hw2) as (vs' & hp3 & E3 & S3).
    exists ((k', x') :: vs'), (hp1 ++ hp2 ++ hp3). cbn [eval_pairs]. rewrite E1. cbn [bind].
    rewrite E2. cbn [bind]. rewrite E3. cbn [bind].
    replace (hp ++ hp1 ++ hp2 ++ hp3) with (((hp ++ hp1) ++ hp2) ++ hp3) by (rewrite <- !app_assoc; reflexivity).
    split; [reflexivity|]. cbn [forallb2 fst snd]. rewrite S3, andb_true_r.
    apply andb_true_iff. split.
    + apply same_shape_ext. apply same_shape_ext. exact S1.
    + apply same_shape_ext. exact S2.
Qed.

Lemma heap_obj_wf i o : nth_error h i = Some o -> obj_wf P o = true.
Proof.
  intros E. apply nth_error_In in E. rewrite forallb_forall in Hwf. auto.
Qed.

Lemma dict_wf_split kvs :
  forallb (fun kv : val * val => hashable (fst kv) && (wfv P (fst kv) && wfv P (snd kv))) kvs = true ->
  forallb (fun kv => hashable (fst kv)) kvs = true /\
  forallb (fun kv => wfv P (fst kv) && wfv P (snd kv)) kvs = true.
Proof.
  induction kvs as [|kv r IH]; cbn; [auto|]. intros E.
  apply andb_true_iff in E. destruct E as [E1 E2]. apply andb_true_iff in E1. destruct E1 as [E1 E3].
  destruct (IH E2) as [A B]. rewrite E1, E3, A, B. auto.
Qed.

Lemma pairs_hashable n h2 : forall (l l' : list (val * val)),
  forallb2 (fun p q => same_shape n h h2 (fst p) (fst q) && same_shape n h h2 (snd p) (snd q)) l l' = true ->
  forallb (fun kv => hashable (fst kv)) l = forallb (fun kv => hashable (fst kv)) l'.
Proof.
  induction l as [|x l IHl]; destruct l' as [|y l']; cbn; try congruence.
  intros E. apply andb_true_iff in E. destruct E as [E1 E2]. apply andb_true_iff in E1. destruct E1 as [E1 _].
  rewrite (same_hashable _ _ _ _ _ E1), (IHl _ E2). reflexivity.
Qed.

Theorem eval_denotes : forall n e v, denotes n e v.
Proof.
  induction n as [|n IH]; intros e v hp Hf Hr Hw; [discriminate|].
  destruct Hr as [c|m nm|es vs F|i|i x Hx|es vs F].
  - exists (VConst c), []. rewrite app_nil_r. cbn. rewrite const_eqb_refl. auto.
  - exists (lookup_name nm imps), []. rewrite app_nil_r. split; [reflexivity|].
    apply leaf_same_shape. apply Hnames; [exact Hw | exact Hf].
  - cbn [fits] in Hf. cbn [wfv] in Hw.
    destruct (eval_seq_denotes n IH es vs F hp Hf Hw) as (vs' & hp' & E & S).
    exists (VTuple vs'), hp'. cbn [eval]. rewrite E. cbn [bind]. split; [reflexivity|]. exact S.
  - cbn [fits] in Hf. cbn [eval].
    destruct (nth_error ns i) as [nd|] eqn:En; [|discriminate].
    destruct (node_lookup _ _ _ Hheap _ _ En) as (o & Eo & Ro).
    pose proof (heap_obj_wf _ _ Eo) as Wo.
    destruct Ro as [es vs F|es vs F|kvs kvs' F]; cbn [obj_wf] in Wo.
    + destruct (eval_seq_denotes n IH es vs F hp Hf Wo) as (vs' & hp' & E & S).
      exists (VRef (List.length (hp ++ hp'))), (hp' ++ [HList vs']).
      rewrite E. cbn [bind]. unfold mk_list, alloc_obj. rewrite app_assoc. split; [reflexivity|].
      cbn [same_shape]. rewrite Eo, nth_error_snoc. apply forallb2_same_ext. exact S.
    + apply andb_true_iff in Wo. destruct Wo as [Wh Wo].
      destruct (eval_seq_denotes n IH es vs F hp Hf Wo) as (vs' & hp' & E & S).
      exists (VRef (List.length (hp ++ hp'))), (hp' ++ [HSet vs']).
      rewrite E. cbn [bind]. unfold mk_set, alloc_obj.
      rewrite <- (forallb2_hashable _ _ _ _ _ S), Wh. rewrite app_assoc. split; [reflexivity|].
      cbn [same_shape]. rewrite Eo, nth_error_snoc. apply forallb2_same_ext. exact S.
    + apply dict_wf_split in Wo. destruct Wo as [Wh Wo].
      destruct (eval_pairs_denotes n IH kvs kvs' F hp Hf Wo) as (vs' & hp' & E & S).
      exists (VRef (List.length (hp ++ hp'))), (hp' ++ [HDict vs']).
      rewrite E. cbn [bind]. unfold mk_dict, alloc_obj.
      rewrite <- (pairs_hashable _ _ _ _ S), Wh. rewrite app_assoc. split; [reflexivity|].
      cbn [same_shape]. rewrite Eo, nth_error_snoc.
      eapply forallb2_impl; [|exact S]. cbn. intros p q E'.
      apply andb_true_iff in E'. destruct E' as [E1 E2].
      rewrite (same_shape_ext _ _ _ _ _ _ E1), (same_shape_ext _ _ _ _ _ _ E2). reflexivity.
  - cbn [fits] in Hf. apply Nat.ltb_lt in Hf.
    destruct (Hvars i x Hf Hx) as (y & Ey & Sy).
    exists y, []. rewrite app_nil_r. cbn [eval]. unfold var_value. rewrite Ey. split; [reflexivity|].
    apply leaf_same_shape. exact Sy.
  - cbn [fits frozenset_arg] in Hf. cbn [eval frozenset_arg]. cbn in Hf |- *.
    cbn [wfv] in Hw. apply andb_true_iff in Hw. destruct Hw as [Wh Hw].
    destruct (eval_seq_denotes n IH es vs F hp Hf Hw) as (vs' & hp' & E & S).
    exists (VFrozen vs'), hp'. rewrite E. cbn [bind].
    rewrite <- (forallb2_hashable _ _ _ _ _ S), Wh. split; [reflexivity|]. exact S.
Qed.

End Core.

(* ================= part 2: well-formedness of VM states is invariant ================= *)
Lemma forallb_rev {A} (f : A -> bool) l : forallb f (rev l) = forallb f l.
Proof.
  induction l as [|a l IH]; cbn; [reflexivity|].
  rewrite forallb_app, IH. cbn. rewrite andb_true_r. apply andb_comm.
Qed.

Lemma forallb_set_nth {A} (f : A -> bool) x : forall l i,
  forallb f l = true -> f x = true -> forallb f (set_nth i x l) = true.
Proof.
  induction l as [|a l IH]; intros i H X; destruct i; cbn in *; auto.
  - apply andb_true_iff in H. destruct H as [_ H]. rewrite X, H. reflexivity.
  - apply andb_true_iff in H. destruct H as [H1 H]. rewrite H1, IH; auto.
Qed.

Lemma forallb_nth_error {A} (f : A -> bool) l i x :
  forallb f l = true -> nth_error l i = Some x -> f x = true.
Proof. intros H E. apply nth_error_In in E. rewrite forallb_forall in H. auto. Qed.

Section WF.
Variable P : val -> bool.

Record WF (s : vm) : Prop := mkWF {
  W_cur : forallb (wfv P) (cur s) = true;
  W_meta : forallb (forallb (wfv P)) (meta s) = true;
  W_memo : forallb (fun kv => wfv P (snd kv)) (vmemo s) = true;
  W_heap : forallb (obj_wf P) (heap s) = true;
  W_log : forallb (event_wf P) (log s) = true;
  W_stop : match vstopped s with Some v => wfv P v | None => true end = true
}.

Lemma vm_wf_WF s : vm_wf P s = true <-> WF s.
Proof.
  unfold vm_wf. split.
  - intros H. repeat (apply andb_true_iff in H; destruct H as [H ?]). constructor; assumption.
  - intros [A B C D E F]. rewrite A, B, C, D, E, F. reflexivity.
Qed.

Lemma memo_remove_wf k : forall m : list (Z * val),
  forallb (fun kv => wfv P (snd kv)) m = true ->
  forallb (fun kv => wfv P (snd kv)) (memo_remove k m) = true.
Proof.
  induction m as [|[k' v] m IH]; cbn; [auto|]. intros H.
  apply andb_true_iff in H. destruct H as [H1 H2].
  destruct (Z.eqb k k'); cbn; [auto | rewrite H1; auto].
Qed.

Lemma memo_put_wf k v (m : list (Z * val)) :
  wfv P v = true -> forallb (fun kv => wfv P (snd kv)) m = true ->
  forallb (fun kv => wfv P (snd kv)) (memo_put k v m) = true.
Proof. intros A B. unfold memo_put. cbn. rewrite A. apply memo_remove_wf. exact B. Qed.

Lemma memo_get_wf k : forall (m : list (Z * val)) v,
  forallb (fun kv => wfv P (snd kv)) m = true -> memo_get k m = Some v -> wfv P v = true.
Proof.
  induction m as [|[k' x] m IH]; cbn; [discriminate|]. intros v H G.
  apply andb_true_iff in H. destruct H as [H1 H2].
  destruct (Z.eqb k k'); [inversion G; subst; exact H1 | eauto].
Qed.

Lemma vpairs_wf : forall n l kvs, List.length l <= n ->
  vpairs_of l = Ok kvs -> forallb (wfv P) l = true ->
  forallb (fun kv => wfv P (fst kv) && wfv P (snd kv)) kvs = true.
Proof.
  induction n as [|n IH]; intros l kvs L H W.
  - destruct l; [|cbn in L; lia]. inversion H. reflexivity.
  - destruct l as [|a [|b l]]; [inversion H; reflexivity | discriminate |].
    cbn [vpairs_of] in H. apply bind_ok in H. destruct H as (t & H & Q). inversion Q; subst.
    cbn in W. apply andb_true_iff in W. destruct W as [Wa W]. apply andb_true_iff in W. destruct W as [Wb W].
    cbn. rewrite Wa, Wb. cbn. apply (IH l); [cbn in L; lia | exact H | exact W].
Qed.

Lemma dict_wf_join (kvs : list (val * val)) :
  forallb (fun kv => hashable (fst kv)) kvs = true ->
  forallb (fun kv => wfv P (fst kv) && wfv P (snd kv)) kvs = true ->
  forallb (fun kv => hashable (fst kv) && (wfv P (fst kv) && wfv P (snd kv))) kvs = true.
Proof.
  induction kvs as [|kv r IH]; cbn; [auto|]. intros A B.
  apply andb_true_iff in A. destruct A as [A1 A2]. apply andb_true_iff in B. destruct B as [B1 B2].
  rewrite A1, B1. cbn. auto.
Qed.

Lemma setitem_events_wf d (kvs : list (val * val)) :
  wfv P d = true -> forallb (fun kv => wfv P (fst kv) && wfv P (snd kv)) kvs = true ->
  forallb (event_wf P) (map (fun kv => EvSetItem d (fst kv) (snd kv)) kvs) = true.
Proof.
  intros D. induction kvs as [|kv r IH]; cbn; [auto|]. intros B.
  apply andb_true_iff in B. destruct B as [B1 B2]. rewrite D, B1. cbn. auto.
Qed.

Ltac bdestr :=
  repeat match goal with
  | H : _ && _ = true |- _ => apply andb_true_iff in H; destruct H
  end.
Ltac bsplit := repeat (apply andb_true_iff; split).

Ltac use_eqs :=
  repeat match goal with
  | E : cur ?s = _, H : context[cur ?s] |- _ => rewrite E in H
  | E : meta ?s = _, H : context[meta ?s] |- _ => rewrite E in H
  end.

Ltac wf_fin :=
  constructor; simp_proj;
  repeat match goal with
  | E : cur ?s = _ |- context[cur ?s] => rewrite E
  | E : meta ?s = _ |- context[meta ?s] => rewrite E
  end;
  rewrite ?forallb_app, ?forallb_rev; cbn [forallb wfv obj_wf event_wf fst snd];
  rewrite ?forallb_app, ?forallb_rev;
  bsplit; try assumption; try reflexivity.

Ltac wf_fin2 HPo HPg :=
  constructor; simp_proj;
  repeat match goal with
  | E : cur ?s = _ |- context[cur ?s] => rewrite E
  | E : meta ?s = _ |- context[meta ?s] => rewrite E
  end;
  try (apply forallb_set_nth; [assumption|]);
  rewrite ?forallb_app, ?forallb_rev; cbn [forallb wfv obj_wf event_wf fst snd];
  rewrite ?forallb_app, ?forallb_rev; cbn [forallb wfv obj_wf event_wf fst snd];
  bsplit; try assumption; try reflexivity; try (apply HPo);
  try (apply HPg; simp_proj; cbn; auto);
  try (apply dict_wf_join; assumption); try (apply memo_put_wf; assumption);
  try (apply setitem_events_wf; [cbn [wfv]; try assumption | assumption]).

Lemma wf_step o s s' :
  (data_op o = true \/
   ((forall k, P (VObj k) = true) /\
    (forall m n, In (EvResolve m n) (log s') -> P (VGlobal m n) = true))) ->
  vstep o s = Ok s' -> WF s -> WF s'.
Proof.
  intros HP H [Wc Wm Wme Wh Wl Ws].
  destruct o; cbn [vstep] in H; unfold do_call, find_class in H.
  all: repeat (progress (fk_inv; eqs; subst; simp_proj; vinv_pairs; crack)).
  all: use_eqs; cbn [forallb wfv] in *; rewrite ?forallb_app, ?forallb_rev in *; bdestr.
  all: try solve [wf_fin].
  all: try (destruct HP as [HP|[HPo HPg]]; [discriminate HP|]).
  all: try match goal with
       | G : vget_obj ?i _ = Some ?o |- _ =>
           unfold vget_obj in G; simp_proj;
           pose proof (forallb_nth_error _ _ _ _ Wh G) as Wold; cbn [obj_wf] in Wold; bdestr
       end.
  all: try match goal with
       | G : vpairs_of ?l = Ok ?kvs |- _ =>
           assert (forallb (fun kv => wfv P (fst kv) && wfv P (snd kv)) kvs = true) as Wkv
             by (apply (vpairs_wf (List.length l) l kvs (le_n _) G); rewrite ?forallb_rev; assumption)
       end.
  all: rewrite ?fold_vlog_eq.
  all: try match goal with
       | G : memo_get _ (vmemo _) = Some _ |- _ => pose proof (memo_get_wf _ _ _ Wme G)
       end.
  all: try match goal with
       | G : rev (cur _) = _ :: _ |- _ =>
           rewrite <- forallb_rev in Wc; rewrite G in Wc; cbn [forallb] in Wc; bdestr
       end.
  all: first [solve [wf_fin2 HPo HPg] | solve [wf_fin2 HP HP] | idtac].
  all: constructor; simp_proj; try assumption;
    try (apply memo_put_wf; assumption);
    match goal with E : cur _ = _ |- _ => rewrite E end; cbn [forallb]; bsplit; assumption.
Qed.
End WF.

Lemma vstep_log_grows o s s' : vstep o s = Ok s' -> exists ev, log s' = ev ++ log s.
Proof.
  intros H. destruct o; cbn [vstep] in H; unfold do_call, find_class in H.
  all: repeat (progress (fk_inv; eqs; subst; simp_proj; vinv_pairs; crack)).
  all: rewrite ?fold_vlog_eq; simp_proj.
  all: try (exists []; reflexivity).
  all: try (eexists [_]; reflexivity).
  all: try (eexists [_; _]; reflexivity).
  all: try (eexists; reflexivity).
Qed.

Lemma vrun_log_grows : forall p s s', vrun_from p s = Ok s' -> exists ev, log s' = ev ++ log s.
Proof.
  induction p as [|o r IH]; intros s s' H; cbn [vrun_from] in H.
  - inversion H; subst. exists []. reflexivity.
  - destruct (is_stopped s); [inversion H; subst; exists []; reflexivity|].
    apply bind_ok in H. destruct H as (s1 & H1 & H).
    destruct (vstep_log_grows _ _ _ H1) as (e1 & E1). destruct (IH _ _ H) as (e2 & E2).
    exists (e2 ++ e1). rewrite E2, E1, app_assoc. reflexivity.
Qed.

(* the invariant along a run, for plain data (no stand-in) or for a leaf predicate that accepts
   every opaque object and every global the run resolves *)
Lemma wf_run P : forall p s s',
  (forallb data_op p = true \/
   ((forall k, P (VObj k) = true) /\
    (forall m n, In (EvResolve m n) (log s') -> P (VGlobal m n) = true))) ->
  vrun_from p s = Ok s' -> WF P s -> WF P s'.
Proof.
  induction p as [|o r IH]; intros s s' HP H W; cbn [vrun_from] in H.
  - inversion H; subst; exact W.
  - destruct (is_stopped s); [inversion H; subst; exact W|].
    apply bind_ok in H. destruct H as (s1 & H1 & H).
    apply (IH s1 s'); [| exact H | eapply wf_step; [| exact H1 | exact W]].
    + destruct HP as [HP|HP]; [left | right; exact HP].
      cbn in HP. apply andb_true_iff in HP. tauto.
    + destruct HP as [HP|[HPo HPg]]; [left | right; split; [exact HPo|]].
      * cbn in HP. apply andb_true_iff in HP. tauto.
      * intros m n Hin. apply HPg. destruct (vrun_log_grows _ _ _ H) as (ev & E). rewrite E.
        apply in_or_app. right. exact Hin.
Qed.

Lemma WF_init P : WF P vm_init.
Proof. constructor; reflexivity. Qed.

(* ================= part 4: the call-free data fragment ================= *)
(* plain data: no stand-in ever exists, so the VM logs nothing ... *)
Lemma data_step_log o s s' :
  data_op o = true -> WF no_standin s -> vstep o s = Ok s' -> log s' = log s.
Proof.
  intros Hd [Wc Wm Wme Wh Wl Ws] H.
  destruct o; try discriminate Hd; cbn [vstep] in H.
  all: repeat (progress (fk_inv; eqs; subst; simp_proj; vinv_pairs; crack)); try reflexivity.
  all: repeat match goal with
       | E : cur ?s = _, H : context[cur ?s] |- _ => rewrite E in H
       | E : meta ?s = _, H : context[meta ?s] |- _ => rewrite E in H
       end; cbn in Wc, Wm; repeat rewrite ?andb_false_r, ?andb_false_l in *; try discriminate.
Qed.

(* ... and fickling emits no statement and creates no variable (SETITEM / SETITEMS always hit a
   dict node: the variable path needs a stand-in target) *)
Lemma rel_nil_ref e i : rel [] e (VRef i) -> e = ENode i.
Proof. intros H. inversion H; subst; [reflexivity | destruct i0; discriminate]. Qed.

Ltac bdestr' :=
  repeat match goal with
  | H : _ && _ = true |- _ => apply andb_true_iff in H; destruct H
  end.
Ltac kill_standin :=
  try match goal with W : wfv no_standin (VGlobal _ _) = true |- _ => cbn in W; discriminate W end;
  try match goal with W : wfv no_standin (VObj _) = true |- _ => cbn in W; discriminate W end.
Ltac dict_node Hs Rh :=
  match goal with X : rel [] _ (VRef _) |- _ => apply rel_nil_ref in X; subst end;
  match goal with
  | Hv : match vget_obj ?i ?st with _ => _ end = _ |- _ =>
      destruct (vget_obj i st) as [[| |kvs']|] eqn:G; try discriminate Hv;
      unfold vget_obj in G; simp_proj; unfold get_node in Hs; simp_proj;
      let En := fresh "En" in
      destruct (nth_error (nodes _) i) as [nd|] eqn:En;
      [ pose proof (Forall2_nth_error _ _ _ Rh _ _ _ En G) as Rn; inversion Rn; subst;
        inversion Hs; subst; simp_proj; auto
      | rewrite (lookup_none _ _ _ _ Rh En) in G; discriminate G ]
  end.

Lemma data_step_quiet o f v f' v' :
  data_op o = true -> R [] f v -> WF no_standin v ->
  step o f = Ok f' -> vstep o v = Ok v' ->
  ctr f' = ctr f /\
  (body f' = body f \/ exists e, o = OStop /\ body f' = SResult e :: body f).
Proof.
  intros Hd [Rs Rm Rh Re Rc Rv Rp] [Wc Wm Wme Wh Wl Ws] Hs Hv.
  destruct o; try discriminate Hd; cbn [step] in Hs.
  all: try solve [repeat (progress (fk_inv; eqs; subst; simp_proj; inv_pairs; crack));
                  simp_proj; split; [reflexivity | first [left; reflexivity | right; eauto]]].
  - (* SETITEM *)
    cbn [vstep] in Hv. sprep0. use_stack. inv_rs.
    match goal with E : cur v = _ |- _ => rewrite E in Wc end. cbn [forallb] in Wc. bdestr'.
    match type of Hv with match ?x with _ => _ end = _ => destruct x; try discriminate Hv; kill_standin end.
    dict_node Hs Rh.
  - (* SETITEMS *)
    cbn [vstep] in Hv. sprep0. slice. use_stack. inv_rs.
    match goal with E : meta v = _ |- _ => rewrite E in Wm end. cbn [forallb] in Wm. bdestr'.
    match type of Hv with match ?x with _ => _ end = _ => destruct x; try discriminate Hv; kill_standin end.
    dict_node Hs Rh.
Qed.

Record DI (f : fk) (v : vm) : Prop := mkDI {
  DI_R : R [] f v;
  DI_wf : WF no_standin v;
  DI_log : log v = [];
  DI_body : match vstopped v with
            | None => body f = []
            | Some _ => exists e, body f = [SResult e]
            end
}.

Lemma DI_init : DI (fk_init 0) vm_init.
Proof. constructor; [exact (R_init 0) | apply WF_init | reflexivity | reflexivity]. Qed.

Lemma DI_step o f v f' v' :
  data_op o = true -> vstopped v = None -> DI f v ->
  step o f = Ok f' -> vstep o v = Ok v' -> DI f' v'.
Proof.
  intros Hd NS [HR HW HL HB] Hs Hv. rewrite NS in HB.
  destruct (lockstep _ _ _ _ _ _ NS HR Hs Hv) as (al' & _ & HR').
  destruct (data_step_quiet _ _ _ _ _ Hd HR HW Hs Hv) as [Hc Hb].
  assert (al' = []) as ->.
  { pose proof (R_ctr _ _ _ HR') as C'. pose proof (R_ctr _ _ _ HR) as C.
    rewrite Hc, C in C'. destruct al'; [reflexivity | discriminate]. }
  constructor.
  - exact HR'.
  - eapply wf_step; [left; exact Hd | exact Hv | exact HW].
  - rewrite (data_step_log _ _ _ Hd HW Hv). exact HL.
  - pose proof (R_stop _ _ _ HR') as Rp.
    destruct (vstopped v') as [x|].
    + destruct Rp as (_ & e & b & Eb & _).
      destruct Hb as [Hb|(e' & _ & Hb)]; rewrite HB in Hb; rewrite Hb in Eb.
      * discriminate.
      * exists e'. exact Hb.
    + destruct Hb as [Hb|(e' & Ho & Hb)]; [rewrite Hb; exact HB|].
      subst o. cbn [step] in Hs. apply bind_ok in Hs. destruct Hs as ([e0 f0] & _ & Hs).
      inversion Hs; subst. cbn in Rp. discriminate.
Qed.

Lemma DI_run : forall p f v f' v',
  forallb data_op p = true -> DI f v ->
  run_from p f = Ok f' -> vrun_from p v = Ok v' -> DI f' v'.
Proof.
  induction p as [|o r IH]; intros f v f' v' Hd D Hs Hv; cbn [run_from vrun_from] in *.
  - inversion Hs; inversion Hv; subst. exact D.
  - pose proof (R_stopped_agree _ _ _ (DI_R _ _ D)) as St. rewrite <- St in Hv.
    destruct (stopped f) eqn:Sf.
    + inversion Hs; inversion Hv; subst. exact D.
    + apply bind_ok in Hs. destruct Hs as (f1 & S1 & Hs).
      apply bind_ok in Hv. destruct Hv as (v1 & V1 & Hv).
      assert (vstopped v = None) as NS.
      { unfold is_stopped in St. destruct (vstopped v); [discriminate | reflexivity]. }
      cbn in Hd. apply andb_true_iff in Hd. destruct Hd as [Hd1 Hd2].
      eapply IH; [exact Hd2 | | exact Hs | exact Hv].
      eapply DI_step; eauto.
Qed.

(* an acyclic VM value is denoted by an expression that prints within the same depth *)
Section Acyclic.
Variable ns : list node.
Variable h : list hobj.
Variable bound : nat.
Variable okname : string -> bool.
Hypothesis Hokname : forall s, okname s = true.
Hypothesis Hheap : Forall2 (rel_node []) ns h.

Lemma acyclic_fits_list n :
  (forall e v, same_shape n h h v v = true -> rel [] e v -> fits n ns bound okname e = true) ->
  forall es vs, Forall2 (rel []) es vs -> forallb2 (same_shape n h h) vs vs = true ->
  forallb (fits n ns bound okname) es = true.
Proof.
  intros IH es vs F. induction F as [|e v es vs Hr F IHF]; cbn; [reflexivity|].
  intros E. apply andb_true_iff in E. destruct E as [E1 E2].
  rewrite (IH _ _ E1 Hr), (IHF E2). reflexivity.
Qed.

Lemma acyclic_fits_pairs n :
  (forall e v, same_shape n h h v v = true -> rel [] e v -> fits n ns bound okname e = true) ->
  forall es vs, Forall2 (rel_pair []) es vs ->
  forallb2 (fun p q : val * val => same_shape n h h (fst p) (fst q) && same_shape n h h (snd p) (snd q))
           vs vs = true ->
  forallb (fun kv => fits n ns bound okname (fst kv) && fits n ns bound okname (snd kv)) es = true.
Proof.
  intros IH es vs F. induction F as [|[k x] [kv xv] es vs [Hk Hx] F IHF]; cbn; [reflexivity|].
  intros E. apply andb_true_iff in E. destruct E as [E1 E2]. apply andb_true_iff in E1. destruct E1 as [Ek Ex].
  cbn in Hk, Hx. rewrite (IH _ _ Ek Hk), (IH _ _ Ex Hx), (IHF E2). reflexivity.
Qed.

Lemma acyclic_fits : forall n e v,
  same_shape n h h v v = true -> rel [] e v -> fits n ns bound okname e = true.
Proof.
  induction n as [|n IH]; intros e v S Hr; [discriminate|].
  destruct Hr as [c|m nm|es vs F|i|i x Hx|es vs F]; cbn [same_shape] in S.
  - reflexivity.
  - cbn. apply Hokname.
  - cbn [fits]. eapply acyclic_fits_list; eauto.
  - cbn [fits]. destruct (nth_error ns i) as [nd|] eqn:En.
    + destruct (node_lookup _ _ _ Hheap _ _ En) as (o & Eo & Ro). rewrite Eo in S.
      destruct Ro as [es vs F|es vs F|kvs kvs' F].
      * eapply acyclic_fits_list; eauto.
      * eapply acyclic_fits_list; eauto.
      * eapply acyclic_fits_pairs; eauto.
    + rewrite (lookup_none _ _ _ _ Hheap En) in S. discriminate.
  - destruct i; discriminate.
  - cbn. eapply acyclic_fits_list; eauto.
Qed.
End Acyclic.

(* plain data, any length / nesting / sharing: the decompiled program evaluates, logs nothing, and
   its result unfolds to the same tree as the VM's value *)
Theorem plain_data_eval p n f v x :
  forallb data_op p = true -> run p = Ok f -> vrun p = Ok v -> vstopped v = Some x ->
  same_shape n (heap v) (heap v) x x = true ->
  exists st r, py_run n p = Ok st /\ presult st = Some r /\ plog st = [] /\ log v = [] /\
               same_shape n (heap v) (pheap st) x r = true.
Proof.
  intros Hd Hs Hv Hx Hac.
  pose proof (DI_run p _ _ _ _ Hd DI_init Hs Hv) as [HR HW HL HB].
  rewrite Hx in HB. destruct HB as (e & Eb).
  pose proof (R_stop _ _ _ HR) as Rp. rewrite Hx in Rp. destruct Rp as (_ & e' & b & Eb' & Hr).
  rewrite Eb in Eb'. inversion Eb'; subst e' b.
  pose proof (R_heap _ _ _ HR) as Rh.
  pose proof (W_stop _ _ HW) as Wx. rewrite Hx in Wx.
  assert (fits n (nodes f) 0 (fun _ => true) e = true) as Hf by (eapply acyclic_fits; eauto).
  destruct (eval_denotes no_standin [] (nodes f) (heap v) [] [] 0 (fun _ => true) Rh (W_heap _ _ HW)) with
    (n := n) (e := e) (v := x) (hp := @nil hobj) as (r & hp' & E & S); auto.
  - intros i y Hi. lia.
  - intros m nm Hc. discriminate.
  - unfold py_run. rewrite Hs. cbn [bind]. unfold py_eval_fk. rewrite Eb. cbn [rev app exec_module exec_stmt].
    unfold peval. cbn [pst_init pimports pvars pheap]. rewrite E. cbn.
    eexists _, r. repeat split; auto.
Qed.
